"""C05 — circuits survive JSON serialisation unchanged in structure and meaning."""
import io
import json
import keyword
import os
import re
import tempfile
from fractions import Fraction

from .. import common
from ..common import rat

PROP = "C05"
RULE = ("seeded random gate trees (depth <= 4, wrappers built with the raw constructors so every nesting order "
        "occurs) over all built-in gates and custom gates with symbolic matrices; parameters int / float (incl. "
        "exponent format, 17-digit) / sympy rational, pi-multiple, Float / bare, sympy-shadowing and indexed symbols / "
        "expressions; through json.dumps/loads and through save_*/load_* on a temp file or stream; circuit lists; "
        "symbol-table cases; a malformed-dictionary stream for the deserialiser.  non-trivial: >= 1 wrapper or custom "
        "gate or symbolic parameter (symtab: >= 1 indexed name); distinct = distinct canonical JSON of the case")
TRUSTED = [
    "str(expr) / sympy.sympify(text, locals=table) return an expression equal to the original (normalised: Python "
    "int -> Integer, float -> Float, Float printed with 15 digits) whenever every free symbol of the expression "
    "is supplied by the table or is a plain identifier sympy's namespace does not define (law SympifyLaw.sympify_ser; "
    "exercised here on the generated grammar)",
    "the normalisation keeps free symbols and value (SympifyLaw.free_nrm, hypothesis of roundtrip_matrix)",
    "json.dumps/json.loads and file write/read are the identity on dictionaries of str / int / float / list / dict",
    "str(exponent) of an int or float never contains the last character of DAGGER_GATE_NAME ('r')",
    "CustomGateDefinition.__ne__ is irreflexive (a definition never differs from itself)",
    "Python str comparison / sorted() is code-point lexicographic order",
]
ASSUMPTIONS = [
    "symbol names are identifiers other than Python keywords, index suffixes are canonical decimals, no plain symbol "
    "shares its name with the base of an indexed symbol in the same gate (F13: `x` with `x[3]` raises TypeError, outside the domain)",
    "custom gate names are not global names of the _builtin_gates module (the 27 gate names, and e.g. `Union`, `Callable`)",
    "a symbol name is not used by the printed expression for something else as well (known finding "
    "symbol-name-used-by-expression-text): this is the only reason the round-trip theorems are `_partial`",
    "symbols carry no sympy assumptions (Symbol('x', real=True) comes back as Symbol('x'))",
    "matrices are compared only for gates with <= 3 qubits whose wrappers are controlled / dagger / integer powers |e| <= 3 "
    "(sympy's Matrix.exp and fractional powers of float matrices can run for minutes or exhaust memory)",
]

SIG_CUSTOM_SYM = "custom-gate-symbolic-argument"
SIG_NAME_TEXT = "symbol-name-used-by-expression-text"
SIG_FLOAT = "python-float-long-repr"
_SOFT = []
_FULL_NS = {}
_LENIENT = [False]     # (kept off) compare symbols only


def _m():
    common.use_repo()
    import sympy
    import numpy as np
    from orquestra.quantum import circuits as cq
    from orquestra.quantum.circuits import _builtin_gates, _gates, _serde
    return sympy, np, cq, _builtin_gates, _gates, _serde


_BT = None


def builtin_table():
    """name -> (num_qubits, n_params) read off the library (independently of harness/tables.py)"""
    global _BT
    if _BT is None:
        import inspect
        _, _, _, bg, g, _ = _m()
        t = {}
        for k, o in vars(bg).items():
            if isinstance(o, g.MatrixFactoryGate):
                t[k] = (o.num_qubits, 0)
            elif inspect.isfunction(o) and o.__closure__ and "matrix_factory" in o.__code__.co_freevars:
                cv = inspect.getclosurevars(o).nonlocals
                t[k] = (cv["num_qubits"], len(inspect.signature(cv["matrix_factory"]).parameters))
        _BT = t
    return _BT


# ---------------------------------------------------------------- building real objects from specs
def _num(sp):
    sympy = _m()[0]
    (k, v), = sp.items()
    if k == "int":
        return sympy.Integer(v)
    if k == "rat":
        return sympy.Rational(v)
    if k == "pi":
        return sympy.Rational(v) * sympy.pi
    if k == "flt":
        return sympy.Float(v)
    raise AssertionError(k)


def build_param(sp):
    sympy, np = _m()[0], _m()[1]
    (k, v), = sp.items()
    if k == "int":
        return int(v)
    if k == "flt":
        return float(v)
    if k == "np":
        return np.float64(v)
    if k == "sym":
        return sympy.Symbol(v)
    if k in ("rat", "pi", "sflt"):
        return _num({"flt" if k == "sflt" else k: v})
    if k == "lin":
        e = _num(v["const"]) if v.get("const") else sympy.Integer(0)
        for coef, name in v["terms"]:
            e = e + _num(coef) * sympy.Symbol(name)
        return e
    if k == "prod":
        e = sympy.Integer(1)
        for name in v:
            e = e * sympy.Symbol(name)
        return e
    if k == "fn":
        return getattr(sympy, v[0])(build_param(v[1]))
    raise AssertionError(k)


def build_entry(sp):
    """matrix entry of a custom definition"""
    sympy = _m()[0]
    (k, v), = sp.items()
    if k == "expi":
        return sympy.exp(sympy.I * sympy.Symbol(v))
    if k == "cos":
        return sympy.cos(sympy.Symbol(v))
    if k == "sin":
        return sympy.sin(sympy.Symbol(v))
    if k == "nsin":
        return -sympy.sin(sympy.Symbol(v))
    if k == "isin":
        return -sympy.I * sympy.sin(sympy.Symbol(v) / 2)
    return build_param(sp)


def build_def(name, ds):
    sympy, _, cq, *_ = _m()
    return cq.CustomGateDefinition(
        name, sympy.Matrix([[build_entry(e) for e in row] for row in ds["matrix"]]),
        tuple(sympy.Symbol(s) for s in ds["ordering"]))


def build_gate(gs, defs):
    _, _, _, bg, g, _ = _m()
    t = gs["t"]
    if t == "b":
        ref = getattr(bg, gs["name"])
        ps = [build_param(p) for p in gs["params"]]
        return ref(*ps) if builtin_table()[gs["name"]][1] > 0 else ref
    if t == "c":
        return defs[gs["def"]](*[build_param(p) for p in gs["params"]])
    inner = build_gate(gs["g"], defs)
    if t == "ctrl":
        return g.ControlledGate(inner, gs["k"])
    if t == "dag":
        return g.Dagger(inner)
    if t == "exp":
        return g.Exponential(inner)
    if t == "pow":
        return g.Power(inner, gs["e"])
    raise AssertionError(t)


def build_circuit(cs):
    _, _, cq, *_ = _m()
    defs = {}
    for key, ds in (cs.get("defs") or {}).items():
        defs[key] = build_def(ds.get("gate_name", key), ds)
    ops = [cq.GateOperation(build_gate(o["g"], defs), tuple(o["q"])) for o in cs["ops"]]
    return cq.Circuit(ops, n_qubits=cs.get("n"))


# ---------------------------------------------------------------- model AST of real objects
def p_ast(p):
    sympy = _m()[0]
    syms = sorted(str(s) for s in p.free_symbols) if isinstance(p, sympy.Expr) else []
    text = str(p)
    if not isinstance(p, sympy.Basic) and not _is_number(p):
        # something of sympy's namespace came back instead of an expression (finding class): name it by the
        # namespace key rather than by its repr
        if not _FULL_NS:
            exec("from sympy import *", _FULL_NS)
        keys = sorted(k for k, v in _FULL_NS.items() if v is p)
        text = keys[0] if keys else getattr(p, "__name__", text)
    return {"text": text, "syms": syms}


def expo_tag(e):
    if isinstance(e, bool) or not isinstance(e, (int, float)):
        raise TypeError(f"exponent {e!r} is not an int/float")
    return {"int": isinstance(e, int), "val": str(rat(Fraction(e))), "text": str(e)}


def def_ast(d):
    rows = [[p_ast(d.matrix[i, j]) for j in range(d.matrix.shape[1])] for i in range(d.matrix.shape[0])]
    return {"gate_name": d.gate_name, "matrix": rows, "ordering": [str(s) for s in d.params_ordering]}


class Junk(Exception):
    pass


def gate_ast(gt):
    _, _, _, bg, g, _ = _m()
    if isinstance(gt, g.MatrixFactoryGate):
        ps = [p_ast(p) for p in gt.params]
        if isinstance(gt.matrix_factory, g.CustomGateMatrixFactory):
            return {"t": "custom", "def": def_ast(gt.matrix_factory.gate_definition), "params": ps}
        return {"t": "builtin", "name": gt.name, "params": ps}
    if isinstance(gt, g.ControlledGate):
        return {"t": "controlled", "g": gate_ast(gt.wrapped_gate), "k": gt.num_control_qubits}
    if isinstance(gt, g.Dagger):
        return {"t": "dagger", "g": gate_ast(gt.wrapped_gate)}
    if isinstance(gt, g.Exponential):
        return {"t": "exponential", "g": gate_ast(gt.wrapped_gate)}
    if isinstance(gt, g.Power):
        return {"t": "power", "g": gate_ast(gt.wrapped_gate), "e": expo_tag(gt.exponent)}
    raise Junk(repr(gt)[:80])


def circuit_ast(c):
    return {"n_qubits": int(c.n_qubits),
            "ops": [{"gate": gate_ast(o.gate), "qubits": [int(q) for q in o.qubit_indices]} for o in c.operations]}


def tag_dict(d):
    """the real dictionary with exponents tagged (int/float distinction survives the driver's JSON)"""
    if isinstance(d, dict):
        return {k: (expo_tag(v) if k == "exponent" else tag_dict(v)) for k, v in d.items()}
    if isinstance(d, list):
        return [tag_dict(x) for x in d]
    return d


def untag_dict(d):
    if isinstance(d, dict):
        if set(d) == {"int", "val", "text"}:
            f = Fraction(d["val"])
            return int(f) if d["int"] else float(f)
        return {k: untag_dict(v) for k, v in d.items()}
    if isinstance(d, list):
        return [untag_dict(x) for x in d]
    return d


def typed(d):
    """structure with the int/float distinction made explicit, for exact dictionary comparison"""
    if isinstance(d, dict):
        return {k: typed(v) for k, v in d.items()}
    if isinstance(d, list):
        return [typed(x) for x in d]
    if isinstance(d, float):
        return ("float", d.hex())
    return d


_SYMPY_NS = None


def _sympy_ns():
    """names sympify resolves to an object of sympy's namespace rather than to a fresh Symbol (the rule of
    sympy.parsing.sympy_parser.auto_symbol), split into constants usable in arithmetic and everything else"""
    global _SYMPY_NS
    if _SYMPY_NS is None:
        sympy = _m()[0]
        from sympy.parsing.sympy_parser import AssumptionKeys  # noqa  (the class auto_symbol itself tests against)
        ns = {}
        exec("from sympy import *", ns)
        consts, others = set(), set()
        for k, v in ns.items():
            if isinstance(v, (AssumptionKeys, sympy.Basic, type)) or callable(v):
                (consts if isinstance(v, sympy.Expr) else others).add(k)
        _SYMPY_NS = (consts, others)
    return _SYMPY_NS


def sympy_globals(texts):
    consts, others = _sympy_ns()
    ids = set()
    for t in texts:
        ids.update(re.findall(r"[A-Za-z_][A-Za-z_0-9]*", t))
    return {"consts": sorted(ids & consts), "callables": sorted(ids & others)}


def dict_texts(d, acc=None):
    acc = [] if acc is None else acc
    if isinstance(d, dict):
        for v in d.values():
            dict_texts(v, acc)
    elif isinstance(d, list):
        for v in d:
            dict_texts(v, acc)
    elif isinstance(d, str):
        acc.append(d)
    return acc


# ---------------------------------------------------------------- cases
PLAIN = ["theta", "phi", "alpha", "omega_1", "t", "a0"]
SHADOW = ["beta", "gamma", "S", "N", "E", "I", "Q", "O", "zeta", "lamda", "Symbol", "Rational"]
INDEXED = ["v[0]", "v[1]", "v[3]", "v[12]", "w[2]", "par_x[7]"]


def _coef(rng, floats=True):
    k = rng.random()
    if k < 0.35:
        return {"int": rng.choice([-3, -1, 2, 3, 7])}
    if k < 0.55:
        return {"rat": rng.choice(["1/2", "-1/3", "3/4", "5/7"])}
    if k < 0.75:
        return {"pi": rng.choice(["1/2", "1", "-1/4", "2/3"])}
    if floats:
        return {"flt": rng.choice([0.5, 0.25, -1.5, 0.1, 0.30000000000000004, 1e-05, 2.5e+20, 1 / 3])}
    return {"int": 2}


def gen_numeric(rng):
    k = rng.random()
    if k < 0.2:
        return {"int": rng.choice([0, 1, -1, 2, 3, 17, -40, 2 ** 70])}
    if k < 0.55:
        return {"flt": rng.choice([0.5, -0.25, 0.1, 0.30000000000000004, 1e-05, 1.5e+300, 1e+16, 123456.789,
                                   rng.uniform(-7, 7), rng.uniform(-1e-6, 1e-6), 2.0, -0.0])}
    if k < 0.7:
        return {"rat": rng.choice(["1/2", "-1/3", "22/7", "3"])}
    if k < 0.85:
        return {"pi": rng.choice(["1/2", "1", "-1/4", "2/3", "2"])}
    return {"sflt": rng.choice([0.5, 0.1, 0.30000000000000004, rng.uniform(-3, 3)])}


def gen_symbolic(rng, pool):
    k = rng.random()
    if k < 0.4:
        return {"sym": rng.choice(pool)}
    if k < 0.8:
        names = rng.sample(pool, min(len(pool), rng.randrange(1, 4)))
        return {"lin": {"const": _coef(rng) if rng.random() < 0.5 else None,
                        "terms": [[_coef(rng), n] for n in names]}}
    if k < 0.9:
        return {"prod": rng.sample(pool, min(len(pool), 2))}
    return {"fn": [rng.choice(["sin", "cos", "exp"]), {"lin": {"const": None, "terms": [[_coef(rng, False), rng.choice(pool)]]}}]}


def sym_pool(rng):
    """a pool of symbol names without base-name clashes (F13 is outside the domain)"""
    pool = rng.sample(PLAIN, 3) + rng.sample(SHADOW, 3) + rng.sample(INDEXED, 3)
    rng.shuffle(pool)
    return pool


DEFS = {
    "U1": {"ordering": ["theta"], "matrix": [[{"cos": "theta"}, {"nsin": "theta"}], [{"sin": "theta"}, {"cos": "theta"}]]},
    "U12": {"ordering": ["theta"], "matrix": [[{"int": 1}, {"int": 0}], [{"int": 0}, {"expi": "theta"}]]},
    "Ph2": {"ordering": ["gamma", "beta"], "matrix": [[{"expi": "gamma"}, {"int": 0}], [{"int": 0}, {"expi": "beta"}]]},
    "Vix": {"ordering": ["v[0]", "v[1]"], "matrix": [[{"expi": "v[0]"}, {"int": 0}], [{"int": 0}, {"expi": "v[1]"}]]},
    "Const": {"ordering": [], "matrix": [[{"flt": 0.6}, {"flt": 0.8}], [{"flt": -0.8}, {"flt": 0.6}]]},
    "Swp": {"ordering": [], "matrix": [[{"int": 1}, {"int": 0}, {"int": 0}, {"int": 0}], [{"int": 0}, {"int": 0}, {"int": 1}, {"int": 0}],
                                       [{"int": 0}, {"int": 1}, {"int": 0}, {"int": 0}], [{"int": 0}, {"int": 0}, {"int": 0}, {"int": 1}]]},
    "ZZc": {"ordering": ["a", "S"], "matrix": [[{"expi": "a"}, {"int": 0}, {"int": 0}, {"int": 0}], [{"int": 0}, {"expi": "S"}, {"int": 0}, {"int": 0}],
                                               [{"int": 0}, {"int": 0}, {"expi": "S"}, {"int": 0}], [{"int": 0}, {"int": 0}, {"int": 0}, {"expi": "a"}]]},
    "F3": {"ordering": ["x"], "matrix": [[{"lin": {"const": {"flt": 0.30000000000000004}, "terms": [[{"flt": 1 / 3}, "x"]]}}, {"int": 0}],
                                         [{"int": 0}, {"int": 1}]]},
}
DEF_QUBITS = {"U1": 1, "U12": 1, "Ph2": 1, "Vix": 1, "Const": 1, "Swp": 2, "ZZc": 2, "F3": 1}


def gen_leaf(rng, numeric_only, pool, mode):
    """mode: 'safe' = custom gates get arguments the deserialiser can read (numbers, the first formal name,
    plain non-shadowing names); 'any' = any symbol of the pool"""
    bt = builtin_table()
    if rng.random() < 0.72:
        name = rng.choice(sorted(bt))
        nq, npar = bt[name]
        ps = [gen_numeric(rng) if (numeric_only or rng.random() < 0.45) else gen_symbolic(rng, pool) for _ in range(npar)]
        return {"t": "b", "name": name, "params": ps}, nq, None
    dn = rng.choice(sorted(DEFS))
    ordering = DEFS[dn]["ordering"]
    ps = []
    for i, formal in enumerate(ordering):
        if numeric_only or rng.random() < 0.5:
            ps.append(gen_numeric(rng))
        elif mode == "any":
            ps.append(gen_symbolic(rng, pool))
        else:
            ok = [n for n in PLAIN if n not in ("a", "x")]
            if i == 0 and parse_indexed(formal) is None:
                ok = ok + [formal]
            ps.append(gen_symbolic(rng, ok))
    return {"t": "c", "def": dn, "params": ps}, DEF_QUBITS[dn], dn


def parse_indexed(s):
    m = re.search(r"^(.*)\[([0-9]+)\]$", s)
    return (m.group(1), m.group(2)) if m else None


def gen_gate(rng, max_depth, pool, mode):
    depth = rng.choice([0, 0, 1, 1, 2, 2, 3, 4][: 2 * max_depth + 2]) if max_depth else 0
    wrappers = [rng.choice(["ctrl", "dag", "pow", "exp"]) for _ in range(depth)]
    numeric_only = any(w in ("pow", "exp") for w in wrappers)
    gs, nq, dn = gen_leaf(rng, numeric_only, pool, mode)
    for w in wrappers:
        if w == "ctrl":
            k = rng.choice([1, 1, 2])
            gs, nq = {"t": "ctrl", "g": gs, "k": k}, nq + k
        elif w == "dag":
            gs = {"t": "dag", "g": gs}
        elif w == "exp":
            gs = {"t": "exp", "g": gs}
        else:
            gs = {"t": "pow", "g": gs, "e": rng.choice([2, 3, -1, 0, 0.5, 0.25, -0.5, 1.5, 2.0, 1e-05, 1e+16, 0.1])}
    return gs, nq, dn


def gen_circuit(rng, tier, mode="safe", max_depth=4):
    big = tier == "thorough"
    n_ops = rng.choice([0, 1, 1, 2, 3, 4, 6] + ([9, 12] if big else []))
    pool = sym_pool(rng)
    ops, defs, width = [], {}, 0
    for _ in range(n_ops):
        gs, nq, dn = gen_gate(rng, max_depth, pool, mode)
        if dn:
            defs[dn] = DEFS[dn]
        span = max(nq + rng.choice([0, 0, 1, 3]), nq)
        q = rng.sample(range(span), nq)        # distinct, any order, gaps
        ops.append({"g": gs, "q": q})
        width = max(width, max(q) + 1)
    n = rng.choice([None, None, width, width + rng.choice([1, 2, 5])])   # idle qubits
    if not n:
        n = None
    cs = {"n": n, "ops": ops}
    if defs:
        cs["defs"] = defs
    return cs


def _b(name, *ps):
    return {"t": "b", "name": name, "params": list(ps)}


def corpus():
    return [
        {"kind": "circuit", "via": "json", "circ": {"n": None, "ops": []}},
        {"kind": "circuit", "via": "file", "circ": {"n": 5, "ops": []}},
        {"kind": "circuit", "via": "json", "circ": {"n": 6, "ops": [{"g": _b("X"), "q": [3]}, {"g": _b("CNOT"), "q": [4, 1]}]}},
        # every wrapper, nested in both orders
        {"kind": "circuit", "via": "file", "circ": {"n": None, "ops": [
            {"g": {"t": "exp", "g": {"t": "ctrl", "g": {"t": "dag", "g": {"t": "pow", "g": _b("X"), "e": 0.5}}, "k": 2}}, "q": [0, 1, 2]},
            {"g": {"t": "dag", "g": {"t": "pow", "g": {"t": "exp", "g": {"t": "dag", "g": _b("RX", {"flt": 0.5})}}, "e": 2}}, "q": [1]},
            {"g": {"t": "dag", "g": {"t": "dag", "g": _b("T")}}, "q": [0]}]}},
        # indexed / shadowing symbols in built-in gates
        {"kind": "circuit", "via": "json", "circ": {"n": None, "ops": [
            {"g": _b("RX", {"sym": "v[3]"}), "q": [0]}, {"g": _b("RY", {"sym": "gamma"}), "q": [0]},
            {"g": _b("U3", {"sym": "S"}, {"lin": {"const": None, "terms": [[{"int": 2}, "v[1]"], [{"pi": "1/2"}, "beta"]]}}, {"flt": 0.30000000000000004}), "q": [1]},
            {"g": {"t": "ctrl", "g": {"t": "dag", "g": _b("PHASE", {"sym": "E"})}, "k": 1}, "q": [2, 0]}]}},
        # F14 (fixed): custom gate under wrappers is serialised with its definition
        {"kind": "circuit", "via": "json", "circ": {"n": None, "defs": {"U1": DEFS["U1"]}, "ops": [
            {"g": {"t": "ctrl", "g": {"t": "dag", "g": {"t": "c", "def": "U1", "params": [{"flt": 0.25}]}}, "k": 1}, "q": [1, 0]},
            {"g": {"t": "pow", "g": {"t": "c", "def": "U1", "params": [{"int": 1}]}, "e": 2}, "q": [0]}]}},
        # custom gate with a symbolic argument that is its own first formal / a plain name
        {"kind": "circuit", "via": "json", "circ": {"n": None, "defs": {"U1": DEFS["U1"], "Vix": DEFS["Vix"]}, "ops": [
            {"g": {"t": "c", "def": "U1", "params": [{"sym": "theta"}]}, "q": [0]},
            {"g": {"t": "c", "def": "U1", "params": [{"sym": "phi"}]}, "q": [1]},
            {"g": {"t": "c", "def": "Vix", "params": [{"flt": 0.5}, {"pi": "1/2"}]}, "q": [1]}]}},
        # repaired finding custom-gate-symbolic-argument (8ad8c91): a regression is a violation with that signature
        {"kind": "circuit", "via": "json", "circ": {"n": None, "defs": {"U1": DEFS["U1"]}, "ops": [
            {"g": {"t": "c", "def": "U1", "params": [{"sym": "gamma"}]}, "q": [0]}]}},
        {"kind": "circuit", "via": "json", "circ": {"n": None, "defs": {"U1": DEFS["U1"]}, "ops": [
            {"g": {"t": "c", "def": "U1", "params": [{"sym": "v[3]"}]}, "q": [0]}]}},
        {"kind": "circuit", "via": "json", "circ": {"n": None, "defs": {"Ph2": DEFS["Ph2"]}, "ops": [
            {"g": {"t": "c", "def": "Ph2", "params": [{"sym": "gamma"}, {"sym": "beta"}]}, "q": [0]}]}},
        # FINDING: a symbol whose name the printed expression also uses for something else
        {"kind": "circuit", "via": "json", "oracle_only": True, "circ": {"n": None, "ops": [
            {"g": _b("RX", {"lin": {"const": None, "terms": [[{"pi": "1/2"}, "pi"]]}}), "q": [0]}]}},
        {"kind": "circuit", "via": "json", "oracle_only": True, "circ": {"n": None, "ops": [
            {"g": _b("RX", {"lin": {"const": None, "terms": [[{"int": 2}, "Integer"]]}}), "q": [0]}]}},
        {"kind": "circuitset", "via": "file", "circs": [
            {"n": None, "ops": [{"g": _b("H"), "q": [0]}]}, {"n": 3, "ops": []},
            {"n": None, "defs": {"Const": DEFS["Const"]}, "ops": [{"g": {"t": "c", "def": "Const", "params": []}, "q": [2]}]}]},
        # seeded change C05_m2: two circuits of one list use DIFFERENT definitions under the same gate name
        {"kind": "circuitset", "via": "json", "circs": [
            {"n": None, "defs": {"U1": DEFS["U1"]}, "ops": [{"g": {"t": "c", "def": "U1", "params": [{"flt": 0.5}]}, "q": [0]}]},
            {"n": None, "defs": {"U1b": dict(DEFS["U12"], gate_name="U1")}, "ops": [{"g": {"t": "c", "def": "U1b", "params": [{"flt": 0.5}]}, "q": [1]}]},
            {"n": None, "defs": {"U1": DEFS["U1"]}, "ops": [{"g": {"t": "dag", "g": {"t": "c", "def": "U1", "params": [{"flt": 0.25}]}}, "q": [0]}]}]},
        # two different definitions under one name: to_dict raises ValueError (no round trip to speak of)
        {"kind": "circuit", "via": "json", "conflict": True, "circ": {"n": None,
            "defs": {"U1": DEFS["U1"], "U1b": dict(DEFS["U12"], gate_name="U1")}, "ops": [
            {"g": {"t": "c", "def": "U1", "params": [{"flt": 0.5}]}, "q": [0]},
            {"g": {"t": "dag", "g": {"t": "c", "def": "U1b", "params": [{"flt": 0.5}]}}, "q": [1]}]}},
        # two definitions whose names share a prefix, the same definition used twice
        {"kind": "circuit", "via": "json", "circ": {"n": None, "defs": {"U1": DEFS["U1"], "U12": DEFS["U12"]}, "ops": [
            {"g": {"t": "c", "def": "U12", "params": [{"flt": 0.5}]}, "q": [0]},
            {"g": {"t": "c", "def": "U1", "params": [{"flt": 0.5}]}, "q": [1]},
            {"g": {"t": "ctrl", "g": {"t": "c", "def": "U12", "params": [{"int": 2}]}, "k": 1}, "q": [1, 0]}]}},
        {"kind": "symtab", "names": ["theta", "v[3]", "v[12]", "beta", "w[0]"]},
        {"kind": "dict", "dict": {"n_qubits": 1, "operations": [{"type": "gate_operation", "gate": {"name": "Nope"}, "qubit_indices": [0]}]}},
        {"kind": "dict", "dict": {"n_qubits": 2, "operations": [{"type": "gate_operation", "qubit_indices": [0, 1], "gate": {
            "name": "Control", "wrapped_gate": {"name": "X"}, "num_control_qubits": 0}}]}},
    ]


def gen_malformed(rng):
    """dictionaries no serialiser produced: the deserialiser's error paths and name cascade"""
    def op(g, q=(0,)):
        return {"type": "gate_operation", "gate": g, "qubit_indices": list(q)}
    udef = {"gate_name": "U", "matrix": [["cos(t)", "-sin(t)"], ["sin(t)", "cos(t)"]], "params_ordering": ["t"]}
    k = rng.randrange(22)
    d = {"n_qubits": rng.choice([1, 2, 3])}
    if k == 0:
        d["operations"] = [op({"name": rng.choice(["Nope", "rx", "Control2", "X_Dagge"])})]
    elif k == 1:
        d["operations"] = [op({"name": "Control", "wrapped_gate": {"name": "X"}, "num_control_qubits": rng.choice([0, -1])}, (0, 1))]
    elif k == 2:
        d["operations"] = [op({"name": "Control", "wrapped_gate": {"name": "X"}}, (0, 1))]              # no num_control_qubits
    elif k == 3:
        d["operations"] = [op({"name": rng.choice(["Control", "X_Dagger", "Exponential", "X^2"])})]     # no wrapped_gate
    elif k == 4:
        d["operations"] = [op({"name": "X^2", "wrapped_gate": {"name": "X"}})]                          # no exponent
    elif k == 5:
        d["operations"] = [op({"name": "RX^2", "wrapped_gate": {"name": "RX", "params": ["x"], "free_symbols": ["x"]}, "exponent": 2})]
    elif k == 6:
        d["operations"] = [op({"name": "Exponential", "wrapped_gate": {"name": "RX", "params": ["2*y"], "free_symbols": ["y"]}})]
    elif k == 7:
        d = {"operations": [op({"name": "X"})]}                                                         # no n_qubits
    elif k == 8:
        d = {"n_qubits": rng.choice([-1, -3]), "operations": [op({"name": "X"})]}
    elif k == 9:
        d = {"n_qubits": 0, "operations": [op({"name": "X"}, (rng.choice([0, 2, 5]),))]}
    elif k == 10:
        d["operations"] = [op({"name": "U", "params": ["0.5"]})]                                        # definition missing
    elif k == 11:
        d["operations"] = [op({"name": "U", "params": ["0.5"]}), op({"name": "U_Dagger", "wrapped_gate": {"name": "U", "params": ["t"]}})]
        d["custom_gate_definitions"] = [udef]
    elif k == 12:
        d["operations"] = [op({"name": "W", "params": []})]
        d["custom_gate_definitions"] = [{"gate_name": "W", "matrix": rng.choice([[["1", "0", "0"], ["0", "1", "0"], ["0", "0", "1"]],
                                                                                 [["1", "0"]], []]), "params_ordering": []}]
    elif k == 13:
        d["operations"] = [op({"name": rng.choice(["Union", "Callable", "GateRef", "_gates"])})]        # module globals that are no gates
    elif k == 14:
        d["operations"] = [op({"name": rng.choice(["RX", "U3", "Delay"])})]                             # factory without parameters
    elif k == 15:
        d["operations"] = [op({"name": rng.choice(["X", "CNOT", "T"]), "params": ["0.5"]}, (0, 1))]      # gate object with parameters
    elif k == 16:
        d["operations"] = [op({"name": "RX", "params": ["v[2]"], "free_symbols": ["v[1]"]})]            # index not in the table
    elif k == 17:
        d["operations"] = [op({"name": "RX", "params": ["q[2]"]})]                                      # indexed name, no table
    elif k == 18:
        d["operations"] = [op({"name": "RX", "params": ["2*x"], "free_symbols": ["x", "x[3]"]})]        # F13 table
    elif k == 19:
        d["operations"] = [op({"name": "MyDagger", "params": ["0.5"]}), op({"name": "a^b"}), op({"name": "Control", "params": ["1"]})]
        d["custom_gate_definitions"] = [
            {"gate_name": "MyDagger", "matrix": [["1", "0"], ["0", "exp(I*t)"]], "params_ordering": ["t"]},
            {"gate_name": "a^b", "matrix": [["0", "1"], ["1", "0"]], "params_ordering": []},
            {"gate_name": "Control", "matrix": [["1", "0"], ["0", "exp(I*t)"]], "params_ordering": ["t"]}]
    elif k == 20:
        d["operations"] = [op({"name": "RX", "params": ["0.5"], "wrapped_gate": {"name": "Nope"}, "num_control_qubits": 1})]
    else:
        d["operations"] = [op({"name": "weird_Dagger", "wrapped_gate": {"name": "H^3.0_Dagger", "wrapped_gate": {
            "name": "H^3.0", "wrapped_gate": {"name": "H"}, "exponent": 3.0}}})]
    return {"kind": "dict", "dict": d}


def generate(rng, tier):
    big = tier == "thorough"
    cases = []
    bt = sorted(builtin_table())
    # every built-in gate once bare and once under a wrapper pair, numeric parameters
    for i, name in enumerate(bt):
        nq, npar = builtin_table()[name]
        leaf = {"t": "b", "name": name, "params": [gen_numeric(rng) for _ in range(npar)]}
        sym = {"t": "b", "name": name, "params": [gen_symbolic(rng, sym_pool(rng)) for _ in range(npar)]}
        w = {"t": rng.choice(["dag", "exp"]), "g": {"t": "pow", "g": leaf, "e": rng.choice([2, 0.5])}}
        cases.append({"kind": "circuit", "via": "json" if i % 2 else "file", "circ": {"n": nq + 2, "ops": [
            {"g": leaf, "q": list(range(nq))}, {"g": w, "q": list(range(nq))[::-1]},
            {"g": {"t": "ctrl", "g": {"t": "dag", "g": sym}, "k": 1}, "q": [nq] + list(range(nq))}]}})
    for _ in range(700 if big else 110):
        cases.append({"kind": "circuit", "via": rng.choice(["json", "json", "file", "stream"]),
                      "circ": gen_circuit(rng, tier, "safe")})
    for _ in range(160 if big else 30):           # custom gates with arbitrary symbolic arguments (repaired finding's class)
        cases.append({"kind": "circuit", "via": "json", "circ": gen_circuit(rng, tier, "any", max_depth=2)})
    for _ in range(80 if big else 12):
        cases.append({"kind": "circuitset", "via": rng.choice(["json", "file"]),
                      "circs": [gen_circuit(rng, tier, "safe", max_depth=2) for _ in range(rng.randrange(0, 4))]})
    for _ in range(200 if big else 40):
        names = rng.sample(PLAIN + SHADOW, rng.randrange(0, 5)) + rng.sample(INDEXED, rng.randrange(0, 5))
        rng.shuffle(names)
        cases.append({"kind": "symtab", "names": names})
    for _ in range(300 if big else 60):
        cases.append(gen_malformed(rng))
    return cases


# ---------------------------------------------------------------- predicates on specs
def _walk_gate(gs):
    yield gs
    if "g" in gs:
        yield from _walk_gate(gs["g"])


def _pspec_symbolic(p):
    (k, v), = p.items()
    return k in ("sym", "lin", "prod", "fn")


def _circ_specs(c):
    return [c["circ"]] if c["kind"] == "circuit" else c.get("circs", [])


def nontrivial(c):
    if c["kind"] == "symtab":
        return any(parse_indexed(n) for n in c["names"])
    if c["kind"] == "dict":
        return True
    for cs in _circ_specs(c):
        for o in cs["ops"]:
            for gs in _walk_gate(o["g"]):
                if gs["t"] != "b" or any(_pspec_symbolic(p) for p in gs["params"]):
                    return True
    return False


def _needs_table(gs, defs):
    """custom gate instance with a symbolic argument the deserialiser cannot resolve (the finding's class):
    the first argument is read against the definition's formal names, the others against no table at all, so a
    symbol that is indexed, or that sympy's namespace defines, or that hits an index dictionary, is lost"""
    ns = _sympy_ns()[0] | _sympy_ns()[1]
    for g in _walk_gate(gs):
        if g["t"] != "c":
            continue
        ordering = defs[g["def"]]["ordering"]
        bases = {parse_indexed(n)[0] for n in ordering if parse_indexed(n)}
        for i, p in enumerate(g["params"]):
            if not _pspec_symbolic(p):
                continue
            for s in build_param(p).free_symbols:
                s = str(s)
                if i == 0 and s in ordering:
                    continue
                if parse_indexed(s) or s in ns or (i == 0 and s in bases):
                    return True
    return False


def _text_collision(p):
    """the printed expression uses, besides the symbols, an identifier equal to one of its symbol names (the
    constant pi next to a symbol called pi, sin(...) of a symbol called sin), or number literals next to a
    symbol called Integer / Float (the names sympify's own number wrapping calls): the text is ambiguous"""
    sympy = _m()[0]
    if not isinstance(p, sympy.Expr) or not p.free_symbols:
        return False
    names = {str(x) for x in p.free_symbols}
    stripped = str(p.xreplace({x: sympy.Symbol(f"__{i}__") for i, x in enumerate(sorted(p.free_symbols, key=str))}))
    stripped = re.sub(r"__\d+__", " ", stripped)
    others = set(re.findall(r"[A-Za-z_][A-Za-z_0-9]*", stripped))
    if names & others:
        return True
    return bool(names & {"Integer", "Float"}) and bool(re.search(r"\d", stripped))


def in_text_collision_class(cs):
    for o in cs["ops"]:
        for gs in _walk_gate(o["g"]):
            if gs["t"] in ("b", "c") and any(_pspec_symbolic(p) and _text_collision(build_param(p)) for p in gs["params"]):
                return True
    return False


def in_finding_class(cs):
    return any(_needs_table(o["g"], cs.get("defs") or {}) for o in cs["ops"])


# ---------------------------------------------------------------- implementation side
def _roundtrip(obj, via, is_set):
    """serialise -> real JSON text / file / stream -> deserialise; returns (dict, deserialised object)"""
    _, _, _, _, _, sd = _m()
    d = sd.to_dict(obj)
    if via == "json":
        d2 = json.loads(json.dumps(d))
        back = sd.circuitset_from_dict(d2) if is_set else sd.circuit_from_dict(d2)
    elif via == "stream":
        buf = io.StringIO()
        (sd.save_circuitset if is_set else sd.save_circuit)(obj, buf)
        buf.seek(0)
        back = (sd.load_circuitset if is_set else sd.load_circuit)(buf)
    else:
        fd, path = tempfile.mkstemp(suffix=".json", prefix="c05_")
        os.close(fd)
        try:
            (sd.save_circuitset if is_set else sd.save_circuit)(obj, path)
            back = (sd.load_circuitset if is_set else sd.load_circuit)(path)
        finally:
            os.unlink(path)
    return d, back


def _exc_name(e):
    if isinstance(e, KeyError):
        return "err:key"
    if isinstance(e, ValueError):
        return "err:value"
    if isinstance(e, TypeError):
        return "err:type"
    if isinstance(e, NotImplementedError):
        return "err:notimpl"
    return "err:other:" + type(e).__name__


_LIVE = {}


def run_impl(c):
    """JSON-able summary; the live objects are kept aside for the oracle (same process, same case)"""
    sympy, np, cq, bg, g, sd = _m()
    key = common.canon(c)
    _LIVE.clear()
    k = c["kind"]
    if k == "symtab":
        names = c["names"]
        try:
            m = sd._make_symbols_map(names)
        except TypeError:
            return {"map": "err:type"}
        out = {"map": [[kk, ({"sym": str(v)} if not isinstance(v, dict) else {"dict": [[i, str(s)] for i, s in v.items()]})]
                       for kk, v in m.items()], "resolve": []}
        for n in names:
            try:
                r = sd.deserialize_expr(n, names)
                out["resolve"].append(str(r) if isinstance(r, sympy.Symbol) else None)
            except Exception as e:
                out["resolve"].append(_exc_name(e))
        return out
    if k == "dict":
        try:
            back = sd.circuit_from_dict(json.loads(json.dumps(c["dict"])))
        except (KeyError, ValueError, TypeError) as e:
            return {"err2": _exc_name(e), "msg": str(e)[:120]}
        try:
            return {"ast2": [circuit_ast(back)]}
        except Junk as e:
            return {"err2": "err:junk", "msg": str(e)}
    specs = _circ_specs(c)
    is_set = k == "circuitset"
    objs = [build_circuit(cs) for cs in specs]
    obj = objs if is_set else objs[0]
    out = {"ast": [circuit_ast(o) for o in objs]}
    try:
        d, back = _roundtrip(obj, c["via"], is_set)
    except (KeyError, ValueError, TypeError, AttributeError) as e:
        sd_d = None
        try:
            sd_d = sd.to_dict(obj)
        except Exception:
            pass
        out["dict"] = sd_d
        out["err2"] = _exc_name(e)
        out["msg"] = f"{type(e).__name__}: {e}"[:160]
        return out
    out["dict"] = d
    backs = back if is_set else [back]
    try:
        out["ast2"] = [circuit_ast(b) for b in backs]
    except (Junk, AttributeError, TypeError) as e:
        out["err2"] = "err:junk"
        out["msg"] = str(e)[:120]
    _LIVE[key] = (objs, backs)
    return out


# ---------------------------------------------------------------- model side
def requests(c, out):
    k = c["kind"]
    if k == "symtab":
        return [("symtab", {"names": c["names"], "queries": c["names"]})]
    if k == "dict":
        return [("from_dict", {"dict": tag_dict(c["dict"]), **sympy_globals(dict_texts(c["dict"]))})]
    if c.get("oracle_only"):
        return []
    reqs = []
    d = out.get("dict")
    texts = dict_texts(d) if d is not None else []
    gl = sympy_globals(texts)
    if k == "circuit":
        reqs.append(("to_dict", {"circuit": out["ast"][0], **gl}))
        if d is not None:
            reqs.append(("from_dict", {"dict": tag_dict(d), **gl}))
    else:
        reqs.append(("to_dict_set", {"circuits": out["ast"], **gl}))
        if d is not None:
            reqs.append(("from_dict_set", {"dict": tag_dict(d), **gl}))
    return reqs


_NUM = re.compile(r"(?<![A-Za-z_\]\d.])(\d+\.?\d*(?:[eE][+-]?\d+)?|\.\d+(?:[eE][+-]?\d+)?)")


def norm_text(t):
    nums = [Fraction(x) for x in _NUM.findall(t)]
    return _NUM.sub("#", t), nums


def text_close(a, b):
    try:                                   # both are plain numbers ("-0.0" comes back as "0")
        return Fraction(a) == Fraction(b) or abs(Fraction(a) - Fraction(b)) <= Fraction(1, 10 ** 12) * abs(Fraction(a))
    except (ValueError, ZeroDivisionError):
        pass
    sa, na = norm_text(a)
    sb, nb = norm_text(b)
    if sa != sb or len(na) != len(nb):
        return False
    return all(x == y or abs(x - y) <= Fraction(1, 10 ** 12) * max(abs(x), abs(y)) for x, y in zip(na, nb))


def _texts_same_value(a, b, syms):
    """fallback of the glue when sympy printed the terms of the re-parsed expression in another order: both texts,
    with the symbol names replaced by placeholders, are evaluated at two points and compared to 1e-12"""
    sympy = _m()[0]
    loc = {}
    for i, name in enumerate(sorted(syms, key=len, reverse=True)):
        ph = f"zzq{i}zz"
        pat = re.escape(name) if parse_indexed(name) else r"(?<![A-Za-z0-9_])" + re.escape(name) + r"(?![A-Za-z0-9_\[])"
        a, b = re.sub(pat, ph, a), re.sub(pat, ph, b)
        loc[ph] = sympy.Symbol(ph)
    try:
        ea, eb = sympy.sympify(a, locals=dict(loc)), sympy.sympify(b, locals=dict(loc))
        for trial in range(2):
            pt = {v: sympy.Rational(5 + 3 * i + trial, 11 + i) for i, v in enumerate(loc.values())}
            x, y = complex(sympy.N(ea.subs(pt), 30)), complex(sympy.N(eb.subs(pt), 30))
            if abs(x - y) > 1e-12 * max(abs(x), abs(y), 1e-300):
                return False
        return True
    except Exception:
        return False


def _same_global(a, b):
    """two names sympy's namespace binds to one object (`O` is the class `Order`)"""
    if not _FULL_NS:
        exec("from sympy import *", _FULL_NS)
    return a in _FULL_NS and b in _FULL_NS and _FULL_NS[a] is _FULL_NS[b]


def ast_close(a, b, path="$"):
    """model AST vs implementation AST: identical except that number literals inside texts are compared by value"""
    if isinstance(a, dict) and isinstance(b, dict):
        if set(a) != set(b):
            return f"{path}: keys {sorted(a)} vs {sorted(b)}"
        if set(a) == {"text", "syms"}:
            if a["syms"] != b["syms"]:
                return f"{path}: free symbols {a['syms']} vs {b['syms']} (texts {a['text']!r} / {b['text']!r})"
            if _LENIENT[0] or text_close(a["text"], b["text"]) or _same_global(a["text"], b["text"]) \
                    or _texts_same_value(a["text"], b["text"], a["syms"]):
                return None
            return f"{path}: text {a['text']!r} vs {b['text']!r}"
        if set(a) == {"int", "val", "text"}:
            return None if (a["int"], Fraction(a["val"])) == (b["int"], Fraction(b["val"])) else f"{path}: exponent {a} vs {b}"
        for k in a:
            r = ast_close(a[k], b[k], f"{path}.{k}")
            if r:
                return r
        return None
    if isinstance(a, list) and isinstance(b, list):
        if len(a) != len(b):
            return f"{path}: length {len(a)} vs {len(b)}"
        for i, (x, y) in enumerate(zip(a, b)):
            r = ast_close(x, y, f"{path}[{i}]")
            if r:
                return r
        return None
    return None if a == b and type(a) == type(b) else f"{path}: {a!r} vs {b!r}"


def _cmp_back(model, out, multi):
    """model's from_dict answer vs the implementation's deserialised object(s)"""
    if isinstance(model, dict) and "driver_error" in model:
        return "driver error: " + model["driver_error"]
    if isinstance(model, str):                      # modelled exception
        got = out.get("err2")
        if got == model or (model == "err:junk" and got in ("err:type", "err:junk")):
            return None
        return f"deserialiser: model {model}, implementation {got or 'returned a circuit'} ({out.get('msg', '')})"
    if "err2" in out:
        return f"deserialiser: model returned a circuit, implementation {out['err2']} ({out.get('msg', '')})"
    want = model["ok"] if multi else [model["ok"]]
    r = ast_close(want, out["ast2"])
    return ("deserialised circuit differs, model vs implementation: " + r) if r else None


def compare(c, out, resp):
    k = c["kind"]
    if any(isinstance(r, dict) and "driver_error" in r for r in resp):
        return "driver error: " + str([r for r in resp if isinstance(r, dict) and "driver_error" in r][0])
    if k == "symtab":
        r = resp[0]
        if isinstance(r, str) or isinstance(out["map"], str):
            return None if r == out["map"] else f"_make_symbols_map: model {r} implementation {out['map']}"
        if r["map"] != out["map"]:
            return f"_make_symbols_map: model {r['map']} implementation {out['map']}"
        if r["resolve"] != out["resolve"]:
            return f"symbol lookup: model {r['resolve']} implementation {out['resolve']}"
        return None
    _LENIENT[0] = False
    if k == "dict":
        return _cmp_back(resp[0], out, False)
    multi = k == "circuitset"
    r0 = resp[0]
    d = out.get("dict")
    if isinstance(r0, str):
        if d is not None:
            return f"to_dict: model {r0}, implementation produced a dictionary"
    else:
        if d is None:
            return f"to_dict: implementation raised ({out.get('msg')}), model produced a dictionary"
        if typed(untag_dict(r0["ok"])) != typed(d):
            return f"to_dict differs: model {common.canon(untag_dict(r0['ok']))[:400]} implementation {common.canon(d)[:400]}"
    if len(resp) > 1:
        return _cmp_back(resp[1], out, multi)
    return None


# ---------------------------------------------------------------- oracle (the property's own sentences)
def _is_number(p):
    """a Python (or numpy) number, not a sympy one (sympy registers its numbers with the numbers ABCs)"""
    import numbers
    sympy = _m()[0]
    return isinstance(p, numbers.Number) and not isinstance(p, sympy.Basic)


def _expr_close(p, q):
    """equal as numbers or expressions: exactly, or to 1e-12 relative on floating-point coefficients"""
    sympy = _m()[0]
    if _is_number(p):
        if isinstance(p, int):
            return bool(q == p)                       # Python numbers: exactly
        # a Python float comes back as sympy.Float(repr(p)); with 16-17 significant digits sympy keeps 57-60 bits
        # of the *decimal* text, which is a different real number than the double (finding SIG_FLOAT, reported
        # softly: the walk goes on, so it never masks another failure)
        try:
            if bool(q == p):
                return True
            qc = complex(sympy.N(q, 40))
        except (TypeError, ValueError):
            return False
        if abs(qc - complex(p)) <= 4e-16 * abs(complex(p)):
            _SOFT.append(f"Python float {p!r} came back as {sympy.srepr(q)[:60]}, which is != {p!r}")
            return True
        return False
    if isinstance(p, sympy.Symbol):
        return isinstance(q, sympy.Symbol) and q == p and q.name == p.name
    if not isinstance(q, sympy.Expr):
        return False
    if q == p:
        return True
    if not p.atoms(sympy.Float):
        return False                                  # no floating-point coefficient: must be exact
    if p.free_symbols != q.free_symbols:
        return False
    syms = sorted(p.free_symbols, key=str)
    for trial in range(3):
        pt = {s: sympy.Rational(3 + 2 * i + trial, 7 + i) for i, s in enumerate(syms)}
        a, b = complex(sympy.N(p.subs(pt), 30)), complex(sympy.N(q.subs(pt), 30))
        if abs(a - b) > 1e-12 * max(abs(a), abs(b), 1e-300):
            return False
    return True


def _exact(p):
    """parameter survives printing exactly (then `==` must hold)"""
    sympy = _m()[0]
    if _is_number(p) or not isinstance(p, sympy.Expr):
        return True
    return all(sympy.sympify(str(f)) == f for f in p.atoms(sympy.Float))


def _gate_walk(a, b, path):
    """same kind and nesting, same definitions, same parameters; returns message or None"""
    _, _, _, bg, g, _ = _m()
    if type(a) is not type(b):
        return f"{path}: gate kind {type(a).__name__} became {type(b).__name__}"
    if isinstance(a, g.MatrixFactoryGate):
        if (a.name, a.num_qubits, a.is_hermitian) != (b.name, b.num_qubits, b.is_hermitian):
            return f"{path}: gate {a.name}/{a.num_qubits}q/herm={a.is_hermitian} became {b.name}/{b.num_qubits}q/herm={b.is_hermitian}"
        ca, cb = isinstance(a.matrix_factory, g.CustomGateMatrixFactory), isinstance(b.matrix_factory, g.CustomGateMatrixFactory)
        if ca != cb:
            return f"{path}: custom/built-in nature of {a.name} changed"
        if ca:
            da, db = a.matrix_factory.gate_definition, b.matrix_factory.gate_definition
            if da.gate_name != db.gate_name or tuple(da.params_ordering) != tuple(db.params_ordering):
                return f"{path}: definition header {da.gate_name}{da.params_ordering} became {db.gate_name}{db.params_ordering}"
            if da.matrix.shape != db.matrix.shape:
                return f"{path}: definition matrix shape changed"
            for x, y in zip(da.matrix, db.matrix):
                if not _expr_close(x, y):
                    return f"{path}: definition matrix entry {x} became {y}"
        elif a.matrix_factory is not b.matrix_factory:
            return f"{path}: built-in {a.name} lost its matrix factory"
        if len(a.params) != len(b.params):
            return f"{path}: {len(a.params)} parameters became {len(b.params)}"
        for i, (p, q) in enumerate(zip(a.params, b.params)):
            if not _expr_close(p, q):
                return f"{path}: parameter {i} of {a.name}: {p!r} became {q!r}"
        return None
    if isinstance(a, g.ControlledGate) and a.num_control_qubits != b.num_control_qubits:
        return f"{path}: {a.num_control_qubits} controls became {b.num_control_qubits}"
    if isinstance(a, g.Power) and not (a.exponent == b.exponent):
        return f"{path}: exponent {a.exponent!r} became {b.exponent!r}"
    return _gate_walk(a.wrapped_gate, b.wrapped_gate, path + "." + type(a).__name__)


def _cost(gt):
    """sympy's Matrix.exp() and Matrix ** non-integer can take minutes or exhaust memory on float matrices
    (exp(exp(RX(0.3))) does); the matrix clause is therefore evaluated only through wrappers sympy computes
    cheaply: controlled, dagger and small integer powers"""
    g = _m()[4]
    heavy = 0
    while hasattr(gt, "wrapped_gate"):
        if isinstance(gt, g.Exponential):
            heavy += 1
        if isinstance(gt, g.Power) and not (isinstance(gt.exponent, int) and -3 <= gt.exponent <= 3):
            heavy += 1
        gt = gt.wrapped_gate
    return heavy


def _moderate(params, point):
    """angles of modest size only: a relative error of 1e-16 in an angle of 1e16 moves the matrix by O(1)"""
    sympy = _m()[0]
    for p in params:
        v = complex(sympy.N(sympy.sympify(p).subs(point), 20)) if not _is_number(p) else complex(p)
        if abs(v) > 1e4:
            return False
    return True


def _matrix_at(gt, point):
    sympy, np = _m()[0], _m()[1]
    if gt.free_symbols:
        gt = gt.bind(point)
    return np.array(sympy.matrix2numpy(sympy.Matrix(gt.matrix).evalf(30), dtype=complex))


def oracle(c, out):
    sympy, np, cq, bg, g, sd = _m()
    k = c["kind"]
    if k == "dict":
        return None                                   # no serialiser produced it: outside the property
    if k == "symtab":
        names = c["names"]
        plain = {n for n in names if not parse_indexed(n)}
        if any(parse_indexed(n)[0] in plain for n in names if parse_indexed(n)):
            return None                               # F13, outside the domain
        if any(keyword.iskeyword(n) for n in plain):
            return None
        if out.get("map") == "err:type":
            return ("symbol-table-raises", f"_make_symbols_map({names}) raised TypeError")
        bad = [n for n, r in zip(names, out["resolve"]) if r != n]
        if bad:
            return ("symbol-table-lookup", f"names {bad} of {names} do not deserialise to their own symbol: {out['resolve']}")
        return None
    specs = _circ_specs(c)
    if c.get("conflict"):
        return None if out.get("dict") is None else ("conflicting-definitions-accepted", "two different definitions with one name were serialised")
    sig = (SIG_CUSTOM_SYM if any(in_finding_class(cs) for cs in specs)
           else SIG_NAME_TEXT if any(in_text_collision_class(cs) for cs in specs) else None)
    if "dict" in out and out["dict"] is None:
        return (sig or "serialise-raises", f"to_dict raised: {out.get('msg')}")
    if "err2" in out:
        return (sig or "deserialise-raises", f"the round trip raised / returned a non-gate: {out.get('msg')} [{out['err2']}]")
    live = _LIVE.get(common.canon(c))
    if live is None:
        return ("oracle-no-objects", "live objects missing")
    objs, backs = live
    del _SOFT[:]
    if len(objs) != len(backs):
        return ("circuitset-length", f"{len(objs)} circuits became {len(backs)}")
    for ci, (a, b) in enumerate(zip(objs, backs)):
        here = f"circuit[{ci}]"
        if not isinstance(b, cq.Circuit):
            return ("not-a-circuit", f"{here}: deserialised to {type(b).__name__}")
        if a.n_qubits != b.n_qubits:
            return ("register-width", f"{here}: n_qubits {a.n_qubits} became {b.n_qubits}")
        if len(a.operations) != len(b.operations):
            return ("operation-count", f"{here}: {len(a.operations)} operations became {len(b.operations)}")
        exact = True
        for oi, (x, y) in enumerate(zip(a.operations, b.operations)):
            if tuple(x.qubit_indices) != tuple(y.qubit_indices):
                return ("qubit-indices", f"{here}.op[{oi}]: qubits {x.qubit_indices} became {y.qubit_indices}")
            msg = _gate_walk(x.gate, y.gate, f"{here}.op[{oi}]")
            if msg:
                return (sig or "structure-or-parameter", msg)
            exact = exact and all(_exact(p) for p in x.gate.params)
            inner = x.gate
            while hasattr(inner, "wrapped_gate"):
                inner = inner.wrapped_gate
            if isinstance(inner.matrix_factory, g.CustomGateMatrixFactory):
                exact = exact and all(_exact(e) for e in inner.matrix_factory.gate_definition.matrix)
        if exact and not (a == b):
            return (sig or "not-equal", f"{here}: parameters are exactly representable but the deserialised circuit != original")
        if [str(s) for s in a.free_symbols] != [str(s) for s in b.free_symbols] or list(a.free_symbols) != list(b.free_symbols):
            return (sig or "free-symbols", f"{here}: free symbols {a.free_symbols} became {b.free_symbols}")
        # same matrix at an assignment of the symbols (per gate; bounded cost)
        syms = list(a.free_symbols)
        point = {s: sympy.Float(0.37 + 0.211 * i) for i, s in enumerate(syms)}
        done = 0
        for oi, (x, y) in enumerate(zip(a.operations, b.operations)):
            if done >= 3 or x.gate.num_qubits > 3 or _cost(x.gate) > 0 or not _moderate(x.gate.params, point):
                continue
            done += 1
            ma, mb = _matrix_at(x.gate, point), _matrix_at(y.gate, point)
            if ma.shape != mb.shape or not np.allclose(ma, mb, atol=1e-9, rtol=0):
                return (sig or "matrix", f"{here}.op[{oi}]: matrix changed at {point}: max diff {abs(ma - mb).max() if ma.shape == mb.shape else 'shape'}")
    if _SOFT:
        return (SIG_FLOAT, _SOFT[0])
    return None


def distribution(cases, outs):
    gates, wraps, vias, pk, depth = {}, {}, {}, {}, {}
    for c in cases:
        vias[c.get("via", c["kind"])] = vias.get(c.get("via", c["kind"]), 0) + 1
        for cs in _circ_specs(c):
            for o in cs["ops"]:
                dd = 0
                for gs in _walk_gate(o["g"]):
                    if gs["t"] in ("b", "c"):
                        nm = gs.get("name") or ("custom:" + gs["def"])
                        gates[nm] = gates.get(nm, 0) + 1
                        for p in gs["params"]:
                            kk = next(iter(p))
                            pk[kk] = pk.get(kk, 0) + 1
                    else:
                        wraps[gs["t"]] = wraps.get(gs["t"], 0) + 1
                        dd += 1
                depth[dd] = depth.get(dd, 0) + 1
    errs = {}
    for o in outs:
        if isinstance(o, dict) and o.get("err2"):
            errs[o["err2"]] = errs.get(o["err2"], 0) + 1
    return {"gate_kinds": gates, "wrappers": wraps, "wrapper_depth": {str(k): v for k, v in sorted(depth.items())},
            "via": vias, "param_kinds": pk, "deserialiser_errors": errs,
            "builtin_gates_covered": sum(1 for k in gates if not k.startswith("custom:")),
            "finding_class_cases": sum(1 for c in cases for cs in _circ_specs(c) if in_finding_class(cs))}
