"""C06 — binding parameters commutes with evaluating the circuit."""
import cmath
import math
import re
from fractions import Fraction

from .. import common

PROP = "C06"
RULE = ("seeded random circuits (built-in / custom factory gates under controlled/dagger chains built through the API "
        "or by direct construction, MultiPhaseOperation, a few ResetOperations) and single gates (incl. power/exponential "
        "chains, replace_params) with sympy-expression parameters, bound with partial / total / superfluous / empty maps "
        "with numeric and symbolic values, plus a second map for step-wise binding; non-trivial: some expression parameter "
        "mentions >= 2 symbols and the map binds at least one but not all of them; distinct = distinct canonical JSON")
TRUSTED = [
    "sympy: Expr.subs(dict) on a map whose values do not mention its keys is simultaneous substitution; "
    "Matrix.subs(simultaneous=True) is simultaneous substitution entry by entry; automatic canonicalisation "
    "(Add/Mul/Pow flattening, numeric folding, cancellation) preserves the value of an expression",
    "sympy: Expr.free_symbols is the set of Symbol atoms of the (canonical) expression tree",
    "built-in matrix factories are arithmetic in their arguments, so factory(*params) evaluated at an assignment equals "
    "factory(*evaluated params) (model: Sem.builtin is a function of the evaluated parameters; exercised by the oracle)",
    "wrapper laws assumed in gateMatrix_bind (Laws): diag(eye, diag(eye, M)) = diag(eye', M); adjoint is an involution; "
    "adjoint of diag(eye, M) is diag(eye, adjoint M) (sympy Matrix.diag / adjoint; exercised by the oracle on every "
    "re-associated chain)",
    "functools.singledispatch picks the Symbol overload for symbols, the Expr overload for other sympy expressions "
    "(including sympy numbers) and the Number overload for Python numbers",
    "float arithmetic: comparisons that involve Python floats or transcendental functions use tolerance 1e-9; "
    "rational-only cases are compared exactly",
]
ASSUMPTIONS = [
    "symbol maps whose values do not mention the map's own keys (chained maps make sequential subs order dependent)",
    "a symbol is identified by its name (no two distinct symbols with the same name but different assumptions)",
    "is_hermitian flags of factory gates are truthful (HermOK); custom definitions mention only ordered symbols and are "
    "called with at least as many params as they order (CustomOK)",
    "numeric values are real rationals / floats (MultiPhaseOperation rejects non-real complex numbers: not modelled)",
]

TOL = 1e-9
SYMS = ["x", "y", "z", "t", "u", "w", "theta", "gamma", "phi", "a0", "a1", "B", "Z0", "x_1"]
FUNCS = {"sin", "cos", "exp", "sqrt"}
NONPARAM = ["X", "Y", "Z", "H", "I", "S", "SX", "T", "CNOT", "CZ", "SWAP", "ISWAP"]
PARAM1 = ["RX", "RY", "RZ", "RH", "PHASE", "GPi", "GPi2", "CPHASE", "XX", "YY", "ZZ", "XY", "Delay"]
NQ = {"CNOT": 2, "CZ": 2, "SWAP": 2, "ISWAP": 2, "CPHASE": 2, "XX": 2, "YY": 2, "ZZ": 2, "XY": 2, "MS": 2}
CUSTOM = {
    "U1": {"ord": ["theta"], "matrix": [["cos(theta)", "-sin(theta)"], ["sin(theta)", "cos(theta)"]]},
    # F15 regression: ordering (gamma, theta) and actual params that mention the formal names
    "U2": {"ord": ["gamma", "theta"], "matrix": [["theta", "gamma"], ["gamma*theta", "1"]]},
    "U3c": {"ord": ["a0", "a1"], "matrix": [["cos(a0)", "0", "0", "-sin(a1)"], ["0", "1", "0", "0"],
                                           ["0", "0", "a0*a1 + 1", "0"], ["sin(a1)", "0", "0", "cos(a0)"]]},
    "U4": {"ord": ["x", "y", "z"], "matrix": [["x + y", "y*z"], ["z**2", "x - 1/2"]]},
}


class Unsupported(Exception):
    pass


# ---------------------------------------------------------------- building the real objects from a case
def _lib():
    common.use_repo()
    import sympy
    from orquestra.quantum import circuits as C
    from orquestra.quantum.circuits import _gates
    return sympy, C, _gates


def _locals(sympy):
    return {n: sympy.Symbol(n) for n in SYMS}


def _expr(s):
    sympy, _, _ = _lib()
    return sympy.sympify(s, locals=_locals(sympy))


def _param(ps):
    if "py" in ps:
        f = Fraction(ps["py"])
        return int(f) if f.denominator == 1 else float(f)
    return _expr(ps["e"])


def _gate(gs):
    sympy, C, G = _lib()
    k = gs["k"]
    if k == "mf":
        ref = C.builtin_gate_by_name(gs["name"])
        ps = [_param(p) for p in gs["params"]]
        return ref(*ps) if callable(ref) and not isinstance(ref, G.MatrixFactoryGate) else ref
    if k == "custom":
        d = CUSTOM[gs["name"]] if "matrix" not in gs else gs
        mat = sympy.Matrix([[_expr(e) for e in row] for row in d["matrix"]])
        definition = C.CustomGateDefinition(gs["name"], mat, tuple(sympy.Symbol(n) for n in d["ord"]))
        return definition(*[_param(p) for p in gs["params"]])
    inner = _gate(gs["g"])
    if k == "ctrl":
        return G.ControlledGate(inner, gs["n"]) if gs.get("raw") else inner.controlled(gs["n"])
    if k == "dag":
        return G.Dagger(inner) if gs.get("raw") else inner.dagger
    if k == "exp":
        return inner.exp
    if k == "pow":
        return inner.power(float(Fraction(gs["e"])))
    raise AssertionError(k)


def _op(os_):
    _, C, _ = _lib()
    if os_["op"] == "gate":
        return _gate(os_["g"])(*os_["q"])
    if os_["op"] == "mp":
        return C.MultiPhaseOperation(tuple(_param(p) for p in os_["params"]))
    if os_["op"] == "reset":
        return C.ResetOperation(os_["q"])
    raise AssertionError(os_)


def _map(ms):
    sympy, _, _ = _lib()
    return {sympy.Symbol(k): _param(v) for k, v in ms}


def _circuit(c):
    _, C, _ = _lib()
    return C.Circuit([_op(o) for o in c["ops"]], n_qubits=c.get("n"))


# ---------------------------------------------------------------- real objects -> model JSON
def _fr(fr):
    return str(Fraction(fr))


def ast(e):
    """sympy expression (as canonicalised by sympy) -> model expression JSON"""
    sympy, _, _ = _lib()
    if isinstance(e, sympy.Symbol):
        return {"s": e.name}
    if isinstance(e, sympy.Rational):
        return {"n": _fr(Fraction(int(e.p), int(e.q)))}
    if isinstance(e, sympy.Float):
        f = float(e)
        if not math.isfinite(f):
            raise Unsupported(str(e))
        return {"n": _fr(Fraction(f))}
    if isinstance(e, (sympy.Add, sympy.Mul)):
        key = "add" if isinstance(e, sympy.Add) else "mul"
        args = [ast(a) for a in e.args]
        out = args[0]
        for a in args[1:]:
            out = {key: [out, a]}
        return out
    if isinstance(e, sympy.Pow):
        return {"pow": [ast(e.base), ast(e.exp)]}
    if isinstance(e, (sympy.sin, sympy.cos, sympy.exp)) and len(e.args) == 1:
        return {"fn": type(e).__name__, "a": ast(e.args[0])}
    raise Unsupported(sympy.srepr(e)[:80])


def param_json(p):
    sympy, _, _ = _lib()
    if isinstance(p, sympy.Expr):
        return ast(p)
    if isinstance(p, bool) or not isinstance(p, (int, float)):
        raise Unsupported(repr(p))
    return {"py": _fr(Fraction(p))}


def gate_json(g, tolerant=False):
    _, _, G = _lib()

    def pj(p):
        try:
            return param_json(p)
        except Unsupported:
            if not tolerant:
                raise
            sympy = _lib()[0]
            return {"unsupported": isinstance(p, sympy.Expr), "syms": _sym_names(p)}

    if isinstance(g, G.MatrixFactoryGate):
        custom = None
        if isinstance(g.matrix_factory, G.CustomGateMatrixFactory):
            d = g.matrix_factory.gate_definition
            custom = {"matrix": [[ast(d.matrix[i, j]) for j in range(d.matrix.shape[1])] for i in range(d.matrix.shape[0])],
                      "ord": [s.name for s in d.params_ordering]}
        return {"k": "mf", "name": g.name, "params": [pj(p) for p in g.params], "nq": g.num_qubits,
                "herm": bool(g.is_hermitian), "custom": custom}
    if isinstance(g, G.ControlledGate):
        return {"k": "ctrl", "g": gate_json(g.wrapped_gate, tolerant), "n": g.num_control_qubits}
    if isinstance(g, G.Dagger):
        return {"k": "dag", "g": gate_json(g.wrapped_gate, tolerant)}
    if isinstance(g, G.Exponential):
        return {"k": "exp", "g": gate_json(g.wrapped_gate, tolerant)}
    if isinstance(g, G.Power):
        return {"k": "pow", "g": gate_json(g.wrapped_gate, tolerant), "e": _fr(Fraction(g.exponent))}
    raise Unsupported(type(g).__name__)


def op_json(o, tolerant=False):
    _, C, G = _lib()
    if isinstance(o, G.GateOperation):
        return {"op": "gate", "g": gate_json(o.gate, tolerant), "q": [int(q) for q in o.qubit_indices]}
    if isinstance(o, C.MultiPhaseOperation):
        ps = []
        for p in o.params:
            try:
                ps.append(param_json(p))
            except Unsupported:
                if not tolerant:
                    raise
                ps.append({"unsupported": isinstance(p, _lib()[0].Expr), "syms": _sym_names(p)})
        return {"op": "mp", "params": ps}
    if isinstance(o, C.ResetOperation):
        return {"op": "reset", "q": int(o.qubit_indices[0])}
    raise Unsupported(type(o).__name__)


def map_json(m):
    return [[k.name, param_json(v)] for k, v in m.items()]


def strip(j, kinds=True):
    """gate / op JSON with every parameter replaced by its kind ('py' | 'expr'), or by '?' when kinds=False"""
    if isinstance(j, dict):
        if "params" in j:
            j = dict(j)
            j["params"] = [("py" if ("py" in p or p.get("unsupported") is False) else "expr") if kinds else "?"
                           for p in j["params"]]
        return {k: strip(v, kinds) for k, v in j.items()}
    if isinstance(j, list):
        return [strip(v, kinds) for v in j]
    return j


def params_of(j):
    """the parameter list of a gate / op JSON (innermost factory gate)"""
    while "params" not in j:
        if "g" not in j:
            return []
        j = j["g"]
    return j["params"]


# ---------------------------------------------------------------- numeric helpers
def close(a, b):
    if a is None or b is None:
        return a is None and b is None
    return abs(complex(a) - complex(b)) <= TOL * max(1.0, abs(complex(a)), abs(complex(b)))


def ev(j, env):
    """numeric value (50 digits, mpmath) of a model expression / param JSON at env (name -> Fraction); None if undefined"""
    import mpmath
    with mpmath.workdps(50):
        try:
            v = _ev(j, env, mpmath)
            if v is None:
                return None
            v = complex(v)
            return v if (math.isfinite(v.real) and math.isfinite(v.imag)) else None
        except (OverflowError, ZeroDivisionError, ValueError):
            return None


def _mp(fr, mpmath):
    fr = Fraction(fr)
    return mpmath.mpf(fr.numerator) / mpmath.mpf(fr.denominator)


def _ev(j, env, mpmath):
    if "py" in j:
        return _mp(j["py"], mpmath)
    if "n" in j:
        return _mp(j["n"], mpmath)
    if "s" in j:
        return _mp(env[j["s"]], mpmath)
    if "fn" in j:
        a = _ev(j["a"], env, mpmath)
        if a is None:
            return None
        return {"sin": mpmath.sin, "cos": mpmath.cos, "exp": mpmath.exp}[j["fn"]](a)
    for k in ("add", "mul", "pow"):
        if k in j:
            a, b = _ev(j[k][0], env, mpmath), _ev(j[k][1], env, mpmath)
            if a is None or b is None:
                return None
            if k == "add":
                return a + b
            if k == "mul":
                return a * b
            if a == 0 and mpmath.re(b) < 0:
                return None
            return mpmath.power(a, b)
    raise Unsupported(str(j)[:80])


def impl_value(p, pt):
    """(exact Fraction | None, numeric complex | None) of an implementation parameter at the point"""
    sympy, _, _ = _lib()
    if not isinstance(p, sympy.Expr):
        if isinstance(p, (int, float)) and not isinstance(p, bool):
            return (Fraction(p), complex(p))
        return (None, complex(p))
    r = p.subs(pt)
    if r.is_Rational:
        fr = Fraction(int(r.p), int(r.q))
        return (fr, complex(float(fr)))
    try:
        v = complex(r.evalf())
    except (TypeError, ValueError):
        return (None, None)
    if not (math.isfinite(v.real) and math.isfinite(v.imag)):
        return (None, None)
    return (None, v)


def _sym_names(p):
    """symbols occurring in a parameter, by an explicit walk over the expression tree"""
    sympy, _, _ = _lib()
    if not isinstance(p, sympy.Expr):
        return []
    out, todo = [], [p]
    while todo:
        e = todo.pop()
        if isinstance(e, sympy.Symbol):
            out.append(e.name)
        todo.extend(e.args)
    return sorted(set(out))


def _mat_num(M, pt):
    """numeric matrix (list of complex) of a sympy / numpy matrix at the point"""
    sympy, _, _ = _lib()
    if isinstance(M, sympy.MatrixBase):
        M = M.subs(pt)
        return [complex(M[i, j].evalf()) for i in range(M.shape[0]) for j in range(M.shape[1])]
    return [complex(v) for row in M.tolist() for v in row]


def _mdiff(A, B):
    """relative max-entry difference; None when either matrix is undefined at the point (1/0, …)"""
    if len(A) != len(B):
        return float("inf")
    if not all(math.isfinite(v.real) and math.isfinite(v.imag) for v in A + B):
        return None
    d = max((abs(a - b) for a, b in zip(A, B)), default=0.0)
    s = max([1.0] + [abs(a) for a in A])
    return d / s


def _has_powexp(g):
    _, _, G = _lib()
    while True:
        if isinstance(g, (G.Power, G.Exponential)):
            return True
        if not hasattr(g, "wrapped_gate"):
            return False
        g = g.wrapped_gate


def _custom_wellformed(g):
    """the innermost gate, if custom, gets >= len(ordering) params and its matrix mentions ordered symbols only"""
    _, _, G = _lib()
    while hasattr(g, "wrapped_gate"):
        g = g.wrapped_gate
    if isinstance(g, G.MatrixFactoryGate) and isinstance(g.matrix_factory, G.CustomGateMatrixFactory):
        d = g.matrix_factory.gate_definition
        return len(g.params) >= len(d.params_ordering) and d.matrix.free_symbols <= set(d.params_ordering)
    return True


def _err(e):
    if isinstance(e, NotImplementedError):
        return "err:notimpl"
    if isinstance(e, TypeError):
        return "err:type"
    if isinstance(e, ValueError):
        return "err:value"
    raise e


def _try(f):
    try:
        return f(), None
    except (NotImplementedError, TypeError, ValueError) as e:
        return None, _err(e)


# ---------------------------------------------------------------- observing the implementation
def _point(c):
    sympy = _lib()[0]
    return [{sympy.Symbol(k): sympy.Rational(Fraction(v).numerator, Fraction(v).denominator) for k, v in pt}
            for pt in c.get("pts", [])]


def _observe_ops(ops, pts, want_ast=True):
    """per-operation observables of a list of real operations"""
    out = {"free_ops": [[s.name for s in o.free_symbols] for o in ops],
           "occ_ops": [sorted({n for p in o.params for n in _sym_names(p)}) for o in ops],
           "py": [[not isinstance(p, _lib()[0].Expr) for p in o.params] for o in ops],
           "qubits": [[int(q) for q in o.qubit_indices] for o in ops],
           "strs": [[str(p) for p in o.params] for o in ops]}
    vals = []
    for pt in pts:
        row = []
        for o in ops:
            r = []
            for p in o.params:
                ex, num = impl_value(p, pt)
                r.append({"x": None if ex is None else _fr(ex), "v": None if num is None else [num.real, num.imag]})
            row.append(r)
        vals.append(row)
    out["vals"] = vals
    if want_ast:
        try:
            out["ops_json"] = [op_json(o, tolerant=True) for o in ops]
        except Unsupported as e:
            out["ops_json"] = None
            out["unsupported"] = str(e)
    return out


def _observe_circuit(c, pts):
    out = _observe_ops(list(c.operations), pts)
    out["free"] = [s.name for s in c.free_symbols]
    out["n"] = int(c.n_qubits)
    return out


def _subs_after(p, m):
    sympy = _lib()[0]
    return p.subs(m, simultaneous=True) if isinstance(p, sympy.Expr) else p


def run_impl(c):
    sympy, C, G = _lib()
    pts = _point(c)
    if c["kind"] == "gate":
        return _run_gate(c, pts)
    circ = _circuit(c)
    m = _map(c["map"])
    out = {"before": _observe_circuit(circ, pts)}
    ops = list(circ.operations)
    out["kinds"] = ["reset" if isinstance(o, C.ResetOperation) else "mp" if isinstance(o, C.MultiPhaseOperation)
                    else ("powexp" if _has_powexp(o.gate) else "gate") for o in ops]
    out["custom_ok"] = [(not isinstance(o, G.GateOperation)) or _custom_wellformed(o.gate) for o in ops]
    bound, err = _try(lambda: circ.bind(m))
    if err:
        out["bound"] = {"err": err}
    else:
        ob = _observe_circuit(bound, pts)
        bops = list(bound.operations)
        ob["same_type"] = [type(a) is type(b) for a, b in zip(ops, bops)] if len(ops) == len(bops) else None
        # S1: the same values substituted afterwards
        pt = pts[0] if pts else {}
        pd = []
        for o, b in zip(ops, bops):
            row = []
            for p, q in zip(o.params, b.params):
                a1, a2 = impl_value(_subs_after(p, m), pt)[1], impl_value(q, pt)[1]
                row.append(None if (a1 is None or a2 is None) else abs(a1 - a2) / max(1.0, abs(a1)))
            pd.append(row if len(o.params) == len(b.params) else "len")
        ob["param_diff"] = pd
        md = []
        for o, b, okc in zip(ops, bops, out["custom_ok"]):
            if isinstance(o, G.GateOperation) and okc and c.get("matrix", True):
                try:
                    A = _mat_num(o.gate.matrix.subs(m, simultaneous=True), pt)
                    B = _mat_num(b.gate.matrix, pt)
                    md.append(_mdiff(A, B))
                except (TypeError, ValueError):
                    md.append(None)  # undefined at the point (1/0 …)
            else:
                md.append(None)
        ob["matrix_diff"] = md
        if c.get("unitary") and all(k == "gate" for k in out["kinds"]) and ops and all(out["custom_ok"]):
            try:
                U = circ.to_unitary()
                Ua = U.subs(m, simultaneous=True) if isinstance(U, sympy.MatrixBase) else U
                ob["unitary_diff"] = _mdiff(_mat_num(Ua, pt), _mat_num(bound.to_unitary(), pt))
            except (TypeError, ValueError):
                ob["unitary_diff"] = None
        # S3: what must stay literally untouched
        keys = {k.name for k in m}
        unt = []
        for o, b in zip(ops, bops):
            for p, q in zip(o.params, b.params):
                if not isinstance(p, sympy.Expr) or not (set(_sym_names(p)) & keys):
                    unt.append(bool(type(p) is type(q) and p == q))
        ob["untouched_ok"] = unt
        out["bound"] = ob
        # S4: superfluous entries change nothing
        if c.get("extra"):
            m2 = dict(m)
            m2.update(_map(c["extra"]))
            b2, e2 = _try(lambda: circ.bind(m2))
            out["extra_same"] = (e2 is None and [[bool(type(p) is type(q) and p == q) for p, q in zip(o.params, b.params)]
                                                  for o, b in zip(b2.operations, bops)])
        # S2: step-wise = once
        if c.get("map2") is not None:
            mm2 = _map(c["map2"])
            st, e1 = _try(lambda: bound.bind(mm2))
            merged = dict(m)
            merged.update(mm2)
            on, e2 = _try(lambda: circ.bind(merged))
            out["step"] = {"err": e1} if e1 else _observe_circuit(st, pts)
            out["once"] = {"err": e2} if e2 else _observe_circuit(on, pts)
    return out


def _run_gate(c, pts):
    sympy, C, G = _lib()
    g, cerr = _try(lambda: _gate(c["g"]))
    if cerr:
        return {"construct": cerr}
    m = _map(c["map"])
    out = {"free": [s.name for s in g.free_symbols], "occ": sorted({n for p in g.params for n in _sym_names(p)}),
           "powexp": _has_powexp(g), "custom_ok": _custom_wellformed(g)}
    try:
        out["g_json"] = gate_json(g)
    except Unsupported as e:
        out["g_json"] = None
        out["unsupported"] = str(e)

    def obs(h, matrix_from=None):
        o = _observe_ops([h(*range(h.num_qubits))], pts, want_ast=False)
        r = {"free": o["free_ops"][0], "occ": o["occ_ops"][0], "py": o["py"][0], "vals": [v[0] for v in o["vals"]],
             "strs": o["strs"][0], "g_json": gate_json(h, tolerant=True)}
        inner = h
        while hasattr(inner, "wrapped_gate"):
            inner = inner.wrapped_gate
        if isinstance(inner, G.MatrixFactoryGate) and isinstance(inner.matrix_factory, G.CustomGateMatrixFactory):
            M = inner.matrix
            ev_ = []
            for pt in pts:
                ev_.append([[(lambda t: {"x": None if t[0] is None else _fr(t[0]),
                                         "v": None if t[1] is None else [t[1].real, t[1].imag]})(impl_value(M[i, j], pt))
                             for j in range(M.shape[1])] for i in range(M.shape[0])])
            r["entry_vals"] = ev_
        return r

    # the meaning of a custom gate call: the definition's matrix with the i-th ordered symbol replaced by the
    # i-th argument, simultaneously (computed here from the case's own definition, not from the gate object)
    base = c["g"]
    while "g" in base:
        base = base["g"]
    if base["k"] == "custom" and out["custom_ok"] and pts:
        d = CUSTOM[base["name"]]
        want = sympy.Matrix([[_expr(e) for e in row] for row in d["matrix"]]).subs(
            {sympy.Symbol(o): a for o, a in zip(d["ord"], [_param(p) for p in base["params"]])}, simultaneous=True)
        inner = g
        while hasattr(inner, "wrapped_gate"):
            inner = inner.wrapped_gate
        try:
            out["custom_diff"] = _mdiff(_mat_num(want, pts[0]), _mat_num(inner.matrix, pts[0]))
        except (TypeError, ValueError):
            out["custom_diff"] = None
    b, err = _try(lambda: g.bind(m))
    if err:
        out["bound"] = {"err": err}
    else:
        ob = obs(b)
        pt = pts[0] if pts else {}
        if not out["powexp"] and out["custom_ok"] and c.get("matrix", True):
            try:
                ob["matrix_diff"] = _mdiff(_mat_num(g.matrix.subs(m, simultaneous=True), pt), _mat_num(b.matrix, pt))
            except (TypeError, ValueError):
                ob["matrix_diff"] = None
        out["bound"] = ob
    if c.get("new_params") is not None:
        nps = tuple(_param(p) for p in c["new_params"])
        r, err = _try(lambda: g.replace_params(nps))
        out["replaced"] = {"err": err} if err else obs(r)
    return out


# ---------------------------------------------------------------- model requests and comparison
def requests(c, out):
    if not c.get("model", True) or "exc" in out:
        return []
    try:
        return _requests(c, out)
    except Unsupported:
        return []


def _requests(c, out):
    pts = c.get("pts", [])
    if c["kind"] == "gate":
        if out.get("construct") or out.get("g_json") is None:
            return []
        req = {"g": out["g_json"], "map": map_json(_map(c["map"])), "points": pts}
        if c.get("new_params") is not None:
            req["new_params"] = [param_json(_param(p)) for p in c["new_params"]]
        return [("gate", req)]
    if out["before"].get("ops_json") is None or any(_unsup(o) for o in out["before"]["ops_json"]):
        return []
    req = {"ops": out["before"]["ops_json"], "n": c.get("n") or 0, "map": map_json(_map(c["map"])), "points": pts}
    if c.get("map2") is not None and "bound" in out and "err" not in out["bound"]:
        req["map2"] = map_json(_map(c["map2"]))
    rs = [("circuit", req)]
    # the free-symbol mechanisms once more, on the implementation's own bound parameter trees
    for key in ("bound", "step", "once"):
        o = out.get(key)
        if o and "err" not in o and o.get("ops_json") is not None:
            rs.append(("free", {"ops": _patch(o["ops_json"])}))
    return rs


def _unsup(j):
    if isinstance(j, dict):
        return "unsupported" in j or any(_unsup(v) for v in j.values())
    if isinstance(j, list):
        return any(_unsup(v) for v in j)
    return False


def _patch(j):
    """parameters outside the model's grammar (pi, E, nan, …): for the `free` request only their symbols matter,
    so they are replaced by the sum of the symbols found by an explicit walk"""
    if isinstance(j, dict):
        if "unsupported" in j:
            if not j["unsupported"]:
                return {"py": "0"}
            out = {"n": "0"}
            for name in j.get("syms", []):
                out = {"add": [out, {"s": name}]}
            return out
        return {k: _patch(v) for k, v in j.items()}
    if isinstance(j, list):
        return [_patch(v) for v in j]
    return j


def _cmp_vals(what, mvals, ivals, mparams, pts):
    """model values (exact or null) against implementation values, point by point"""
    for k, (mrow, irow) in enumerate(zip(mvals, ivals)):
        env = {name: Fraction(v) for name, v in pts[k]}
        for a, (mops, iops) in enumerate(zip(mrow, irow)):
            if len(mops) != len(iops):
                return f"{what}: op {a} has {len(iops)} params, model {len(mops)}"
            for b, (mv, iv) in enumerate(zip(mops, iops)):
                if mv is not None:
                    if iv["x"] is not None:
                        if Fraction(mv) != Fraction(iv["x"]):
                            return f"{what}: op {a} param {b} at point {k}: impl {iv['x']} model {mv} (exact)"
                    elif iv["v"] is not None and not close(float(Fraction(mv)), complex(*iv["v"])):
                        return f"{what}: op {a} param {b} at point {k}: impl {iv['v']} model {mv}"
                else:
                    num = ev(mparams[a][b], env)
                    if num is not None and iv["v"] is not None and not close(num, complex(*iv["v"])):
                        return f"{what}: op {a} param {b} at point {k}: impl {iv['v']} model {num} (numeric)"
    return None


def _cmp_bound(what, mb, ib, pts):
    if isinstance(mb, str) or "err" in ib:
        if mb != ib.get("err"):
            return f"{what}: impl {ib.get('err', 'returned a circuit')} model {mb if isinstance(mb, str) else 'returned a circuit'}"
        return None
    if ib.get("ops_json") is None:
        return None
    # after one bind the Python-number / sympy-expression kind of every parameter must agree; after a second
    # bind it may not: sympy canonicalises between the steps (gamma + 0 -> gamma, then the Symbol overload
    # returns the raw Python value), the model does not – the values are compared below in either case
    kinds = what == "bind"
    if strip(mb["ops"], kinds) != strip(ib["ops_json"], kinds):
        return f"{what}: structure differs: impl {strip(ib['ops_json'], kinds)} model {strip(mb['ops'], kinds)}"
    if mb["n"] != ib["n"]:
        return f"{what}: width impl {ib['n']} model {mb['n']}"
    mparams = [params_of(o) for o in mb["ops"]]
    msg = _cmp_vals(what, mb["vals"], ib["vals"], mparams, pts)
    if msg:
        return msg
    # free symbols: the implementation may report fewer symbols only where sympy cancelled them
    for a, (mf, if_) in enumerate(zip(mb["free_ops"], ib["free_ops"])):
        if not set(if_) <= set(mf):
            return f"{what}: op {a} reports free symbols {if_}, model {mf}"
        for s in set(mf) - set(if_):
            for pt in pts[:2]:
                env = {name: Fraction(v) for name, v in pt}
                env2 = dict(env)
                env2[s] = env.get(s, Fraction(0)) + Fraction(55, 89)
                for p in mparams[a]:
                    v1, v2 = ev(p, env), ev(p, env2)
                    if v1 is not None and v2 is not None and not close(v1, v2):
                        return f"{what}: op {a}: model parameter depends on {s}, implementation does not report it ({if_})"
    return None


def compare(c, out, resp):
    for r in resp:
        if isinstance(r, dict) and "driver_error" in r:
            return "driver error: " + r["driver_error"]
    pts = c.get("pts", [])
    r = resp[0]
    if c["kind"] == "gate":
        return _compare_gate(c, out, r, pts)
    b = out["before"]
    if (b["free_ops"], b["free"], b["n"]) != (r["free_ops"], r["free"], r["n"]):
        return f"before bind: impl free_ops {b['free_ops']} free {b['free']} n {b['n']}; model {r['free_ops']} {r['free']} {r['n']}"
    msg = _cmp_bound("bind", r["bound"], out["bound"], pts)
    if msg:
        return msg
    if "step" in r:
        if r["step"] != r["once"] and (isinstance(r["step"], str) or isinstance(r["once"], str)
                                       or [params_of(o) for o in r["step"]["ops"]] != [params_of(o) for o in r["once"]["ops"]]):
            return f"model: step-wise {r['step']} differs from once {r['once']}"
        for key in ("step", "once"):
            msg = _cmp_bound(key, r[key], out[key], pts)
            if msg:
                return msg
    # the `free` requests, in the order they were issued
    k = 1
    for key in ("bound", "step", "once"):
        o = out.get(key)
        if o and "err" not in o and o.get("ops_json") is not None:
            fr = resp[k]
            k += 1
            if (fr["free_ops"], fr["free"]) != (o["free_ops"], o["free"]):
                return (f"free symbols of the {key} circuit: impl {o['free_ops']} / {o['free']}, "
                        f"model on the same parameter trees {fr['free_ops']} / {fr['free']}")
    return None


def _compare_gate(c, out, r, pts):
    if out["free"] != r["free"]:
        return f"gate free symbols: impl {out['free']} model {r['free']}"
    for key in ("bound", "replaced"):
        if key not in out:
            continue
        ib, mb = out[key], r[key]
        if isinstance(mb, str) or "err" in ib:
            if mb != ib.get("err"):
                return f"{key}: impl {ib.get('err', 'returned a gate')} model {mb if isinstance(mb, str) else 'returned a gate'}"
            continue
        if strip(mb["g"]) != strip(ib["g_json"]):
            return f"{key}: structure differs: impl {strip(ib['g_json'])} model {strip(mb['g'])}"
        mparams = [params_of(mb["g"])]
        msg = _cmp_vals(key, mb["vals"], [[v] for v in ib["vals"]], mparams, pts)
        if msg:
            return msg
        if not set(ib["free"]) <= set(mb["free"]):
            return f"{key}: impl free {ib['free']} model {mb['free']}"
        if key == "replaced" and ib["free"] != mb["free"]:
            return f"replaced: impl free {ib['free']} model {mb['free']}"
        if "entry_vals" in ib:
            if "entry_vals" not in mb:
                return f"{key}: implementation has a custom matrix, model has none"
            for k, (mm, im) in enumerate(zip(mb["entry_vals"], ib["entry_vals"])):
                env = {name: Fraction(v) for name, v in pts[k]}
                for i, (mrow, irow) in enumerate(zip(mm, im)):
                    for j2, (mv, iv) in enumerate(zip(mrow, irow)):
                        if mv is not None and iv["x"] is not None:
                            if Fraction(mv) != Fraction(iv["x"]):
                                return f"{key}: custom matrix entry ({i},{j2}) at point {k}: impl {iv['x']} model {mv}"
                        else:
                            num = float(Fraction(mv)) if mv is not None else ev(mb["entries"][i][j2], env)
                            if num is not None and iv["v"] is not None and not close(num, complex(*iv["v"])):
                                return f"{key}: custom matrix entry ({i},{j2}) at point {k}: impl {iv['v']} model {num}"
    return None


# ---------------------------------------------------------------- the property's own sentences, on the implementation only
def _first_appearance(lists):
    seen, out = set(), []
    for l in lists:
        for s in l:
            if s not in seen:
                seen.add(s)
                out.append(s)
    return out


def _in_domain(c):
    keys = {k for k, _ in c["map"]} | {k for k, _ in (c.get("map2") or [])} | {k for k, _ in (c.get("extra") or [])}
    for _, v in list(c["map"]) + list(c.get("map2") or []) + list(c.get("extra") or []):
        if "e" in v and set(_idents(v["e"])) & keys:
            return False
    return True


def _check_free(what, o):
    """S5/S6 on one observed circuit"""
    for a, (rep, occ) in enumerate(zip(o["free_ops"], o["occ_ops"])):
        if rep != sorted(set(occ)):
            return ("free-symbols-op", f"{what}: operation {a} reports free symbols {rep}, its parameters {o['strs'][a]} mention {occ}")
    want = _first_appearance(o["free_ops"])
    if o["free"] != want:
        return ("free-symbols-order", f"{what}: circuit reports {o['free']}, first-appearance order of the operations' symbols is {want}")
    if (len(o["free"]) == 0) != all(len(x) == 0 for x in o["occ_ops"]):
        return ("free-symbols-empty", f"{what}: circuit free symbols {o['free']} but parameters mention {o['occ_ops']}")
    return None


def oracle(c, out):
    if "exc" in out:
        return ("unexpected-exception", f"the implementation raised {out['exc']}: {out.get('msg')}")
    if not _in_domain(c):
        return None
    if c["kind"] == "gate":
        return _oracle_gate(c, out)
    res = _check_free("before bind", out["before"])
    if res:
        return res
    kinds = out["kinds"]
    b = out["bound"]
    if "powexp" in kinds:
        # the first exception wins; nothing before a power/exponential gate may raise, so it is the refusal
        if b.get("err") != "err:notimpl":
            return ("powexp-bind-not-refused", f"a power/exponential gate was bound: outcome {b.get('err', 'a circuit')} instead of NotImplementedError")
        return None
    if "err" in b:
        if "reset" in kinds:
            # regression of the defect fixed by ddf37fe (dataclasses.replace called ResetOperation(params=...))
            return ("reset-bind-typeerror" if b["err"] == "err:type" else "reset-bind-raises",
                    f"binding a circuit containing a ResetOperation raised {b['err']}; non-gate operations must bind like gates "
                    f"(ResetOperation has no parameters, so the bound operation is a reset of the same qubit)")
        return ("bind-raises", f"bind raised {b['err']} on a circuit of bindable operations")
    if b["n"] != out["before"]["n"] or b["qubits"] != out["before"]["qubits"] or b["same_type"] is None or not all(b["same_type"]):
        return ("bind-shape", f"bound circuit has width {b['n']} / qubits {b['qubits']}, original {out['before']['n']} / {out['before']['qubits']}")
    for a, row in enumerate(b["param_diff"]):
        if row == "len" or any(d is not None and d > TOL for d in row):
            return ("bind-param-value", f"operation {a}: bound parameters {b['strs'][a]} differ from substituting afterwards (rel. diff {row})")
    for a, d in enumerate(b["matrix_diff"]):
        if d is not None and not d <= 1e-8:
            return ("bind-matrix", f"operation {a}: matrix of the bound gate differs from the substituted symbolic matrix by {d}")
    if b.get("unitary_diff") is not None and not b["unitary_diff"] <= 1e-8:
        return ("bind-unitary", f"unitary of the bound circuit differs from the substituted symbolic unitary by {b['unitary_diff']}")
    if not all(b["untouched_ok"]):
        return ("bind-touches-absent", "a numeric parameter or a parameter without bound symbols was changed by bind")
    res = _check_free("after bind", b)
    if res:
        return res
    # what the bound parameters still depend on: unbound symbols + symbols of the substituted values
    if "extra_same" in out and (out["extra_same"] is False or not all(all(r) for r in out["extra_same"])):
        return ("bind-extra", "superfluous map entries changed the bound circuit")
    if "step" in out:
        st, on = out["step"], out["once"]
        if "err" in st or "err" in on:
            return ("bind-step-raises", f"step-wise bind {st.get('err')} / bind once {on.get('err')}")
        for key, o in (("step-wise", st), ("once", on)):
            res = _check_free(key, o)
            if res:
                return res
        if st["n"] != on["n"] or st["qubits"] != on["qubits"]:
            return ("bind-step", f"step-wise binding gives width {st['n']} / qubits {st['qubits']}, binding once {on['n']} / {on['qubits']}")
        for k, (r1, r2) in enumerate(zip(st["vals"], on["vals"])):
            for a, (o1, o2) in enumerate(zip(r1, r2)):
                for p1, p2 in zip(o1, o2):
                    v1 = None if p1["v"] is None else complex(*p1["v"])
                    v2 = None if p2["v"] is None else complex(*p2["v"])
                    if v1 is not None and v2 is not None and not close(v1, v2):
                        return ("bind-step", f"operation {a}: step-wise {st['strs'][a]} differs from once {on['strs'][a]}")
    return None


def _oracle_gate(c, out):
    if out.get("construct"):
        return None  # the gate of the case cannot be built (e.g. power over free symbols): nothing to bind
    if out["free"] != sorted(set(out["occ"])):
        return ("free-symbols-op", f"gate reports free symbols {out['free']}, its parameters mention {out['occ']}")
    if out.get("custom_diff") is not None and not out["custom_diff"] <= 1e-8:
        return ("custom-positional", f"custom gate matrix differs from the definition's matrix with the ordered symbols "
                                     f"replaced by the arguments position by position (rel. diff {out['custom_diff']})")
    b = out["bound"]
    if out["powexp"]:
        if b.get("err") != "err:notimpl":
            return ("powexp-bind-not-refused", f"a power/exponential gate was bound: outcome {b.get('err', 'a gate')} instead of NotImplementedError")
        if out["free"]:
            return ("powexp-free-symbols", f"a power/exponential gate has free symbols {out['free']}")
    else:
        if "err" in b:
            return ("bind-raises", f"Gate.bind raised {b['err']}")
        if b["free"] != sorted(set(b["occ"])):
            return ("free-symbols-op", f"bound gate reports {b['free']}, its parameters {b['strs']} mention {b['occ']}")
        d = b.get("matrix_diff")
        if d is not None and not d <= 1e-8:
            return ("bind-matrix", f"matrix of the bound gate differs from the substituted symbolic matrix by {d}")
    return None


# ---------------------------------------------------------------- generators
def _idents(s):
    return [t for t in re.findall(r"[A-Za-z_][A-Za-z_0-9]*", s) if t not in FUNCS]


def _num_str(rng, allow_zero=False):
    k = rng.random()
    if k < 0.5:
        v = rng.choice([1, 2, 3, 4, 5, -1, -2, -3] + ([0] if allow_zero else []))
        return str(v)
    return f"({rng.choice([1, 3, 5, -1, -3, 7])}/{rng.choice([2, 3, 4, 5, 8])})"


def gen_expr(rng, syms, depth, poly=False):
    if depth <= 0 or rng.random() < 0.2:
        return rng.choice(syms) if rng.random() < 0.75 else _num_str(rng)
    k = rng.random()
    a = gen_expr(rng, syms, depth - 1, poly)
    if k < 0.3:
        return f"({a} + {gen_expr(rng, syms, depth - 1, poly)})"
    if k < 0.4:
        return f"({a} - {gen_expr(rng, syms, depth - 1, poly)})"
    if k < 0.65:
        return f"({a}*{gen_expr(rng, syms, depth - 1, poly)})"
    if k < 0.72:
        return f"({a})**{rng.choice([2, 3])}"
    if k < 0.8:
        return f"({a}/{rng.choice(syms)})" if not poly else f"({_num_str(rng)}*{a})"
    if poly:
        return f"({_num_str(rng)}*{a} + {_num_str(rng)})"
    if k < 0.88:
        return f"sin({a})"
    if k < 0.94:
        return f"cos({a})"
    if k < 0.97:
        return f"exp({rng.choice(syms) if rng.random() < 0.8 else _num_str(rng)})"
    return f"({a})**(-1)"


def gen_param(rng, syms, poly=False, symbolic=None):
    k = rng.random()
    if symbolic is False or (symbolic is None and k < 0.18):
        return {"py": rng.choice(["1", "2", "-1", "0", "1/2", "3/4", "-3/2", "5/8"])}
    if symbolic is None and k < 0.26:
        return {"e": _num_str(rng, True).strip("()")}
    if k < 0.42:
        return {"e": rng.choice(syms)}
    return {"e": gen_expr(rng, syms, rng.choice([1, 2, 2, 3]), poly)}


def gen_base_gate(rng, syms, poly, symbolic=None, max_q=2):
    k = rng.random()
    if k < 0.12:
        names = [n for n in NONPARAM if NQ.get(n, 1) <= max_q]
        return {"k": "mf", "name": rng.choice(names), "params": []}, 1
    if k < 0.62:
        names = [n for n in PARAM1 if NQ.get(n, 1) <= max_q]
        return {"k": "mf", "name": rng.choice(names), "params": [gen_param(rng, syms, poly, symbolic)]}, 1
    if k < 0.7 and max_q >= 2:
        return {"k": "mf", "name": "MS", "params": [gen_param(rng, syms, poly, symbolic) for _ in range(2)]}, 2
    if k < 0.75:
        # u3_matrix calls simplify(): keep its parameters small (atoms, a*s + b)
        def small():
            r = rng.random()
            if symbolic is False or r < 0.2:
                return {"py": rng.choice(["1", "-1", "1/2", "3/4"])}
            if r < 0.6:
                return {"e": rng.choice(syms)}
            return {"e": f"{_num_str(rng)}*{rng.choice(syms)} + {_num_str(rng)}"}
        return {"k": "mf", "name": "U3", "params": [small() for _ in range(3)]}, 3
    name = rng.choice([n for n in CUSTOM if len(CUSTOM[n]["matrix"]) <= 2 ** max_q])
    n = len(CUSTOM[name]["ord"])
    csyms = syms + (["theta", "gamma"] if name == "U2" else [])
    return {"k": "custom", "name": name, "params": [gen_param(rng, csyms, poly, symbolic) for _ in range(n)]}, n


def _nq(gs):
    if gs["k"] == "mf":
        return NQ.get(gs["name"], 1)
    if gs["k"] == "custom":
        return {2: 1, 4: 2}[len(CUSTOM[gs["name"]]["matrix"])]
    return _nq(gs["g"]) + (gs["n"] if gs["k"] == "ctrl" else 0)


def gen_gate(rng, syms, poly, max_q=3, powexp=False):
    g, _ = gen_base_gate(rng, syms, poly, symbolic=False if powexp else None, max_q=min(max_q, 2))
    depth = rng.choice([0, 0, 1, 1, 2, 3])
    wrappers = []
    for _ in range(depth):
        wrappers.append(rng.choice(["ctrl", "dag", "dag", "ctrl"]))
    if powexp:
        wrappers.insert(rng.randrange(len(wrappers) + 1), rng.choice(["pow", "exp"]))
    for w in wrappers:
        if w == "ctrl":
            n = rng.choice([1, 1, 2])
            if _nq(g) + n > max_q:
                continue
            g = {"k": "ctrl", "g": g, "n": n, "raw": rng.random() < 0.25}
        elif w == "dag":
            g = {"k": "dag", "g": g, "raw": rng.random() < 0.25}
        elif w == "pow":
            g = {"k": "pow", "g": g, "e": rng.choice(["2", "1/2", "-1", "3", "1/4"])}
        else:
            g = {"k": "exp", "g": g}
    return g


def _case_syms(c):
    out = []

    def walk(j):
        if isinstance(j, dict):
            if "e" in j and isinstance(j["e"], str):
                out.extend(_idents(j["e"]))
            for v in j.values():
                walk(v)
        elif isinstance(j, list):
            for v in j:
                walk(v)

    walk(c.get("ops", c.get("g")))
    return sorted(set(out))


def _case_groups(c):
    """the symbol sets of the individual expression parameters of a case"""
    out = []

    def walk(j):
        if isinstance(j, dict):
            if "e" in j and isinstance(j["e"], str):
                out.append(sorted(set(_idents(j["e"]))))
            for v in j.values():
                walk(v)
        elif isinstance(j, list):
            for v in j:
                walk(v)

    walk(c.get("ops", c.get("g")))
    return out


def gen_maps(rng, used, poly, two=False, groups=()):
    """(map, map2, extra): values never mention any key of any of the three"""
    used = list(used)
    style = rng.choice(["partial", "partial", "partial", "partial", "total", "empty", "superfluous", "mixed"])
    if style == "total":
        keys = list(used)
    elif style in ("empty", "superfluous"):
        keys = []
    else:
        multi = [g for g in groups if len(g) >= 2]
        if multi and rng.random() < 0.8:
            # split one multi-symbol parameter: bind some of its symbols, leave at least one free
            g = list(rng.choice(multi))
            rng.shuffle(g)
            inside = g[:rng.randrange(1, len(g))]
            keep_free = g[len(inside):]
            keys = inside + [s for s in used if s not in g and rng.random() < 0.4]
            keys = [k for k in keys if k not in keep_free]
        else:
            keys = [s for s in used if rng.random() < 0.5]
            if used and not keys:
                keys = [rng.choice(used)]
            if len(keys) == len(used) and len(used) > 1:
                keys = keys[:-1]
    rng.shuffle(keys)
    others = [s for s in SYMS if s not in used]
    extra_keys = rng.sample(others, rng.choice([1, 2])) if style in ("superfluous", "mixed") or rng.random() < 0.3 else []
    keys2 = []
    if two:
        rest = [s for s in used if s not in keys]
        keys2 = [s for s in rest if rng.random() < 0.6]
    allkeys = set(keys) | set(extra_keys) | set(keys2)
    free_for_values = [s for s in SYMS if s not in allkeys]

    def value():
        k = rng.random()
        if k < 0.3:
            return {"py": rng.choice(["1", "2", "-1", "3", "0"] + ([] if poly else ["1/2", "3/4", "-3/2", "1/8"]))}
        if k < 0.55:
            return {"e": rng.choice(["1/2", "2/3", "-3/4", "5", "7/5", "-2"])}
        if k < 0.8:
            return {"e": rng.choice(free_for_values)}
        return {"e": gen_expr(rng, free_for_values, rng.choice([1, 2]), poly)}

    m = [[k, value()] for k in keys]
    extra = [[k, value()] for k in extra_keys]
    m2 = [[k, value()] for k in keys2] if two else None
    return m, m2, extra


def gen_points(rng, names, n=2):
    pts = []
    for _ in range(n):
        pts.append([[s, _fr(Fraction(rng.choice([1, 2, 3, 5, 7, -1, -2, -3, -5, 4]), rng.choice([1, 2, 3, 5, 7])))]
                    for s in names])
    return pts


def gen_circuit_case(rng, big):
    poly = rng.random() < 0.5
    nsym = rng.choice([2, 3, 3, 4, 5])
    syms = rng.sample(SYMS, nsym)
    width = rng.choice([1, 2, 2, 3]) if big else rng.choice([1, 2, 2, 2, 3])
    nops = rng.choice([1, 2, 3, 3, 4, 5]) if big else rng.choice([1, 2, 2, 3, 4])
    ops = []
    for _ in range(nops):
        k = rng.random()
        if k < 0.1:
            n = rng.choice([1, 2]) if width >= 2 else 1
            ops.append({"op": "mp", "params": [gen_param(rng, syms, poly) for _ in range(2 ** n)]})
            continue
        for _try_ in range(6):
            g = gen_gate(rng, syms, poly, max_q=width)
            if _nq(g) <= width:
                break
        else:
            g = {"k": "mf", "name": "RX", "params": [gen_param(rng, syms, poly)]}
        ops.append({"op": "gate", "g": g, "q": rng.sample(range(width), _nq(g))})
    c = {"kind": "circuit", "ops": ops, "n": rng.choice([None, None, width, width + 1])}
    used = _case_syms(c)
    two = rng.random() < 0.5
    m, m2, extra = gen_maps(rng, used, poly, two, _case_groups(c))
    if extra and rng.random() < 0.5:
        c["map"] = m + extra          # superfluous entries inside the map itself
    else:
        c["map"] = m
        if extra:
            c["extra"] = extra        # … or as a separate "same result with and without them" check
    if m2 is not None:
        c["map2"] = m2
    c["pts"] = gen_points(rng, SYMS)
    c["unitary"] = (width <= 2 and rng.random() < (0.5 if big else 0.25)) or (big and width == 3 and rng.random() < 0.05)
    return c


def gen_gate_case(rng, big):
    poly = rng.random() < 0.5
    syms = rng.sample(SYMS, rng.choice([2, 3, 4]))
    powexp = rng.random() < 0.3
    g = gen_gate(rng, syms, poly, max_q=2 if powexp else 3, powexp=powexp)
    c = {"kind": "gate", "g": g}
    used = _case_syms(c)
    m, _, extra = gen_maps(rng, used or syms[:1], poly, False, _case_groups(c))
    c["map"] = m + extra
    if rng.random() < 0.6:
        base = g
        while "g" in base:
            base = base["g"]
        npar = len(base["params"])
        sym = False if (powexp and rng.random() < 0.7) else None
        c["new_params"] = [gen_param(rng, syms, poly, sym) for _ in range(rng.choice([npar, npar, npar, npar + 1, max(0, npar - 1)]))]
    c["pts"] = gen_points(rng, SYMS)
    return c


def corpus():
    pts = [[[s, _fr(Fraction(i + 2, 3))] for i, s in enumerate(SYMS)], [[s, _fr(Fraction(-(i + 1), 2))] for i, s in enumerate(SYMS)]]
    rx = {"k": "mf", "name": "RX", "params": [{"e": "2*x*y + 1"}]}
    return [
        # the rule of DESIGN §4.21: expression parameter with >= 2 symbols and a partial map
        {"kind": "circuit", "ops": [{"op": "gate", "g": rx, "q": [0]}], "n": None, "map": [["x", {"py": "1/2"}]], "pts": pts, "unitary": True},
        # first-appearance order, MultiPhaseOperation, numeric params untouched
        {"kind": "circuit", "ops": [{"op": "gate", "g": {"k": "mf", "name": "RX", "params": [{"e": "y"}]}, "q": [0]},
                                    {"op": "gate", "g": {"k": "mf", "name": "RY", "params": [{"e": "x + y"}]}, "q": [1]},
                                    {"op": "mp", "params": [{"e": "z"}, {"e": "x"}, {"py": "1"}, {"py": "2"}]}],
         "n": None, "map": [["y", {"e": "w"}]], "map2": [["x", {"py": "2"}]], "extra": [["t", {"py": "5"}]], "pts": pts},
        # F15 (fixed 95d46d1): custom gate, ordering (gamma, theta), actual params are the formal symbols swapped
        {"kind": "gate", "g": {"k": "custom", "name": "U2", "params": [{"e": "theta"}, {"e": "gamma"}]},
         "map": [["theta", {"py": "2"}]], "pts": pts},
        {"kind": "circuit", "ops": [{"op": "gate", "g": {"k": "ctrl", "n": 1, "g": {"k": "custom", "name": "U2", "params": [{"e": "theta"}, {"e": "gamma + x"}]}},
                                     "q": [1, 0]}], "n": 3, "map": [["gamma", {"e": "3/2"}]], "map2": [["theta", {"e": "x"}]], "pts": pts, "unitary": True},
        # re-association: hand-made Dagger(ControlledGate(ControlledGate(RX)))
        {"kind": "gate", "g": {"k": "dag", "raw": True, "g": {"k": "ctrl", "raw": True, "n": 1, "g": {"k": "ctrl", "raw": True, "n": 1, "g": rx}}},
         "map": [["y", {"e": "z"}]], "new_params": [{"e": "t"}], "pts": pts},
        # hermitian shortcut: GPi(x).dagger is GPi(x)
        {"kind": "gate", "g": {"k": "ctrl", "n": 2, "g": {"k": "dag", "g": {"k": "mf", "name": "GPi", "params": [{"e": "x*y"}]}}},
         "map": [["x", {"e": "1/3"}]], "pts": pts},
        # refusals
        {"kind": "gate", "g": {"k": "pow", "e": "1/2", "g": {"k": "mf", "name": "X", "params": []}}, "map": [["x", {"py": "1"}]], "pts": pts},
        {"kind": "gate", "g": {"k": "ctrl", "n": 1, "g": {"k": "exp", "g": {"k": "mf", "name": "RX", "params": [{"py": "1/2"}]}}}, "map": [],
         "new_params": [{"e": "x"}], "pts": pts},
        {"kind": "circuit", "ops": [{"op": "gate", "g": rx, "q": [0]},
                                    {"op": "gate", "g": {"k": "pow", "e": "2", "g": {"k": "mf", "name": "T", "params": []}}, "q": [0]}],
         "n": None, "map": [["x", {"py": "1"}]], "pts": pts},
        # fixed defect (ddf37fe): a circuit with a ResetOperation used to raise TypeError on bind (sig reset-bind-typeerror)
        {"kind": "circuit", "ops": [{"op": "gate", "g": {"k": "mf", "name": "H", "params": []}, "q": [0]}, {"op": "reset", "q": 0}],
         "n": None, "map": [], "pts": pts},
        {"kind": "circuit", "ops": [{"op": "gate", "g": rx, "q": [1]}, {"op": "reset", "q": 1},
                                    {"op": "mp", "params": [{"e": "x"}, {"e": "y + z"}]}],
         "n": 3, "map": [["x", {"e": "1/2"}]], "map2": [["y", {"py": "2"}]], "pts": pts},
        # cancellation: the bound parameter no longer depends on y
        {"kind": "circuit", "ops": [{"op": "gate", "g": {"k": "mf", "name": "RZ", "params": [{"e": "(x + 1)*y + z"}]}, "q": [0]}],
         "n": 2, "map": [["x", {"py": "-1"}]], "pts": pts},
        # custom gate applied to fewer params than it orders (malformed; mechanisms only)
        {"kind": "gate", "g": {"k": "custom", "name": "U2", "params": [{"e": "x"}]}, "map": [["x", {"py": "3"}], ["theta", {"py": "1"}]], "pts": pts},
        # empty circuit
        {"kind": "circuit", "ops": [], "n": None, "map": [["x", {"py": "1"}]], "pts": pts},
    ]


def generate(rng, tier):
    big = tier == "thorough"
    cases = []
    for _ in range(450 if big else 70):
        cases.append(gen_circuit_case(rng, big))
    for _ in range(400 if big else 60):
        cases.append(gen_gate_case(rng, big))
    # circuits with a ResetOperation (regression of ddf37fe) and with a power / exponential gate in the middle
    for _ in range(30 if big else 6):
        c = gen_circuit_case(rng, big)
        w = max([q for o in c["ops"] if o["op"] == "gate" for q in o["q"]] + [0]) + 1
        c["ops"].insert(rng.randrange(len(c["ops"]) + 1), {"op": "reset", "q": rng.randrange(w)})
        c["unitary"] = False
        cases.append(c)
    for _ in range(40 if big else 8):
        c = gen_circuit_case(rng, big)
        g = gen_gate(rng, ["x"], True, max_q=1, powexp=True)
        c["ops"].insert(rng.randrange(len(c["ops"]) + 1), {"op": "gate", "g": g, "q": [0]})
        c["unitary"] = False
        cases.append(c)
    # values outside the model's grammar (pi, I, complex numbers): oracle only
    for _ in range(60 if big else 10):
        c = gen_circuit_case(rng, big)
        if c["map"]:
            c["map"][0][1] = {"e": rng.choice(["pi/3", "2*pi", "sqrt(2)", "pi/5", "E"])}
        c["model"] = False
        cases.append(c)
    return cases


def nontrivial(c):
    keys = {k for k, _ in c["map"]}
    found = []

    def walk(j):
        if isinstance(j, dict):
            if "e" in j and isinstance(j["e"], str):
                s = set(_idents(j["e"]))
                if len(s) >= 2 and (s & keys) and (s - keys):
                    found.append(1)
            for v in j.values():
                walk(v)
        elif isinstance(j, list):
            for v in j:
                walk(v)

    walk(c.get("ops", c.get("g")))
    return bool(found)


def distribution(cases, outs):
    d = {"circuits": 0, "gates": 0, "ops": 0, "op_kinds": {}, "wrappers": {}, "bind_outcomes": {}, "maps": {"empty": 0, "symbolic_value": 0, "two_step": 0, "extra": 0},
         "unitary_checked": 0, "matrix_checked": 0, "model_skipped": 0, "max_width": 0}

    def wr(g):
        while "g" in g:
            key = g["k"] + ("-raw" if g.get("raw") else "")
            d["wrappers"][key] = d["wrappers"].get(key, 0) + 1
            g = g["g"]
        d["op_kinds"][g["k"] + ":" + g["name"]] = d["op_kinds"].get(g["k"] + ":" + g["name"], 0) + 1

    for c, o in zip(cases, outs):
        if c["kind"] == "gate":
            d["gates"] += 1
            wr(c["g"])
        else:
            d["circuits"] += 1
            d["ops"] += len(c["ops"])
            for op in c["ops"]:
                if op["op"] == "gate":
                    wr(op["g"])
                else:
                    d["op_kinds"][op["op"]] = d["op_kinds"].get(op["op"], 0) + 1
        if not c["map"]:
            d["maps"]["empty"] += 1
        if any("e" in v and _idents(v["e"]) for _, v in c["map"]):
            d["maps"]["symbolic_value"] += 1
        if c.get("map2") is not None:
            d["maps"]["two_step"] += 1
        if c.get("extra"):
            d["maps"]["extra"] += 1
        if not c.get("model", True):
            d["model_skipped"] += 1
        if isinstance(o, dict):
            b = o.get("bound") or {}
            key = o.get("construct") and "construct:" + o["construct"] or b.get("err", "ok")
            d["bind_outcomes"][key] = d["bind_outcomes"].get(key, 0) + 1
            if b.get("unitary_diff") is not None:
                d["unitary_checked"] += 1
            md = b.get("matrix_diff")
            d["matrix_checked"] += sum(1 for x in md if x is not None) if isinstance(md, list) else (1 if md is not None else 0)
            if "before" in o:
                d["max_width"] = max(d["max_width"], o["before"]["n"])
    return d
