"""C06 — binding parameters commutes with evaluating the circuit."""
import cmath
import math
import random
import re
from fractions import Fraction

from .. import common

PROP = "C06"
RULE = ("seeded random circuits (built-in / custom factory gates under controlled/dagger chains built through the API "
        "or by direct construction, MultiPhaseOperation, a few ResetOperations) and single gates (incl. power/exponential "
        "chains, replace_params) with sympy-expression parameters, bound with partial / total / superfluous / empty maps "
        "with numeric and symbolic values, plus a second map for step-wise binding; non-trivial: some expression parameter "
        "mentions >= 2 symbols and the map binds at least one but not all of them; distinct = distinct canonical JSON.  "
        "Further kinds: `mixed` (circuits that mix numeric and symbolic gates before / after a partial binding; the circuit "
        "matrix is evaluated along the symbolic, the mixed and the two numeric routes), `hist` (a history on ONE circuit "
        "object and ONE map object: sibling maps that differ in one entry, the first map again, every list / matrix handed "
        "out and the map edited in between, partial steps on the results), gate cases with the same history on one gate "
        "object, `exotic` (bound variables of Sum / Product / Integral also as map keys and shadowing free symbols, other "
        "real functions, sympy numbers, Python numbers of unusual types, symbols with assumptions, the same operation "
        "object twice, one custom-gate name with two contents, very small values / values of unusual types, 9-14 symbols on 9-13 qubits).  "
        "LOOK-ALIKE symbols (same printed name, different sympy symbol: real=True / finite=True twins, two Dummies, Dummy('x') vs "
        "Symbol('_x')) are planted as decoys into ~30% of the cases of every kind (only key of that name in the map / both with "
        "different values / bare look-alike parameters next to compound expressions of the real symbol / one twin per step) and "
        "in 8 hand-shaped families (gates, wrapped gates, custom gates with look-alike formal parameters, MultiPhaseOperation, "
        "circuits, hist, mixed); symbols are identified by an id ('theta', 'theta__real', 't__d1'), never by printed name.  "
        "HARDENING families: value twins on one circuit / gate / map object (-1 -> -2, 0 -> 2**61-1, v -> v + 1e-9, values of two "
        "keys swapped, entries reordered, 1 / 1.0 / Integer(1), look-alike key, all values equal; one gate object on two "
        "qubits), every nesting of a power / exponential wrapper under and above controls and daggers at gate, operation and "
        "circuit level (18 nestings), special shapes (MS(t,t), uniform phases, parameters that print alike, symbols named E / I / "
        "S / pi / lambda, 66-80 operations with 13-14 symbols and qubit indices up to 70, falsy values), `chained` maps whose "
        "values mention their own keys (oracle only: one reading – simultaneous or sequential in some order – must hold for "
        "bare and compound parameters alike); a bare-symbol parameter must become EXACTLY the value bound to it; the map object "
        "the caller passed is bound once more to a witness circuit")
TRUSTED = [
    "sympy: a Symbol is identified by name AND assumptions, a Dummy by its index; xreplace / subs match the exact objects (the "
    "oracle's expected values are computed with xreplace on the exact key objects, never by name)",
    "sympy: Expr.subs(dict) on a map whose values do not mention its keys is simultaneous substitution; "
    "Matrix.subs(simultaneous=True) is simultaneous substitution entry by entry; automatic canonicalisation "
    "(Add/Mul/Pow flattening, numeric folding, cancellation) preserves the value of an expression",
    "sympy: Expr.free_symbols is the set of Symbol atoms of the (canonical) expression tree that are not bound by a "
    "Sum / Product / Integral / Subs (the oracle finds them by its own binder-aware walk); subs() does not touch bound variables",
    "built-in matrix factories are arithmetic in their arguments, so factory(*params) evaluated at an assignment equals "
    "factory(*evaluated params) (model: Sem.builtin is a function of the evaluated parameters; exercised by the oracle)",
    "wrapper laws assumed in gateMatrix_bind (Laws): diag(eye, diag(eye, M)) = diag(eye', M); adjoint is an involution; "
    "adjoint of diag(eye, M) is diag(eye, adjoint M) (sympy Matrix.diag / adjoint; exercised by the oracle on every "
    "re-associated chain)",
    "functools.singledispatch picks the Symbol overload for symbols, the Expr overload for other sympy expressions "
    "(including sympy numbers) and the Number overload for Python numbers",
    "float arithmetic: comparisons that involve Python floats or transcendental functions use tolerance 1e-9; "
    "rational-only cases are compared exactly",
]
ASSUMPTIONS = [
    "symbol maps whose values do not mention the map's own keys (chained maps make sequential subs order dependent) – for the "
    "model comparison and the sentence-by-sentence oracle; chained maps themselves are the `chained` kind, where only the "
    "existence of ONE consistent reading is demanded (known finding chained-map-bare-vs-compound)",
    "values given to symbols declared real / finite are real and finite (all points and numeric values are real rationals)",
    "is_hermitian flags of factory gates are truthful (HermOK); custom definitions mention only ordered symbols and are "
    "called with at least as many params as they order (CustomOK)",
    "numeric values are real rationals / floats (MultiPhaseOperation rejects non-real complex numbers: not modelled)",
]

TOL = 1e-9
SYMS = ["x", "y", "z", "t", "u", "w", "theta", "gamma", "phi", "a0", "a1", "B", "Z0", "x_1"]
FUNCS = {"sin", "cos", "exp", "sqrt", "Sum", "Product", "Integral", "tan", "log", "Abs", "atan", "sinh", "Max", "Piecewise",
         "sign", "floor", "pi", "E", "I", "True", "GoldenRatio"}
NONPARAM = ["X", "Y", "Z", "H", "I", "S", "SX", "T", "CNOT", "CZ", "SWAP", "ISWAP"]
PARAM1 = ["RX", "RY", "RZ", "RH", "PHASE", "GPi", "GPi2", "CPHASE", "XX", "YY", "ZZ", "XY", "Delay"]
NQ = {"CNOT": 2, "CZ": 2, "SWAP": 2, "ISWAP": 2, "CPHASE": 2, "XX": 2, "YY": 2, "ZZ": 2, "XY": 2, "MS": 2}
CUSTOM = {
    "U1": {"ord": ["theta"], "matrix": [["cos(theta)", "-sin(theta)"], ["sin(theta)", "cos(theta)"]]},
    # F15 regression: ordering (gamma, theta) and actual params that mention the formal names
    "U2": {"ord": ["gamma", "theta"], "matrix": [["theta", "gamma"], ["gamma*theta", "1"]]},
    "U3c": {"ord": ["a0", "a1"], "matrix": [["cos(a0)", "0", "0", "-sin(a1)"], ["0", "1", "0", "0"],
                                           ["0", "0", "a0*a1 + 1", "0"], ["sin(a1)", "0", "0", "cos(a0)"]]},
    "U4": {"ord": ["x", "y", "z"], "matrix": [["x + y", "y*z"], ["z**2", "x - 1/2"]]},
}


class Unsupported(Exception):
    pass


# ---------------------------------------------------------------- building the real objects from a case
_LIB = []


def _lib():
    if not _LIB:
        common.use_repo()
        import sympy
        from orquestra.quantum import circuits as C
        from orquestra.quantum.circuits import _gates
        _LIB.append((sympy, C, _gates))
    return _LIB[0]


# Symbols are identified by an ID string, not by their printed name.  An id is the name of a plain symbol ("theta", "_x"), or a
# LOOK-ALIKE of it: "theta__real" / "theta__finite" = Symbol("theta", real=True / finite=True), "t__d1", "t__d2" = two distinct
# Dummy("t") (printed "_t").  sympy (and the library) treat all of these as different symbols although they print alike.
_LOOK = re.compile(r"^([A-Za-z_][A-Za-z_0-9]*?)__(real|finite|d[0-9]|n0)$")
_SYMTAB = {}   # id -> symbol object (one object per id for the whole run: Dummies must stay the same object)
_SYMID = {}    # symbol object -> id
_DEFS = {}     # per-case: custom gate definitions shared by all gates of the case (one long-lived object per definition)


def _sym(sid):
    """the symbol object of that id"""
    if sid not in _SYMTAB:
        sympy = _lib()[0]
        m = _LOOK.match(sid)
        if m and m.group(2)[0] == "d":
            obj = sympy.Dummy(m.group(1))
        elif m and m.group(2) == "n0":
            obj = sympy.Symbol(m.group(1))      # "E__n0" = the plain Symbol("E"): a name sympify would read as a constant
        elif m:
            obj = sympy.Symbol(m.group(1), **{m.group(2): True})
        else:
            obj = sympy.Symbol(sid)
        _SYMTAB[sid] = obj
        _SYMID[obj] = sid
    return _SYMTAB[sid]


def _sid(sym):
    """the id of a symbol object (objects the harness did not create get a fresh id that tells them apart)"""
    if sym not in _SYMID:
        sympy = _lib()[0]
        if isinstance(sym, sympy.Dummy):
            sid = f"{sym.name}__dx{sym.dummy_index}"
        elif sym == sympy.Symbol(sym.name):
            sid = sym.name
        else:
            sid = sym.name + "__a_" + "_".join(sorted(k for k, v in sym.assumptions0.items() if v and k != "commutative"))
        _SYMID[sym] = sid
        _SYMTAB.setdefault(sid, sym)
    return _SYMID[sym]


def _pname(sid):
    """the printed name of the symbol with that id (what sorted(..., key=str) in the library sees)"""
    m = re.match(r"^(.*?)__(real|finite|d[0-9]|dx[0-9]+|a_.*|n0)$", sid)
    if not m:
        return sid
    return ("_" if m.group(2)[0] == "d" else "") + m.group(1)


def _locals(sympy, text=""):
    d = {n: _sym(n) for n in SYMS}
    for t in re.findall(r"[A-Za-z_][A-Za-z_0-9]*", text):
        if _LOOK.match(t):
            d[t] = _sym(t)
    return d


def _expr(s):
    sympy, _, _ = _lib()
    return sympy.sympify(s, locals=_locals(sympy, s))


def _param(ps):
    if "py" in ps:
        f = Fraction(ps["py"])
        return int(f) if f.denominator == 1 else float(f)
    if "num" in ps:
        # Python numbers of an unusual type (all are numbers.Number: the Number overload of sub_symbols)
        t, v = ps["num"]
        if t == "fraction":
            return Fraction(v)
        if t == "complex":
            return complex(float(Fraction(v)), 0.0)
        if t == "npfloat":
            import numpy as np
            return np.float64(float(Fraction(v)))
        if t == "npint":
            import numpy as np
            return np.int64(int(v))
        if t == "bigint":
            return int(v)
        if t == "float":
            return float(v)
        raise AssertionError(t)
    return _expr(ps["e"])


def _custom_spec(gs):
    """(matrix rows, ordering) of a custom gate spec: inline definition or the table"""
    d = gs if "matrix" in gs else (CUSTOM.get(gs["name"]) or CUSTOM_X[gs["name"]])
    return d["matrix"], d["ord"]


def _gate(gs):
    sympy, C, G = _lib()
    k = gs["k"]
    if k == "mf":
        ref = C.builtin_gate_by_name(gs["name"])
        ps = [_param(p) for p in gs["params"]]
        return ref(*ps) if callable(ref) and not isinstance(ref, G.MatrixFactoryGate) else ref
    if k == "custom":
        rows, ordering = _custom_spec(gs)
        key = common.canon([gs["name"], rows, ordering])
        if key not in _DEFS:
            mat = sympy.Matrix([[_expr(e) for e in row] for row in rows])
            _DEFS[key] = C.CustomGateDefinition(gs["name"], mat, tuple(_sym(n) for n in ordering))
        return _DEFS[key](*[_param(p) for p in gs["params"]])
    inner = _gate(gs["g"])
    if k == "ctrl":
        return G.ControlledGate(inner, gs["n"]) if gs.get("raw") else inner.controlled(gs["n"])
    if k == "dag":
        return G.Dagger(inner) if gs.get("raw") else inner.dagger
    if k == "exp":
        return inner.exp
    if k == "pow":
        return inner.power(float(Fraction(gs["e"])))
    raise AssertionError(k)


def _op(os_):
    _, C, _ = _lib()
    if os_["op"] == "gate":
        return _gate(os_["g"])(*os_["q"])
    if os_["op"] == "mp":
        return C.MultiPhaseOperation(tuple(_param(p) for p in os_["params"]))
    if os_["op"] == "reset":
        return C.ResetOperation(os_["q"])
    raise AssertionError(os_)


def _map(ms):
    return {_sym(k): _param(v) for k, v in ms}


def _circuit(c):
    _, C, _ = _lib()
    ops = []
    for o in c["ops"]:
        # "same_as": the very same operation object once more (shared, not merely equal)
        if "same_as" in o:
            ops.append(ops[o["same_as"]])
        elif "gate_of" in o:
            # the very same GATE object as in an earlier operation, applied to other qubits
            ops.append(ops[o["gate_of"]].gate(*o["q"]))
        else:
            ops.append(_op(o))
    return C.Circuit(ops, n_qubits=c.get("n"))


# ---------------------------------------------------------------- real objects -> model JSON
def _fr(fr):
    return str(Fraction(fr))


def ast(e):
    """sympy expression (as canonicalised by sympy) -> model expression JSON"""
    sympy, _, _ = _lib()
    if isinstance(e, sympy.Symbol):
        return {"s": _sid(e)}
    if isinstance(e, sympy.Rational):
        return {"n": _fr(Fraction(int(e.p), int(e.q)))}
    if isinstance(e, sympy.Float):
        f = float(e)
        if not math.isfinite(f):
            raise Unsupported(str(e))
        return {"n": _fr(Fraction(f))}
    if isinstance(e, (sympy.Add, sympy.Mul)):
        key = "add" if isinstance(e, sympy.Add) else "mul"
        args = [ast(a) for a in e.args]
        out = args[0]
        for a in args[1:]:
            out = {key: [out, a]}
        return out
    if isinstance(e, sympy.Pow):
        return {"pow": [ast(e.base), ast(e.exp)]}
    if isinstance(e, (sympy.sin, sympy.cos, sympy.exp)) and len(e.args) == 1:
        return {"fn": type(e).__name__, "a": ast(e.args[0])}
    raise Unsupported(sympy.srepr(e)[:80])


def param_json(p):
    sympy, _, _ = _lib()
    if isinstance(p, sympy.Expr):
        return ast(p)
    if isinstance(p, Fraction):
        return {"py": _fr(p)}
    if isinstance(p, bool) or not isinstance(p, (int, float)):
        raise Unsupported(repr(p))
    return {"py": _fr(Fraction(p))}


def gate_json(g, tolerant=False):
    _, _, G = _lib()

    def pj(p):
        try:
            return param_json(p)
        except Unsupported:
            if not tolerant:
                raise
            sympy = _lib()[0]
            return {"unsupported": isinstance(p, sympy.Expr), "syms": _occ([p])}

    if isinstance(g, G.MatrixFactoryGate):
        custom = None
        if isinstance(g.matrix_factory, G.CustomGateMatrixFactory):
            d = g.matrix_factory.gate_definition
            custom = {"matrix": [[ast(d.matrix[i, j]) for j in range(d.matrix.shape[1])] for i in range(d.matrix.shape[0])],
                      "ord": [_sid(s) for s in d.params_ordering]}
        return {"k": "mf", "name": g.name, "params": [pj(p) for p in g.params], "nq": g.num_qubits,
                "herm": bool(g.is_hermitian), "custom": custom}
    if isinstance(g, G.ControlledGate):
        return {"k": "ctrl", "g": gate_json(g.wrapped_gate, tolerant), "n": g.num_control_qubits}
    if isinstance(g, G.Dagger):
        return {"k": "dag", "g": gate_json(g.wrapped_gate, tolerant)}
    if isinstance(g, G.Exponential):
        return {"k": "exp", "g": gate_json(g.wrapped_gate, tolerant)}
    if isinstance(g, G.Power):
        return {"k": "pow", "g": gate_json(g.wrapped_gate, tolerant), "e": _fr(Fraction(g.exponent))}
    raise Unsupported(type(g).__name__)


def op_json(o, tolerant=False):
    _, C, G = _lib()
    if isinstance(o, G.GateOperation):
        return {"op": "gate", "g": gate_json(o.gate, tolerant), "q": [int(q) for q in o.qubit_indices]}
    if isinstance(o, C.MultiPhaseOperation):
        ps = []
        for p in o.params:
            try:
                ps.append(param_json(p))
            except Unsupported:
                if not tolerant:
                    raise
                ps.append({"unsupported": isinstance(p, _lib()[0].Expr), "syms": _occ([p])})
        return {"op": "mp", "params": ps}
    if isinstance(o, C.ResetOperation):
        return {"op": "reset", "q": int(o.qubit_indices[0])}
    raise Unsupported(type(o).__name__)


def map_json(m):
    return [[_sid(k), param_json(v)] for k, v in m.items()]


def strip(j, kinds=True):
    """gate / op JSON with every parameter replaced by its kind ('py' | 'expr'), or by '?' when kinds=False"""
    if isinstance(j, dict):
        if "params" in j:
            j = dict(j)
            j["params"] = [("py" if ("py" in p or p.get("unsupported") is False) else "expr") if kinds else "?"
                           for p in j["params"]]
        return {k: strip(v, kinds) for k, v in j.items()}
    if isinstance(j, list):
        return [strip(v, kinds) for v in j]
    return j


def params_of(j):
    """the parameter list of a gate / op JSON (innermost factory gate)"""
    while "params" not in j:
        if "g" not in j:
            return []
        j = j["g"]
    return j["params"]


# ---------------------------------------------------------------- numeric helpers
def close(a, b):
    if a is None or b is None:
        return a is None and b is None
    return abs(complex(a) - complex(b)) <= TOL * max(1.0, abs(complex(a)), abs(complex(b)))


def ev(j, env):
    """numeric value (50 digits, mpmath) of a model expression / param JSON at env (name -> Fraction); None if undefined"""
    import mpmath
    with mpmath.workdps(50):
        try:
            v = _ev(j, env, mpmath)
            if v is None:
                return None
            v = complex(v)
            return v if (math.isfinite(v.real) and math.isfinite(v.imag)) else None
        except (OverflowError, ZeroDivisionError, ValueError):
            return None


def _mp(fr, mpmath):
    fr = Fraction(fr)
    return mpmath.mpf(fr.numerator) / mpmath.mpf(fr.denominator)


def _ev(j, env, mpmath):
    if "py" in j:
        return _mp(j["py"], mpmath)
    if "n" in j:
        return _mp(j["n"], mpmath)
    if "s" in j:
        return _mp(env[j["s"]], mpmath)
    if "fn" in j:
        a = _ev(j["a"], env, mpmath)
        if a is None:
            return None
        return {"sin": mpmath.sin, "cos": mpmath.cos, "exp": mpmath.exp}[j["fn"]](a)
    for k in ("add", "mul", "pow"):
        if k in j:
            a, b = _ev(j[k][0], env, mpmath), _ev(j[k][1], env, mpmath)
            if a is None or b is None:
                return None
            if k == "add":
                return a + b
            if k == "mul":
                return a * b
            if a == 0 and mpmath.re(b) < 0:
                return None
            return mpmath.power(a, b)
    raise Unsupported(str(j)[:80])


def impl_value(p, pt):
    """(exact Fraction | None, numeric complex | None) of an implementation parameter at the point"""
    sympy, _, _ = _lib()
    if not isinstance(p, sympy.Expr):
        if isinstance(p, (int, float)) and not isinstance(p, bool):
            return (Fraction(p), complex(p))
        return (None, complex(p))
    r = _doit(p.subs(pt))
    if r.is_Rational:
        fr = Fraction(int(r.p), int(r.q))
        return (fr, complex(float(fr)))
    try:
        v = complex(r.evalf())
    except (TypeError, ValueError):
        try:
            v = complex(r.doit().evalf())   # Sum / Integral … with every free symbol given a value
        except (TypeError, ValueError):
            return (None, None)
    if not (math.isfinite(v.real) and math.isfinite(v.imag)):
        return (None, None)
    return (None, v)


def _dep_names(e):
    """names of the symbols the expression depends on, by an explicit walk over the expression tree that knows the
    variable-binding constructs: in Sum / Product / Integral (f, (v, a, b)) the variable v is bound in f (not in a, b),
    in Subs(f, v, p) the variables v are bound in f.  Any other construct that declares bound symbols is unsupported."""
    sympy, _, _ = _lib()
    from sympy.concrete.expr_with_limits import ExprWithLimits
    if isinstance(e, sympy.Symbol):
        if isinstance(e, sympy.Dummy):
            raise Unsupported("Dummy symbol")
        return {_sid(e)}
    if isinstance(e, ExprWithLimits):
        s = set(_dep_names(e.function))
        for lim in e.limits:            # innermost first
            if len(lim) == 1:           # indefinite: the variable stays free
                s |= _dep_names(lim[0])
                continue
            s.discard(_sid(lim[0]))
            for bnd in lim[1:]:
                s |= _dep_names(bnd)
        return s
    if isinstance(e, sympy.Subs):
        s = set(_dep_names(e.expr)) - {_sid(v) for v in e.variables}
        for pnt in e.point:
            s |= _dep_names(pnt)
        return s
    if getattr(e, "bound_symbols", None):
        raise Unsupported("binder " + type(e).__name__)
    s = set()
    for a in e.args:
        s |= _dep_names(a)
    return s


def _sym_names(p):
    """symbols a parameter depends on (sorted names); Python numbers depend on none"""
    sympy, _, _ = _lib()
    if not isinstance(p, sympy.Basic):
        return []
    return sorted(_dep_names(p))


def _doit(e):
    """Sum / Product / Integral whose free symbols all have values: the closed form (evalf would integrate numerically)"""
    sympy, _, _ = _lib()
    if e.has(sympy.Sum, sympy.Product, sympy.Integral):
        try:
            return e.doit()
        except (TypeError, ValueError, NotImplementedError):
            return e
    return e


def _mat_num(M, pt):
    """numeric matrix (list of complex) of a sympy / numpy matrix at the point"""
    sympy, _, _ = _lib()
    if isinstance(M, sympy.MatrixBase):
        M = _doit(M.subs(pt))
        return [complex(M[i, j].evalf()) for i in range(M.shape[0]) for j in range(M.shape[1])]
    return [complex(v) for row in M.tolist() for v in row]


def _mdiff(A, B):
    """relative max-entry difference; None when either matrix is undefined at the point (1/0, …)"""
    if len(A) != len(B):
        return float("inf")
    if not all(math.isfinite(v.real) and math.isfinite(v.imag) for v in A + B):
        return None
    d = max((abs(a - b) for a, b in zip(A, B)), default=0.0)
    s = max([1.0] + [abs(a) for a in A])
    return d / s


def _has_powexp(g):
    _, _, G = _lib()
    while True:
        if isinstance(g, (G.Power, G.Exponential)):
            return True
        if not hasattr(g, "wrapped_gate"):
            return False
        g = g.wrapped_gate


def _custom_wellformed(g):
    """the innermost gate, if custom, gets >= len(ordering) params and its matrix mentions ordered symbols only"""
    _, _, G = _lib()
    while hasattr(g, "wrapped_gate"):
        g = g.wrapped_gate
    if isinstance(g, G.MatrixFactoryGate) and isinstance(g.matrix_factory, G.CustomGateMatrixFactory):
        d = g.matrix_factory.gate_definition
        return len(g.params) >= len(d.params_ordering) and d.matrix.free_symbols <= set(d.params_ordering)
    return True


def _err(e):
    if isinstance(e, NotImplementedError):
        return "err:notimpl"
    if isinstance(e, TypeError):
        return "err:type"
    if isinstance(e, ValueError):
        return "err:value"
    raise e


def _try(f):
    try:
        return f(), None
    except (NotImplementedError, TypeError, ValueError) as e:
        return None, _err(e)


# ---------------------------------------------------------------- observing the implementation
def _point(c):
    sympy = _lib()[0]
    return [{_sym(k): sympy.Rational(Fraction(v).numerator, Fraction(v).denominator) for k, v in pt}
            for pt in c.get("pts", [])]


def _occ(params):
    """sorted names of the symbols the parameters depend on (None when a parameter is outside the walk's grammar)"""
    try:
        return sorted({n for p in params for n in _sym_names(p)})
    except Unsupported:
        return None


def _observe_ops(ops, pts, want_ast=True):
    """per-operation observables of a list of real operations"""
    _, _, G = _lib()
    out = {"free_ops": [[_sid(s) for s in o.free_symbols] for o in ops],
           # the same question asked of the gate itself (GateOperation.free_symbols and Gate.free_symbols are two APIs)
           "free_gates": [[_sid(s) for s in o.gate.free_symbols] if isinstance(o, G.GateOperation) else None for o in ops],
           "occ_ops": [_occ(o.params) for o in ops],
           "py": [[not isinstance(p, _lib()[0].Expr) for p in o.params] for o in ops],
           "qubits": [[int(q) for q in o.qubit_indices] for o in ops],
           "strs": [[str(p) for p in o.params] for o in ops]}
    vals = []
    for pt in pts:
        row = []
        for o in ops:
            r = []
            for p in o.params:
                ex, num = impl_value(p, pt)
                r.append({"x": None if ex is None else _fr(ex), "v": None if num is None else [num.real, num.imag]})
            row.append(r)
        vals.append(row)
    out["vals"] = vals
    if want_ast:
        try:
            out["ops_json"] = [op_json(o, tolerant=True) for o in ops]
        except Unsupported as e:
            out["ops_json"] = None
            out["unsupported"] = str(e)
    return out


def _observe_circuit(c, pts, want_ast=True):
    out = _observe_ops(list(c.operations), pts, want_ast)
    out["free"] = [_sid(s) for s in c.free_symbols]
    out["n"] = int(c.n_qubits)
    return out


def _light(c):
    """the cheap observables of a circuit (used to see that an object did not change behind our back)"""
    ops = list(c.operations)
    return {"free": [_sid(s) for s in c.free_symbols], "free_ops": [[_sid(s) for s in o.free_symbols] for o in ops],
            "strs": [[str(p) for p in o.params] for o in ops], "n": int(c.n_qubits),
            "qubits": [[int(q) for q in o.qubit_indices] for o in ops], "types": [type(o).__name__ for o in ops]}


def _subst(e, m):
    """e (expression / matrix) with the symbols that are KEYS of m – the exact sympy objects, whatever they are called –
    replaced by the values, all at once.  Done with sympy's exact-node replacement (xreplace), which knows no names;
    expressions with variable binders go through subs(simultaneous) instead (it respects bound variables and matches
    exact objects too)."""
    sympy = _lib()[0]
    if not isinstance(e, (sympy.Basic, sympy.MatrixBase)):
        return e
    if e.has(sympy.Sum, sympy.Product, sympy.Integral, sympy.Subs):
        return e.subs(m, simultaneous=True)
    return e.xreplace({k: sympy.sympify(v) for k, v in m.items()})


def _subs_after(p, m):
    return _subst(p, m)


def _innermost(g):
    while hasattr(g, "wrapped_gate"):
        g = g.wrapped_gate
    return g


def _is_custom(g):
    _, _, G = _lib()
    g = _innermost(g)
    return isinstance(g, G.MatrixFactoryGate) and isinstance(g.matrix_factory, G.CustomGateMatrixFactory)


def _base_spec(gs):
    while "g" in gs:
        gs = gs["g"]
    return gs


def _custom_want(gs):
    """the meaning of a custom gate call, computed from the case's own definition (not from the gate object): the
    definition's matrix with the i-th ordered symbol replaced by the i-th argument, simultaneously"""
    sympy = _lib()[0]
    rows, ordering = _custom_spec(gs)
    return _subst(sympy.Matrix([[_expr(e) for e in row] for row in rows]),
                  {_sym(o): a for o, a in zip(ordering, [_param(p) for p in gs["params"]])})


def _total_map(m, pt):
    """m extended to a total map: keys of m get their value evaluated at the point, every other symbol the point's"""
    sympy = _lib()[0]
    tot = dict(pt)
    for k, v in m.items():
        tot[k] = v.subs(pt) if isinstance(v, sympy.Basic) else v
    return tot


def _unitary_checks(circ, bound, m, pt):
    """the circuit matrix at the point, obtained along every route the property equates:
       sym   evaluate symbolically, substitute the map, then the point
       bind  bind the map, evaluate, then substitute the point            (partial binding: mixed numeric/symbolic)
       total bind the map and the point at once, evaluate                 (total binding: numeric)
       step  bind the map, then bind the point, evaluate                  (step-wise total binding: numeric)
    returned: relative max-entry differences to the first route (None = undefined at the point)"""
    sympy = _lib()[0]
    out = {}
    try:
        U = circ.to_unitary()
        Ua = _subst(U, m) if isinstance(U, sympy.MatrixBase) else U
        ref = _mat_num(Ua, pt)
    except (TypeError, ValueError):
        return {"bind": None}
    out["symbolic_route"] = isinstance(U, sympy.MatrixBase)
    tot = _total_map(m, pt)
    for key, f in (("bind", lambda: bound.to_unitary()), ("total", lambda: circ.bind(tot).to_unitary()),
                   ("step", lambda: bound.bind(dict(pt)).to_unitary())):
        try:
            out[key] = _mdiff(ref, _mat_num(f(), pt))
        except (TypeError, ValueError):
            out[key] = None
    return out


def _bare_exact(ops, bops, m):
    """a parameter that IS a key of the map (the exact symbol object) is replaced by exactly the value bound to it –
    no tolerance is involved in looking a symbol up (1e-12 is not 0, 0.5 is not 0.5 + 1e-9, 0 is a value)"""
    sympy = _lib()[0]
    bad = []
    for a, (o, b) in enumerate(zip(ops, bops)):
        for p, q in zip(o.params, b.params):
            if isinstance(p, sympy.Symbol) and p in m:
                v = m[p]
                if not bool(q == v):      # equality of values (1 == 1.0 == Integer(1)), no tolerance
                    bad.append(f"operation {a}: parameter {p} bound to {v!r} became {q!r}")
    return bad


def _observe_bound(c, circ, ops, m, bound, pts, out, unitary):
    """everything the oracle needs about `bound` = circ.bind(m) (m: the values that were bound)"""
    sympy, C, G = _lib()
    ob = _observe_circuit(bound, pts)
    bops = list(bound.operations)
    ob["same_type"] = [type(a) is type(b) for a, b in zip(ops, bops)] if len(ops) == len(bops) else None
    # S1: the same values substituted afterwards
    pt = pts[0] if pts else {}
    pd = []
    for o, b in zip(ops, bops):
        row = []
        for p, q in zip(o.params, b.params):
            a1, a2 = impl_value(_subs_after(p, m), pt)[1], impl_value(q, pt)[1]
            row.append(None if (a1 is None or a2 is None) else abs(a1 - a2) / max(1.0, abs(a1)))
        pd.append(row if len(o.params) == len(b.params) else "len")
    ob["param_diff"] = pd
    ob["bare_exact"] = _bare_exact(ops, bops, m)
    md, cd = [], []
    for k, (o, b, okc) in enumerate(zip(ops, bops, out["custom_ok"])):
        d = dc = None
        if isinstance(o, G.GateOperation) and isinstance(b, G.GateOperation) and okc and c.get("matrix", True):
            try:
                A = _mat_num(_subst(o.gate.matrix, m), pt)
                B = _mat_num(b.gate.matrix, pt)
                d = _mdiff(A, B)
            except (TypeError, ValueError):
                d = None  # undefined at the point (1/0 …)
            spec = _base_spec(c["ops"][k]["g"]) if k < len(c["ops"]) and c["ops"][k].get("op") == "gate" else None
            if spec is not None and spec["k"] == "custom" and _is_custom(b.gate) and pts:
                try:
                    want = _subst(_custom_want(spec), m)
                    dc = _mdiff(_mat_num(want, pt), _mat_num(_innermost(b.gate).matrix, pt))
                except (TypeError, ValueError):
                    dc = None
        md.append(d)
        cd.append(dc)
    ob["matrix_diff"] = md
    ob["custom_diff"] = cd
    if unitary and all(k == "gate" for k in out["kinds"]) and ops and all(out["custom_ok"]) and len(ops) == len(bops):
        u = _unitary_checks(circ, bound, m, pt)
        ob["unitary"] = u
        ob["unitary_diff"] = u.get("bind")
    # S3: what must stay literally untouched
    keys = {_sid(k) for k in m}
    unt = []
    for o, b in zip(ops, bops):
        for p, q in zip(o.params, b.params):
            names = _occ([p])
            if names is not None and not (set(names) & keys):
                unt.append(bool(type(p) is type(q) and p == q))
    ob["untouched_ok"] = unt
    # the other two binding APIs on the same operations: GateOperation.bind / Gate.bind (values of the parameters)
    paths = []
    for o, b in zip(ops, bops):
        alts = [("op.bind", lambda o=o: o.bind(m).params)]
        if isinstance(o, G.GateOperation):
            alts.append(("gate.bind", lambda o=o: o.gate.bind(m).params))
        for name, f in alts:
            ps, err = _try(f)
            if err:
                paths.append(f"{name} raised {err}")
                continue
            if len(ps) != len(b.params):
                paths.append(f"{name} gives {len(ps)} parameters, Circuit.bind {len(b.params)}")
                continue
            for p, q in zip(ps, b.params):
                if type(p) is type(q) and p == q:
                    continue
                a1, a2 = impl_value(p, pt)[1], impl_value(q, pt)[1]
                if a1 is not None and a2 is not None and not close(a1, a2):
                    paths.append(f"{name} gives {p}, Circuit.bind gives {q}")
    ob["paths"] = paths
    return ob


def _bind_and_observe(c, circ, ops, m, pts, out, unitary=False):
    bound, err = _try(lambda: circ.bind(m))
    if err:
        return {"err": err}, None
    return _observe_bound(c, circ, ops, dict(m), bound, pts, out, unitary), bound


def _poison(circ, bound, m_live):
    """edit everything a caller legitimately can after circ.bind(m_live) returned `bound`: the lists / matrices that
    were handed out, and the map that was passed in.  Returns the list of edits that could be made."""
    sympy, C, G = _lib()
    done = []
    for who, obj in (("orig", circ), ("bound", bound)):
        fs = obj.free_symbols
        if isinstance(fs, list):
            fs.append(sympy.Symbol("poison"))
            fs.reverse()
            done.append(who + ".free_symbols")
        for o in obj.operations:
            fo = o.free_symbols
            if isinstance(fo, list):
                fo.insert(0, sympy.Symbol("poison"))
            if isinstance(o, G.GateOperation) and not _has_powexp(o.gate) and o.gate.name != "U3":
                try:
                    M = o.gate.matrix
                    M[0, 0] = 12345
                    done.append(who + ".matrix")
                except (TypeError, ValueError):
                    pass
    for k in list(m_live):
        m_live[k] = 777
    m_live[sympy.Symbol("poison")] = 1
    done.append("map")
    return sorted(set(done))


def _prep(c):
    _DEFS.clear()


def run_impl(c):
    _prep(c)
    try:
        pts = _point(c)
        if c["kind"] == "gate":
            return _run_gate(c, pts)
        if c["kind"] == "hist":
            return _run_hist(c, pts)
        return _run_circuit(c, pts)
    finally:
        _DEFS.clear()


def _circuit_head(c, pts):
    sympy, C, G = _lib()
    circ = _circuit(c)
    out = {"before": _observe_circuit(circ, pts)}
    ops = list(circ.operations)
    out["kinds"] = ["reset" if isinstance(o, C.ResetOperation) else "mp" if isinstance(o, C.MultiPhaseOperation)
                    else ("powexp" if _has_powexp(o.gate) else "gate") for o in ops]
    out["custom_ok"] = [(not isinstance(o, G.GateOperation)) or _custom_wellformed(o.gate) for o in ops]
    return circ, ops, out


def _run_circuit(c, pts):
    sympy, C, G = _lib()
    circ, ops, out = _circuit_head(c, pts)
    m = _map(c["map"])
    pristine = dict(m)
    out["bound"], bound = _bind_and_observe(c, circ, ops, m, pts, out, unitary=c.get("unitary"))
    # per-operation refusals: GateOperation.bind / Gate.bind of every power / exponential operation of the circuit
    if "powexp" in out["kinds"]:
        out["powexp_ops"] = [[k, _try(lambda o=o: o.bind(dict(pristine)))[1], _try(lambda o=o: o.gate.bind(dict(pristine)))[1]]
                             for k, o in enumerate(ops) if out["kinds"][k] == "powexp"]
    if bound is not None:
        bops = list(bound.operations)
        # the SAME map object, as the caller holds it after the call, bound to a witness circuit with one bare gate
        # per entry: every entry the caller put in is still honoured
        if pristine:
            wit = C.Circuit([C.RX(k)(0) for k in pristine])
            wb, werr = _try(lambda: wit.bind(m))
            out["witness"] = [f"raised {werr}"] if werr else _bare_exact(list(wit.operations), list(wb.operations), pristine)
            out["map_intact"] = len(m) == len(pristine) and all(k in m and (m[k] is v or bool(m[k] == v)) for k, v in pristine.items())
        # S4: superfluous entries change nothing
        if c.get("extra"):
            m2 = dict(m)
            m2.update(_map(c["extra"]))
            b2, e2 = _try(lambda: circ.bind(m2))
            out["extra_same"] = (e2 is None and [[bool(type(p) is type(q) and p == q) for p, q in zip(o.params, b.params)]
                                                  for o, b in zip(b2.operations, bops)])
        # S2: step-wise = once
        if c.get("map2") is not None:
            mm2 = _map(c["map2"])
            st, e1 = _try(lambda: bound.bind(mm2))
            merged = dict(m)
            merged.update(mm2)
            on, e2 = _try(lambda: circ.bind(merged))
            out["step"] = {"err": e1} if e1 else _observe_circuit(st, pts)
            out["once"] = {"err": e2} if e2 else _observe_circuit(on, pts)
    if c["kind"] == "chained" and bound is not None:
        out["readings"] = _readings(ops, list(bound.operations), pristine, pts)
    # the circuit that was bound still answers as before
    out["after"] = _light(circ)
    return out


def _readings(ops, bops, m, pts):
    """for a map whose values mention its own keys: does the bound circuit equal the circuit with the values substituted
    SIMULTANEOUSLY, or SEQUENTIALLY in some order of the entries?  {reading: True/False} (values at the points)"""
    import itertools
    out = {}
    items = list(m.items())
    readings = [("simultaneous", None)] + [("sequential " + " then ".join(f"{k}->{v}" for k, v in perm), perm)
                                           for perm in itertools.permutations(items)]
    for name, perm in readings:
        ok = True
        for o, b in zip(ops, bops):
            for p, q in zip(o.params, b.params):
                if perm is None:
                    want = _subst(p, m)
                else:
                    want = p
                    for k, v in perm:
                        want = _subst(want, {k: v})
                for pt in pts:
                    a1, a2 = impl_value(want, pt)[1], impl_value(q, pt)[1]
                    if a1 is not None and a2 is not None and not close(a1, a2):
                        ok = False
        out[name] = ok
    return out


def _run_hist(c, pts):
    """a HISTORY on one long-lived circuit object: it is bound with several maps one after the other (siblings that
    differ in one entry, and the first map once more); optionally everything handed out is edited in between; optionally
    the maps are also applied as partial steps on the results (chain)."""
    sympy, C, G = _lib()
    circ, ops, out = _circuit_head(c, pts)
    out["binds"], out["poisoned"] = [], []
    out["chain"] = []
    m_live = {}     # ONE long-lived dict object, edited between the calls (the usual parameter-update loop)
    for i, ms in enumerate(c["maps"]):
        m = _map(ms)
        m_live.clear()
        m_live.update(m)
        bound, err = _try(lambda: circ.bind(m_live))
        if err:
            out["binds"].append({"err": err})
            continue
        ob = _observe_bound(c, circ, ops, m, bound, pts, out, unitary=bool(c.get("unitary")) and i == len(c["maps"]) - 1)
        if c.get("poison"):
            out["poisoned"].append(_poison(circ, bound, m_live))
            # asked again after the edits: the bound circuit must still be the circuit bound with the ORIGINAL values
            ob["again"] = _observe_bound(c, circ, ops, m, bound, pts, out, unitary=False)
            live = bound.operations
            if isinstance(live, list) and live:
                live.append(live[0])
                live.reverse()
            ob["orig_again"] = _light(circ)
        out["binds"].append(ob)
    if c.get("chain"):
        # partial steps on the results; the free symbols are read between the steps
        merged = {}
        st = circ
        for ms in c["chain"]:
            m = _map(ms)
            merged.update(m)
            st, err = _try(lambda: st.bind(m))
            if err:
                out["chain"].append({"err": err})
                break
            out["chain"].append(_observe_circuit(st, pts, want_ast=False))
        on, e2 = _try(lambda: circ.bind(merged))
        out["chain_once"] = {"err": e2} if e2 else _observe_circuit(on, pts, want_ast=False)
    out["after"] = _light(circ)
    return out


def _obs_gate(h, pts):
    sympy, C, G = _lib()
    o = _observe_ops([h(*range(h.num_qubits))], pts, want_ast=False)
    r = {"free": [_sid(s) for s in h.free_symbols], "free_op": o["free_ops"][0], "occ": o["occ_ops"][0], "py": o["py"][0],
         "vals": [v[0] for v in o["vals"]], "strs": o["strs"][0], "g_json": gate_json(h, tolerant=True)}
    inner = _innermost(h)
    if _is_custom(h):
        M = inner.matrix
        ev_ = []
        for pt in pts:
            ev_.append([[(lambda t: {"x": None if t[0] is None else _fr(t[0]),
                                     "v": None if t[1] is None else [t[1].real, t[1].imag]})(impl_value(M[i, j], pt))
                         for j in range(M.shape[1])] for i in range(M.shape[0])])
        r["entry_vals"] = ev_
    return r


def _gate_bind_obs(c, g, m, pts, out):
    """g.bind(m) observed (m: the values that were bound)"""
    b, err = _try(lambda: g.bind(m))
    if err:
        return {"err": err}, None
    ob = _obs_gate(b, pts)
    pt = pts[0] if pts else {}
    if not out["powexp"] and out["custom_ok"]:
        pd = []
        for p, q in zip(g.params, b.params):
            a1, a2 = impl_value(_subs_after(p, m), pt)[1], impl_value(q, pt)[1]
            pd.append(None if (a1 is None or a2 is None) else abs(a1 - a2) / max(1.0, abs(a1)))
        ob["param_diff"] = pd if len(g.params) == len(b.params) else "len"
        ob["bare_exact"] = _bare_exact([g], [b], m)
        if c.get("matrix", True):
            try:
                ob["matrix_diff"] = _mdiff(_mat_num(_subst(g.matrix, m), pt), _mat_num(b.matrix, pt))
            except (TypeError, ValueError):
                ob["matrix_diff"] = None
    return ob, b


def _run_gate(c, pts):
    sympy, C, G = _lib()
    g, cerr = _try(lambda: _gate(c["g"]))
    if cerr:
        return {"construct": cerr}
    m = _map(c["map"])
    out = {"free": [_sid(s) for s in g.free_symbols], "occ": _occ(g.params),
           "powexp": _has_powexp(g), "custom_ok": _custom_wellformed(g)}
    try:
        out["g_json"] = gate_json(g)
    except Unsupported as e:
        out["g_json"] = None
        out["unsupported"] = str(e)
    base = _base_spec(c["g"])
    if base["k"] == "custom" and out["custom_ok"] and pts:
        try:
            out["custom_diff"] = _mdiff(_mat_num(_custom_want(base), pts[0]), _mat_num(_innermost(g).matrix, pts[0]))
        except (TypeError, ValueError):
            out["custom_diff"] = None
    m_live = dict(m)   # one long-lived dict object for every bind of the case
    out["bound"], b = _gate_bind_obs(c, g, m_live, pts, out)
    # the same question asked of an operation of the gate (GateOperation.bind)
    ob_, oerr = _try(lambda: g(*range(g.num_qubits)).bind(dict(m)))
    out["op_bound"] = {"err": oerr} if oerr else {"strs": [str(p) for p in ob_.params], "qubits_same": tuple(ob_.qubit_indices) == tuple(range(g.num_qubits)),
                                                   "bare_exact": _bare_exact([g], [ob_], m),
                                                   "same_as_gate": b is not None and len(ob_.params) == len(b.params) and all(
                                                       (type(p) is type(q) and p == q) or close(impl_value(p, pts[0] if pts else {})[1], impl_value(q, pts[0] if pts else {})[1])
                                                       for p, q in zip(ob_.params, b.params))}
    # HISTORY on the same gate object: sibling maps, then the first map once more (after editing what was handed out)
    if c.get("more_maps"):
        out["more"] = []
        for ms in list(c["more_maps"]) + [c["map"]]:
            mm = _map(ms)
            m_live.clear()
            m_live.update(mm)
            if b is not None:
                fs = b.free_symbols
                if isinstance(fs, list):
                    fs.append(sympy.Symbol("poison"))
                if not out["powexp"] and _base_spec(c["g"]).get("name") != "U3":
                    try:
                        M = b.matrix
                        M[0, 0] = 12345
                    except (TypeError, ValueError):
                        pass
            ob, b2 = _gate_bind_obs(c, g, m_live, pts, out)
            for k in list(m_live):
                m_live[k] = 777
            if b2 is not None:
                # … and asked again after the map that was passed in has been edited
                ob["free_again"] = [_sid(s) for s in b2.free_symbols]
                ob["strs_again"] = [str(p) for p in b2.params]
            out["more"].append(ob)
        out["free_after"] = [_sid(s) for s in g.free_symbols]
        out["strs_after"] = [str(p) for p in g.params]
    if c.get("new_params") is not None:
        nps = tuple(_param(p) for p in c["new_params"])
        r, err = _try(lambda: g.replace_params(nps))
        out["replaced"] = {"err": err} if err else _obs_gate(r, pts)
        if not err:
            out["replaced"]["given"] = [str(p) for p in nps]
            # GateOperation.replace_params is the same question asked of the operation
            op = g(*range(g.num_qubits))
            r2, err2 = _try(lambda: op.replace_params(nps))
            out["replaced"]["op_strs"] = None if err2 else [str(p) for p in r2.params]
            out["replaced"]["op_qubits_same"] = None if err2 else tuple(r2.qubit_indices) == tuple(op.qubit_indices)
    return out


# ---------------------------------------------------------------- model requests and comparison
def requests(c, out):
    if "exc" in out:
        return []
    try:
        return [(op, payload) for _, op, payload in _plan(c, out)]
    except Unsupported:
        return []


def _mapj(ms):
    return map_json(_map(ms))


def _free_req(tag, o):
    if o and "err" not in o and o.get("ops_json") is not None:
        return [("free:" + tag, "free", {"ops": _patch(o["ops_json"])})]
    return []


def _plan(c, out):
    """[(tag, driver op, payload)] – the model is asked about every bind of the case, each as a fresh computation
    (the model is a pure function: a history on one object is a list of independent questions to it)"""
    pts = c.get("pts", [])
    full = c.get("model", True) and c["kind"] != "chained"    # the model substitutes simultaneously: chained maps are the oracle's
    plan = []
    if c["kind"] == "gate":
        if not full or out.get("construct") or out.get("g_json") is None:
            return []
        req = {"g": out["g_json"], "map": _mapj(c["map"]), "points": pts}
        if c.get("new_params") is not None:
            req["new_params"] = [param_json(_param(p)) for p in c["new_params"]]
        plan.append(("main", "gate", req))
        for i, ms in enumerate(list(c.get("more_maps") or []) + ([c["map"]] if c.get("more_maps") else [])):
            plan.append((f"more:{i}", "gate", {"g": out["g_json"], "map": _mapj(ms), "points": pts}))
        return plan
    before = out["before"]
    supported = full and before.get("ops_json") is not None and not any(_unsup(o) for o in before["ops_json"])
    if not supported:
        # parameters outside the model's grammar: the model still answers for the free-symbol mechanisms
        plan += _free_req("before", before)
    if c["kind"] == "hist":
        for i, ms in enumerate(c["maps"]):
            if supported:
                plan.append((f"bind:{i}", "circuit", {"ops": before["ops_json"], "n": c.get("n") or 0, "map": _mapj(ms), "points": pts}))
            b = out["binds"][i] if i < len(out["binds"]) else None
            plan += _free_req(f"bind:{i}", b)
            plan += _free_req(f"again:{i}", (b or {}).get("again"))
        for k, st in enumerate(out.get("chain") or []):
            plan += _free_req(f"chain:{k}", st)
        return plan
    if supported:
        req = {"ops": before["ops_json"], "n": c.get("n") or 0, "map": _mapj(c["map"]), "points": pts}
        if c.get("map2") is not None and "bound" in out and "err" not in out["bound"]:
            req["map2"] = _mapj(c["map2"])
        plan.append(("main", "circuit", req))
    # the free-symbol mechanisms once more, on the implementation's own bound parameter trees
    for key in ("bound", "step", "once"):
        plan += _free_req(key, out.get(key))
    return plan


def _unsup(j):
    if isinstance(j, dict):
        return "unsupported" in j or any(_unsup(v) for v in j.values())
    if isinstance(j, list):
        return any(_unsup(v) for v in j)
    return False


def _patch(j):
    """parameters outside the model's grammar (pi, E, nan, Sum, …): for the `free` request only the symbols they depend
    on matter, so they are replaced by the sum of the symbols found by the explicit (binder-aware) walk"""
    if isinstance(j, dict):
        if "unsupported" in j:
            if not j["unsupported"]:
                return {"py": "0"}
            if j.get("syms") is None:
                raise Unsupported("symbols unknown")
            out = {"n": "0"}
            for name in j.get("syms", []):
                out = {"add": [out, {"s": name}]}
            return out
        return {k: _patch(v) for k, v in j.items()}
    if isinstance(j, list):
        return [_patch(v) for v in j]
    return j


def _cmp_vals(what, mvals, ivals, mparams, pts):
    """model values (exact or null) against implementation values, point by point"""
    for k, (mrow, irow) in enumerate(zip(mvals, ivals)):
        env = {name: Fraction(v) for name, v in pts[k]}
        for a, (mops, iops) in enumerate(zip(mrow, irow)):
            if len(mops) != len(iops):
                return f"{what}: op {a} has {len(iops)} params, model {len(mops)}"
            for b, (mv, iv) in enumerate(zip(mops, iops)):
                if mv is not None:
                    if iv["x"] is not None:
                        if Fraction(mv) != Fraction(iv["x"]):
                            return f"{what}: op {a} param {b} at point {k}: impl {iv['x']} model {mv} (exact)"
                    elif iv["v"] is not None and not close(float(Fraction(mv)), complex(*iv["v"])):
                        return f"{what}: op {a} param {b} at point {k}: impl {iv['v']} model {mv}"
                else:
                    num = ev(mparams[a][b], env)
                    if num is not None and iv["v"] is not None and not close(num, complex(*iv["v"])):
                        return f"{what}: op {a} param {b} at point {k}: impl {iv['v']} model {num} (numeric)"
    return None


def _cmp_bound(what, mb, ib, pts):
    if isinstance(mb, str) or "err" in ib:
        if mb != ib.get("err"):
            return f"{what}: impl {ib.get('err', 'returned a circuit')} model {mb if isinstance(mb, str) else 'returned a circuit'}"
        return None
    if ib.get("ops_json") is None:
        return None
    # after one bind the Python-number / sympy-expression kind of every parameter must agree; after a second
    # bind it may not: sympy canonicalises between the steps (gamma + 0 -> gamma, then the Symbol overload
    # returns the raw Python value), the model does not – the values are compared below in either case
    kinds = what == "bind"
    if strip(mb["ops"], kinds) != strip(ib["ops_json"], kinds):
        return f"{what}: structure differs: impl {strip(ib['ops_json'], kinds)} model {strip(mb['ops'], kinds)}"
    if mb["n"] != ib["n"]:
        return f"{what}: width impl {ib['n']} model {mb['n']}"
    mparams = [params_of(o) for o in mb["ops"]]
    msg = _cmp_vals(what, mb["vals"], ib["vals"], mparams, pts)
    if msg:
        return msg
    # free symbols: the implementation may report fewer symbols only where sympy cancelled them
    for a, (mf, if_) in enumerate(zip(mb["free_ops"], ib["free_ops"])):
        if not set(if_) <= set(mf):
            return f"{what}: op {a} reports free symbols {if_}, model {mf}"
        for s in set(mf) - set(if_):
            for pt in pts[:2]:
                env = {name: Fraction(v) for name, v in pt}
                env2 = dict(env)
                env2[s] = env.get(s, Fraction(0)) + Fraction(55, 89)
                for p in mparams[a]:
                    v1, v2 = ev(p, env), ev(p, env2)
                    if v1 is not None and v2 is not None and not close(v1, v2):
                        return f"{what}: op {a}: model parameter depends on {s}, implementation does not report it ({if_})"
    return None


def compare(c, out, resp):
    for r in resp:
        if isinstance(r, dict) and "driver_error" in r:
            return "driver error: " + r["driver_error"]
    pts = c.get("pts", [])
    plan = _plan(c, out)
    if len(plan) != len(resp):
        return f"internal: {len(plan)} requests planned, {len(resp)} answered"
    for (tag, _, _), r in zip(plan, resp):
        msg = _compare_one(c, out, tag, r, pts)
        if msg:
            return msg
    return None


def _free_agree(impl_ops, impl_free, model_ops):
    """implementation and model report the same symbols (ids) per operation, and the implementation's circuit list is a
    first-appearance enumeration of them (the order among symbols that print alike within one operation is free;
    the order by printed name is the oracle's business)"""
    if len(impl_ops) != len(model_ops) or any(sorted(a) != sorted(b) for a, b in zip(impl_ops, model_ops)):
        return False
    if impl_free is None:
        return True
    seen, k = set(), 0
    for ops in model_ops:
        new = {x for x in ops if x not in seen}
        if set(impl_free[k:k + len(new)]) != new:
            return False
        seen |= new
        k += len(new)
    return k == len(impl_free)


def _free_target(out, tag):
    key = tag.split(":")
    if key[1] in ("before", "bound", "step", "once"):
        return out[key[1]]
    if key[1] == "bind":
        return out["binds"][int(key[2])]
    if key[1] == "again":
        return out["binds"][int(key[2])]["again"]
    if key[1] == "chain":
        return out["chain"][int(key[2])]
    raise AssertionError(tag)


def _compare_one(c, out, tag, r, pts):
    if c["kind"] == "gate":
        if tag == "main":
            return _compare_gate(c, out, r, pts, ("bound", "replaced"), out)
        i = int(tag.split(":")[1])
        return _compare_gate(c, out, r, pts, ("bound",), {"bound": out["more"][i], "free": out["free"]}, what=f"bind #{i + 2} on the same gate: ")
    if tag.startswith("free:"):
        o = _free_target(out, tag)
        if not _free_agree(o["free_ops"], o["free"], r["free_ops"]):
            return (f"free symbols of the {tag[5:]} circuit: impl {o['free_ops']} / {o['free']}, "
                    f"model on the same parameter trees {r['free_ops']} / {r['free']}")
        return None
    b = out["before"]
    if not _free_agree(b["free_ops"], b["free"], r["free_ops"]) or b["n"] != r["n"]:
        return f"before bind: impl free_ops {b['free_ops']} free {b['free']} n {b['n']}; model {r['free_ops']} {r['free']} {r['n']}"
    if tag.startswith("bind:"):
        i = int(tag.split(":")[1])
        ib = out["binds"][i]
        msg = _cmp_bound("bind", r["bound"], ib, pts)
        if not msg and "again" in ib:
            msg = _cmp_bound("bind", r["bound"], ib["again"], pts)
        return msg and f"bind #{i + 1} on the same circuit object: {msg}"
    msg = _cmp_bound("bind", r["bound"], out["bound"], pts)
    if msg:
        return msg
    if "step" in r:
        if r["step"] != r["once"] and (isinstance(r["step"], str) or isinstance(r["once"], str)
                                       or [params_of(o) for o in r["step"]["ops"]] != [params_of(o) for o in r["once"]["ops"]]):
            return f"model: step-wise {r['step']} differs from once {r['once']}"
        for key in ("step", "once"):
            msg = _cmp_bound(key, r[key], out[key], pts)
            if msg:
                return msg
    return None


def _compare_gate(c, out, r, pts, keys, obs, what=""):
    msg = _compare_gate_(c, out, r, pts, keys, obs)
    return msg and what + msg


def _compare_gate_(c, out, r, pts, keys, obs):
    if sorted(out["free"]) != sorted(r["free"]):
        return f"gate free symbols: impl {out['free']} model {r['free']}"
    for key in keys:
        if key not in obs:
            continue
        ib, mb = obs[key], r[key]
        if isinstance(mb, str) or "err" in ib:
            if mb != ib.get("err"):
                return f"{key}: impl {ib.get('err', 'returned a gate')} model {mb if isinstance(mb, str) else 'returned a gate'}"
            continue
        if strip(mb["g"]) != strip(ib["g_json"]):
            return f"{key}: structure differs: impl {strip(ib['g_json'])} model {strip(mb['g'])}"
        mparams = [params_of(mb["g"])]
        msg = _cmp_vals(key, mb["vals"], [[v] for v in ib["vals"]], mparams, pts)
        if msg:
            return msg
        if not set(ib["free"]) <= set(mb["free"]):
            return f"{key}: impl free {ib['free']} model {mb['free']}"
        if key == "replaced" and sorted(ib["free"]) != sorted(mb["free"]):
            return f"replaced: impl free {ib['free']} model {mb['free']}"
        if key == "replaced" and (ib.get("op_strs") != ib["strs"] or not ib.get("op_qubits_same")):
            return (f"replaced: GateOperation.replace_params gives parameters {ib.get('op_strs')} (qubits kept: "
                    f"{ib.get('op_qubits_same')}), Gate.replace_params {ib['strs']}")
        if "entry_vals" in ib:
            if "entry_vals" not in mb:
                return f"{key}: implementation has a custom matrix, model has none"
            for k, (mm, im) in enumerate(zip(mb["entry_vals"], ib["entry_vals"])):
                env = {name: Fraction(v) for name, v in pts[k]}
                for i, (mrow, irow) in enumerate(zip(mm, im)):
                    for j2, (mv, iv) in enumerate(zip(mrow, irow)):
                        if mv is not None and iv["x"] is not None:
                            if Fraction(mv) != Fraction(iv["x"]):
                                return f"{key}: custom matrix entry ({i},{j2}) at point {k}: impl {iv['x']} model {mv}"
                        else:
                            num = float(Fraction(mv)) if mv is not None else ev(mb["entries"][i][j2], env)
                            if num is not None and iv["v"] is not None and not close(num, complex(*iv["v"])):
                                return f"{key}: custom matrix entry ({i},{j2}) at point {k}: impl {iv['v']} model {num}"
    return None


# ---------------------------------------------------------------- the property's own sentences, on the implementation only
def _first_appearance(lists):
    seen, out = set(), []
    for l in lists:
        for s in l:
            if s not in seen:
                seen.add(s)
                out.append(s)
    return out


def _in_domain(c):
    maps = [c.get("map") or [], c.get("map2") or [], c.get("extra") or []] + list(c.get("maps") or []) \
        + list(c.get("chain") or []) + list(c.get("more_maps") or [])
    keys = {k for m in maps for k, _ in m}
    for m in maps:
        for _, v in m:
            if "e" in v and set(_idents(v["e"])) & keys:
                return False
    return True


def _free_exact(reported, occ):
    """the reported list holds exactly the symbols (ids: look-alikes are different symbols) the parameters depend on, once
    each, ordered by printed name (the order among symbols that print alike is not determined)"""
    names = [_pname(x) for x in reported]
    return sorted(reported) == sorted(set(occ)) and names == sorted(names)


def _check_free(what, o):
    """S5/S6 on one observed circuit"""
    for a, (rep, occ) in enumerate(zip(o["free_ops"], o["occ_ops"])):
        if occ is not None and not _free_exact(rep, occ):
            return ("free-symbols-op", f"{what}: operation {a} reports free symbols {rep}, its parameters {o['strs'][a]} depend on {occ}")
        fg = (o.get("free_gates") or [None] * (a + 1))[a]
        if occ is not None and fg is not None and not _free_exact(fg, occ):
            return ("free-symbols-op", f"{what}: the gate of operation {a} reports free symbols {fg}, its parameters {o['strs'][a]} depend on {occ}")
    want = _first_appearance(o["free_ops"])
    if o["free"] != want:
        return ("free-symbols-order", f"{what}: circuit reports {o['free']}, first-appearance order of the operations' symbols is {want}")
    if any(occ is None for occ in o["occ_ops"]):
        return None
    if (len(o["free"]) == 0) != all(len(x) == 0 for x in o["occ_ops"]):
        return ("free-symbols-empty", f"{what}: circuit free symbols {o['free']} but parameters depend on {o['occ_ops']}")
    return None


def _check_same(what, before, now):
    """an object that was not rebound still answers as before (free symbols, parameters, width, qubits)"""
    for key in ("free", "free_ops", "strs", "n", "qubits"):
        if before[key] != now[key]:
            return ("history-changes-original", f"{what}: {key} was {before[key]}, is now {now[key]}")
    return None


def _check_bound(what, c, out, b, ms):
    """every sentence about ONE bind outcome b = observation of circ.bind(ms)"""
    kinds = out["kinds"]
    if "powexp" in kinds:
        # the first exception wins; nothing before a power/exponential gate may raise, so it is the refusal
        if b.get("err") != "err:notimpl":
            return ("powexp-bind-not-refused", f"{what}: a power/exponential gate was bound: outcome {b.get('err', 'a circuit')} instead of NotImplementedError")
        for k, e_op, e_gate in out.get("powexp_ops") or []:
            if e_op != "err:notimpl" or e_gate != "err:notimpl":
                return ("powexp-bind-not-refused", f"{what}: operation {k} wraps a power/exponential gate: GateOperation.bind -> "
                                                   f"{e_op or 'an operation'}, Gate.bind -> {e_gate or 'a gate'} instead of NotImplementedError")
        return None
    if "err" in b:
        if "reset" in kinds:
            # regression of the defect fixed by ddf37fe (dataclasses.replace called ResetOperation(params=...))
            return ("reset-bind-typeerror" if b["err"] == "err:type" else "reset-bind-raises",
                    f"{what}: binding a circuit containing a ResetOperation raised {b['err']}; non-gate operations must bind like gates "
                    f"(ResetOperation has no parameters, so the bound operation is a reset of the same qubit)")
        return ("bind-raises", f"{what}: bind raised {b['err']} on a circuit of bindable operations")
    if b["n"] != out["before"]["n"] or b["qubits"] != out["before"]["qubits"] or b["same_type"] is None or not all(b["same_type"]):
        return ("bind-shape", f"{what}: bound circuit has width {b['n']} / qubits {b['qubits']}, original {out['before']['n']} / {out['before']['qubits']}")
    for a, row in enumerate(b["param_diff"]):
        if row == "len" or any(d is not None and d > TOL for d in row):
            return ("bind-param-value", f"{what}: operation {a}: bound parameters {b['strs'][a]} differ from substituting {ms} afterwards (rel. diff {row})")
    if b.get("bare_exact"):
        return ("bind-param-value", f"{what}: {b['bare_exact'][0]} (map {ms})")
    for a, d in enumerate(b["matrix_diff"]):
        if d is not None and not d <= 1e-8:
            return ("bind-matrix", f"{what}: operation {a}: matrix of the bound gate differs from the substituted symbolic matrix by {d}")
    for a, d in enumerate(b.get("custom_diff") or []):
        if d is not None and not d <= 1e-8:
            return ("custom-positional", f"{what}: operation {a}: matrix of the bound custom gate differs from the definition's matrix with "
                                         f"the ordered symbols replaced by the (bound) arguments position by position (rel. diff {d})")
    u = b.get("unitary") or {}
    names = {"bind": "binding the map and evaluating", "total": "binding the map and the point at once (numeric evaluation)",
             "step": "binding the map, then the point (numeric evaluation)"}
    for key in ("bind", "total", "step"):
        if u.get(key) is not None and not u[key] <= 1e-8:
            return ("bind-unitary", f"{what}: circuit matrix obtained by {names[key]} differs from the symbolic circuit matrix with "
                                    f"the same values substituted afterwards by {u[key]}")
    if not all(b["untouched_ok"]):
        return ("bind-touches-absent", f"{what}: a numeric parameter or a parameter without bound symbols was changed by bind")
    if b.get("paths"):
        return ("bind-paths-differ", f"{what}: {b['paths'][0]}")
    return _check_free(what, b)


def oracle(c, out):
    if "exc" in out:
        return ("unexpected-exception", f"the implementation raised {out['exc']}: {out.get('msg')}")
    if c["kind"] == "chained":
        res = _check_free("before bind", out["before"])
        if res:
            return res
        if "err" in out["bound"]:
            return ("bind-raises", f"bind raised {out['bound']['err']} on a circuit of bindable operations")
        if not any(out["readings"].values()):
            return ("chained-map-bare-vs-compound",
                    f"map {c['map']} (values mention keys of the map): the bound parameters {out['bound']['strs']} of "
                    f"{out['before']['strs']} equal neither the simultaneous substitution nor a sequential substitution in any "
                    f"order of the entries – bare-symbol parameters are looked up once, compound parameters go through sympy's "
                    f"sequential subs")
        return _check_free("after bind", out["bound"])
    if not _in_domain(c):
        return None
    if c["kind"] == "gate":
        return _oracle_gate(c, out)
    res = _check_free("before bind", out["before"])
    if res:
        return res
    if c["kind"] == "hist":
        return _oracle_hist(c, out)
    b = out["bound"]
    res = _check_bound("bind", c, out, b, c["map"])
    if res or "powexp" in out["kinds"]:
        return res
    if "extra_same" in out and (out["extra_same"] is False or not all(all(r) for r in out["extra_same"])):
        return ("bind-extra", "superfluous map entries changed the bound circuit")
    if out.get("witness") and not out.get("map_intact"):
        return ("bind-edits-map", f"circuit.bind(map) changed the caller's map object (map {c['map']}); bound once more, to a witness circuit "
                                  f"[RX(k) for k in map]: {out['witness'][0]} – bind must ignore superfluous entries, not remove / change them")
    if out.get("witness"):
        return ("bind-param-value", f"the same map object (map {c['map']}) bound to a second circuit [RX(k) for k in map] right after: {out['witness'][0]}")
    if "step" in out:
        res = _check_steps(out["step"], out["once"])
        if res:
            return res
    return _check_same("the circuit that was bound", out["before"], out["after"])


def _check_steps(st, on, what=""):
    if "err" in st or "err" in on:
        return ("bind-step-raises", f"{what}step-wise bind {st.get('err')} / bind once {on.get('err')}")
    for key, o in ((what + "step-wise", st), (what + "once", on)):
        res = _check_free(key, o)
        if res:
            return res
    if st["n"] != on["n"] or st["qubits"] != on["qubits"]:
        return ("bind-step", f"{what}step-wise binding gives width {st['n']} / qubits {st['qubits']}, binding once {on['n']} / {on['qubits']}")
    for k, (r1, r2) in enumerate(zip(st["vals"], on["vals"])):
        for a, (o1, o2) in enumerate(zip(r1, r2)):
            for p1, p2 in zip(o1, o2):
                v1 = None if p1["v"] is None else complex(*p1["v"])
                v2 = None if p2["v"] is None else complex(*p2["v"])
                if v1 is not None and v2 is not None and not close(v1, v2):
                    return ("bind-step", f"{what}operation {a}: step-wise {st['strs'][a]} differs from once {on['strs'][a]}")
    return None


def _oracle_hist(c, out):
    for i, (ms, b) in enumerate(zip(c["maps"], out["binds"])):
        what = f"bind #{i + 1} of {len(c['maps'])} on the same circuit object (map {ms})"
        res = _check_bound(what, c, out, b, ms)
        if res:
            return res
        if "again" in b:
            res = _check_bound(what + ", asked again after editing the returned lists / matrices and the map that was passed", c, out, b["again"], ms)
            if res:
                return res
            res = _check_same(what + ": the circuit that was bound, after editing what it handed out", out["before"], b["orig_again"])
            if res:
                return res
    if "powexp" not in out["kinds"] and out.get("chain"):
        for k, st in enumerate(out["chain"]):
            if "err" in st:
                return ("bind-step-raises", f"partial step {k + 1} raised {st['err']}")
            res = _check_free(f"after partial step {k + 1}", st)
            if res:
                return res
        res = _check_steps(out["chain"][-1], out["chain_once"], what=f"{len(out['chain'])} partial steps: ")
        if res:
            return res
    return _check_same("the circuit that was bound", out["before"], out["after"])


def _oracle_gate_bound(what, out, b, ms):
    if out["powexp"]:
        if b.get("err") != "err:notimpl":
            return ("powexp-bind-not-refused", f"{what}: a power/exponential gate was bound: outcome {b.get('err', 'a gate')} instead of NotImplementedError")
        return None
    if "err" in b:
        return ("bind-raises", f"{what}: Gate.bind raised {b['err']}")
    if b["occ"] is not None:
        for key, api in (("free", "bound gate"), ("free_op", "operation of the bound gate")):
            if not _free_exact(b[key], b["occ"]):
                return ("free-symbols-op", f"{what}: {api} reports {b[key]}, its parameters {b['strs']} depend on {b['occ']}")
    if b.get("bare_exact"):
        return ("bind-param-value", f"{what}: {b['bare_exact'][0].replace('operation 0: ', '')} (map {ms})")
    pd = b.get("param_diff")
    if pd == "len" or (pd and any(d is not None and d > TOL for d in pd)):
        return ("bind-param-value", f"{what}: bound parameters {b['strs']} differ from substituting {ms} afterwards (rel. diff {pd})")
    d = b.get("matrix_diff")
    if d is not None and not d <= 1e-8:
        return ("bind-matrix", f"{what}: matrix of the bound gate differs from the substituted symbolic matrix by {d}")
    if "free_again" in b and b["occ"] is not None and (not _free_exact(b["free_again"], b["occ"]) or b["strs_again"] != b["strs"]):
        return ("bind-aliases-map", f"{what}: after the map that was passed to bind has been edited the bound gate reports free symbols "
                                    f"{b['free_again']} / parameters {b['strs_again']} (before: {b['free']} / {b['strs']})")
    return None


def _oracle_gate(c, out):
    if out.get("construct"):
        return None  # the gate of the case cannot be built (e.g. power over free symbols): nothing to bind
    if out["occ"] is not None and not _free_exact(out["free"], out["occ"]):
        return ("free-symbols-op", f"gate reports free symbols {out['free']}, its parameters depend on {out['occ']}")
    if out.get("custom_diff") is not None and not out["custom_diff"] <= 1e-8:
        return ("custom-positional", f"custom gate matrix differs from the definition's matrix with the ordered symbols "
                                     f"replaced by the arguments position by position (rel. diff {out['custom_diff']})")
    if out["powexp"] and out["free"]:
        return ("powexp-free-symbols", f"a power/exponential gate has free symbols {out['free']}")
    res = _oracle_gate_bound("bind", out, out["bound"], c["map"])
    if res:
        return res
    ob = out.get("op_bound")
    if ob is not None:
        if out["powexp"]:
            if ob.get("err") != "err:notimpl":
                return ("powexp-bind-not-refused", f"GateOperation.bind of a power/exponential gate: outcome {ob.get('err', 'an operation')} instead of NotImplementedError")
        elif "err" in ob:
            return ("bind-raises", f"GateOperation.bind raised {ob['err']}")
        elif ob["bare_exact"] or not ob["same_as_gate"] or not ob["qubits_same"]:
            return ("bind-paths-differ", f"GateOperation.bind gives parameters {ob['strs']} (qubits kept: {ob['qubits_same']}), Gate.bind {out['bound'].get('strs')}")
    if "more" in out:
        seq = list(c["more_maps"]) + [c["map"]]
        for i, (ms, b) in enumerate(zip(seq, out["more"])):
            res = _oracle_gate_bound(f"bind #{i + 2} of {len(seq) + 1} on the same gate object (map {ms})", out, b, ms)
            if res:
                return res
        if sorted(out["free_after"]) != sorted(out["free"]):
            return ("history-changes-original", f"the gate that was bound reported free symbols {out['free']}, now {out['free_after']}")
    return None


# ---------------------------------------------------------------- generators
def _idents(s):
    return [t for t in re.findall(r"[A-Za-z_][A-Za-z_0-9]*", s) if t not in FUNCS]


def _num_str(rng, allow_zero=False):
    k = rng.random()
    if k < 0.5:
        v = rng.choice([1, 2, 3, 4, 5, -1, -2, -3] + ([0] if allow_zero else []))
        return str(v)
    return f"({rng.choice([1, 3, 5, -1, -3, 7])}/{rng.choice([2, 3, 4, 5, 8])})"


def gen_expr(rng, syms, depth, poly=False):
    if depth <= 0 or rng.random() < 0.2:
        return rng.choice(syms) if rng.random() < 0.75 else _num_str(rng)
    k = rng.random()
    a = gen_expr(rng, syms, depth - 1, poly)
    if k < 0.3:
        return f"({a} + {gen_expr(rng, syms, depth - 1, poly)})"
    if k < 0.4:
        return f"({a} - {gen_expr(rng, syms, depth - 1, poly)})"
    if k < 0.65:
        return f"({a}*{gen_expr(rng, syms, depth - 1, poly)})"
    if k < 0.72:
        return f"({a})**{rng.choice([2, 3])}"
    if k < 0.8:
        return f"({a}/{rng.choice(syms)})" if not poly else f"({_num_str(rng)}*{a})"
    if poly:
        return f"({_num_str(rng)}*{a} + {_num_str(rng)})"
    if k < 0.88:
        return f"sin({a})"
    if k < 0.94:
        return f"cos({a})"
    if k < 0.97:
        return f"exp({rng.choice(syms) if rng.random() < 0.8 else _num_str(rng)})"
    return f"({a})**(-1)"


def gen_param(rng, syms, poly=False, symbolic=None):
    k = rng.random()
    if symbolic is False or (symbolic is None and k < 0.18):
        return {"py": rng.choice(["1", "2", "-1", "0", "1/2", "3/4", "-3/2", "5/8"])}
    if symbolic is None and k < 0.26:
        return {"e": _num_str(rng, True).strip("()")}
    if k < 0.42:
        return {"e": rng.choice(syms)}
    return {"e": gen_expr(rng, syms, rng.choice([1, 2, 2, 3]), poly)}


def gen_base_gate(rng, syms, poly, symbolic=None, max_q=2):
    k = rng.random()
    if k < 0.12:
        names = [n for n in NONPARAM if NQ.get(n, 1) <= max_q]
        return {"k": "mf", "name": rng.choice(names), "params": []}, 1
    if k < 0.62:
        names = [n for n in PARAM1 if NQ.get(n, 1) <= max_q]
        return {"k": "mf", "name": rng.choice(names), "params": [gen_param(rng, syms, poly, symbolic)]}, 1
    if k < 0.7 and max_q >= 2:
        return {"k": "mf", "name": "MS", "params": [gen_param(rng, syms, poly, symbolic) for _ in range(2)]}, 2
    if k < 0.75:
        # u3_matrix calls simplify(): keep its parameters small (atoms, a*s + b)
        def small():
            r = rng.random()
            if symbolic is False or r < 0.2:
                return {"py": rng.choice(["1", "-1", "1/2", "3/4"])}
            if r < 0.6:
                return {"e": rng.choice(syms)}
            return {"e": f"{_num_str(rng)}*{rng.choice(syms)} + {_num_str(rng)}"}
        return {"k": "mf", "name": "U3", "params": [small() for _ in range(3)]}, 3
    name = rng.choice([n for n in CUSTOM if len(CUSTOM[n]["matrix"]) <= 2 ** max_q])
    n = len(CUSTOM[name]["ord"])
    csyms = syms + (["theta", "gamma"] if name == "U2" else [])
    return {"k": "custom", "name": name, "params": [gen_param(rng, csyms, poly, symbolic) for _ in range(n)]}, n


def _nq(gs):
    if gs["k"] == "mf":
        return NQ.get(gs["name"], 1)
    if gs["k"] == "custom":
        return {2: 1, 4: 2}[len(_custom_spec(gs)[0])]
    return _nq(gs["g"]) + (gs["n"] if gs["k"] == "ctrl" else 0)


def gen_gate(rng, syms, poly, max_q=3, powexp=False):
    g, _ = gen_base_gate(rng, syms, poly, symbolic=False if powexp else None, max_q=min(max_q, 2))
    depth = rng.choice([0, 0, 1, 1, 2, 3])
    wrappers = []
    for _ in range(depth):
        wrappers.append(rng.choice(["ctrl", "dag", "dag", "ctrl"]))
    if powexp:
        wrappers.insert(rng.randrange(len(wrappers) + 1), rng.choice(["pow", "exp"]))
    for w in wrappers:
        if w == "ctrl":
            n = rng.choice([1, 1, 2])
            if _nq(g) + n > max_q:
                continue
            g = {"k": "ctrl", "g": g, "n": n, "raw": rng.random() < 0.25}
        elif w == "dag":
            g = {"k": "dag", "g": g, "raw": rng.random() < 0.25}
        elif w == "pow":
            g = {"k": "pow", "g": g, "e": rng.choice(["2", "1/2", "-1", "3", "1/4"])}
        else:
            g = {"k": "exp", "g": g}
    return g


def _case_syms(c):
    out = []

    def walk(j):
        if isinstance(j, dict):
            if "e" in j and isinstance(j["e"], str):
                out.extend(_idents(j["e"]))
            for v in j.values():
                walk(v)
        elif isinstance(j, list):
            for v in j:
                walk(v)

    walk(c.get("ops", c.get("g")))
    return sorted(set(out))


def _case_groups(c):
    """the symbol sets of the individual expression parameters of a case"""
    out = []

    def walk(j):
        if isinstance(j, dict):
            if "e" in j and isinstance(j["e"], str):
                out.append(sorted(set(_idents(j["e"]))))
            for v in j.values():
                walk(v)
        elif isinstance(j, list):
            for v in j:
                walk(v)

    walk(c.get("ops", c.get("g")))
    return out


def gen_maps(rng, used, poly, two=False, groups=()):
    """(map, map2, extra): values never mention any key of any of the three"""
    used = list(used)
    style = rng.choice(["partial", "partial", "partial", "partial", "total", "empty", "superfluous", "mixed"])
    if style == "total":
        keys = list(used)
    elif style in ("empty", "superfluous"):
        keys = []
    else:
        multi = [g for g in groups if len(g) >= 2]
        if multi and rng.random() < 0.8:
            # split one multi-symbol parameter: bind some of its symbols, leave at least one free
            g = list(rng.choice(multi))
            rng.shuffle(g)
            inside = g[:rng.randrange(1, len(g))]
            keep_free = g[len(inside):]
            keys = inside + [s for s in used if s not in g and rng.random() < 0.4]
            keys = [k for k in keys if k not in keep_free]
        else:
            keys = [s for s in used if rng.random() < 0.5]
            if used and not keys:
                keys = [rng.choice(used)]
            if len(keys) == len(used) and len(used) > 1:
                keys = keys[:-1]
    rng.shuffle(keys)
    others = [s for s in SYMS if s not in used]
    extra_keys = rng.sample(others, rng.choice([1, 2])) if style in ("superfluous", "mixed") or rng.random() < 0.3 else []
    keys2 = []
    if two:
        rest = [s for s in used if s not in keys]
        keys2 = [s for s in rest if rng.random() < 0.6]
    allkeys = set(keys) | set(extra_keys) | set(keys2)
    free_for_values = [s for s in SYMS if s not in allkeys]

    def value():
        k = rng.random()
        if k < 0.3:
            return {"py": rng.choice(["1", "2", "-1", "3", "0"] + ([] if poly else ["1/2", "3/4", "-3/2", "1/8"]))}
        if k < 0.55:
            return {"e": rng.choice(["1/2", "2/3", "-3/4", "5", "7/5", "-2"])}
        if k < 0.8:
            return {"e": rng.choice(free_for_values)}
        return {"e": gen_expr(rng, free_for_values, rng.choice([1, 2]), poly)}

    m = [[k, value()] for k in keys]
    extra = [[k, value()] for k in extra_keys]
    m2 = [[k, value()] for k in keys2] if two else None
    return m, m2, extra


def gen_points(rng, names, n=2):
    names = list(dict.fromkeys(names))
    pts = []
    for _ in range(n):
        pts.append([[s, _fr(Fraction(rng.choice([1, 2, 3, 5, 7, -1, -2, -3, -5, 4]), rng.choice([1, 2, 3, 5, 7])))]
                    for s in names])
    return pts


def gen_circuit_case(rng, big, u3=True):
    poly = rng.random() < 0.5
    nsym = rng.choice([2, 3, 3, 4, 5])
    syms = rng.sample(SYMS, nsym)
    width = rng.choice([1, 2, 2, 3]) if big else rng.choice([1, 2, 2, 2, 3])
    nops = rng.choice([1, 2, 3, 3, 4, 5]) if big else rng.choice([1, 2, 2, 3, 4])
    ops = []
    for _ in range(nops):
        k = rng.random()
        if k < 0.1:
            n = rng.choice([1, 2]) if width >= 2 else 1
            ops.append({"op": "mp", "params": [gen_param(rng, syms, poly) for _ in range(2 ** n)]})
            continue
        for _try_ in range(6):
            g = gen_gate(rng, syms, poly, max_q=width)
            if _nq(g) <= width and (u3 or _base_spec(g).get("name") != "U3"):
                break
        else:
            g = {"k": "mf", "name": "RX", "params": [gen_param(rng, syms, poly)]}
        ops.append({"op": "gate", "g": g, "q": rng.sample(range(width), _nq(g))})
    c = {"kind": "circuit", "ops": ops, "n": rng.choice([None, None, width, width + 1])}
    used = _case_syms(c)
    two = rng.random() < 0.5
    m, m2, extra = gen_maps(rng, used, poly, two, _case_groups(c))
    if extra and rng.random() < 0.5:
        c["map"] = m + extra          # superfluous entries inside the map itself
    else:
        c["map"] = m
        if extra:
            c["extra"] = extra        # … or as a separate "same result with and without them" check
    if m2 is not None:
        c["map2"] = m2
    c["pts"] = gen_points(rng, SYMS)
    c["unitary"] = (width <= 2 and rng.random() < (0.5 if big else 0.25)) or (big and width == 3 and rng.random() < 0.05)
    return c


def gen_gate_case(rng, big):
    poly = rng.random() < 0.5
    syms = rng.sample(SYMS, rng.choice([2, 3, 4]))
    powexp = rng.random() < 0.3
    g = gen_gate(rng, syms, poly, max_q=2 if powexp else 3, powexp=powexp)
    c = {"kind": "gate", "g": g}
    used = _case_syms(c)
    m, _, extra = gen_maps(rng, used or syms[:1], poly, False, _case_groups(c))
    c["map"] = m + extra
    if rng.random() < 0.6:
        base = g
        while "g" in base:
            base = base["g"]
        npar = len(base["params"])
        sym = False if (powexp and rng.random() < 0.7) else None
        c["new_params"] = [gen_param(rng, syms, poly, sym) for _ in range(rng.choice([npar, npar, npar, npar + 1, max(0, npar - 1)]))]
    c["pts"] = gen_points(rng, SYMS)
    if rng.random() < 0.3 and _base_spec(g).get("name") != "U3":
        # a history on the same gate object: sibling maps, then the first map once more
        sibs = [gen_sibling(rng, c["map"], used or syms[:1], [c["map"]])]
        if rng.random() < 0.4:
            sibs.append(gen_sibling(rng, sibs[0], used or syms[:1], [c["map"]] + sibs))
        c["more_maps"] = sibs
    return c


# ---------------------------------------------------------------- new case kinds (classes of history / shape dependent behaviour)
NUMVALS = ["1", "2", "-1", "3", "0", "1/2", "3/4", "-3/2", "1/8", "5/4"]


def _numeric_value(rng, poly=False):
    if rng.random() < 0.55:
        return {"py": rng.choice(NUMVALS[:5] if poly else NUMVALS)}
    return {"e": rng.choice(["1/2", "2/3", "-3/4", "5", "7/5", "-2", "1/3"])}


def _maps_value_syms(maps):
    out = set()
    for m in maps:
        for _, v in m:
            if "e" in v:
                out |= set(_idents(v["e"]))
    return out


def gen_sibling(rng, m, used, maps, poly=False):
    """a map that differs from m in exactly one component (one value changed / one entry dropped / one entry added /
    one value replaced by an equal number of another type); values are numeric, so no value mentions a key"""
    m = [[k, dict(v)] for k, v in m]
    mentioned = _maps_value_syms(maps + [m])
    keys = {k for k, _ in m}
    addable = [s for s in list(used) + [s for s in SYMS if s not in used][:2] if s not in keys and s not in mentioned]
    how = rng.choice(["value", "value", "value", "drop", "add", "retype"])
    if how in ("value", "retype", "drop") and not m:
        how = "add"
    if how == "add" and not addable:
        how = "value" if m else None
    if how is None:
        return m
    if how == "value":
        i = rng.randrange(len(m))
        old = m[i][1]
        for _ in range(8):
            new = _numeric_value(rng, poly)
            if new != old:
                break
        m[i][1] = new
    elif how == "retype":
        i = rng.randrange(len(m))
        v = m[i][1]
        m[i][1] = {"e": v["py"]} if "py" in v else ({"py": v["e"]} if re.fullmatch(r"-?\d+(/\d+)?", v["e"]) else _numeric_value(rng, poly))
    elif how == "drop":
        m.pop(rng.randrange(len(m)))
    else:
        m.insert(rng.randrange(len(m) + 1), [rng.choice(addable), _numeric_value(rng, poly)])
    return m


def gen_hist_case(rng, big):
    base = gen_circuit_case(rng, big, u3=False)
    used = _case_syms(base)
    m1 = base["map"]
    maps = [m1]
    for _ in range(rng.choice([1, 1, 2])):
        maps.append(gen_sibling(rng, maps[-1] if rng.random() < 0.5 else m1, used, maps))
    maps.append([[k, dict(v)] for k, v in m1])          # the first question once more
    c = {"kind": "hist", "ops": base["ops"], "n": base["n"], "maps": maps, "pts": base["pts"],
         "poison": rng.random() < 0.6, "unitary": base["unitary"]}
    if rng.random() < 0.5:
        # the same symbols bound one (or two) at a time on the results, numeric values only
        keys = [s for s in used if s not in _maps_value_syms(maps)]
        rng.shuffle(keys)
        keys = keys[:rng.choice([2, 3])]
        if keys:
            steps, i = [], 0
            while i < len(keys):
                n = rng.choice([1, 1, 2])
                steps.append([[k, _numeric_value(rng)] for k in keys[i:i + n]])
                i += n
            c["chain"] = steps
    return c


MIX1 = ["RX", "RY", "RZ", "RH", "PHASE", "GPi", "GPi2"]
MIX2 = ["CPHASE", "XX", "YY", "ZZ", "XY"]
MIXF1 = ["H", "X", "Y", "S", "T", "SX", "Z"]
MIXF2 = ["CNOT", "SWAP", "ISWAP", "CZ"]


def gen_mixed_case(rng, big):
    """circuits whose operations are a MIX of numeric and symbolic gates – before binding (Python-number parameters,
    parameter-free gates) and after it (partial maps that turn runs of neighbouring gates numeric) – on few qubits with
    many non-commuting neighbours; the circuit matrix is evaluated along every route (symbolic, mixed, numeric)"""
    width = rng.choice([1, 1, 2, 2, 2, 3]) if big else rng.choice([1, 1, 2, 2, 2])
    syms = rng.sample(SYMS, rng.choice([2, 3, 3, 4]))
    nops = rng.choice([3, 4, 5, 6]) if big else rng.choice([3, 4, 4, 5])
    ops = []
    for _ in range(nops):
        two = width >= 2 and rng.random() < 0.35
        r = rng.random()
        if r < 0.25:
            g = {"k": "mf", "name": rng.choice(MIXF2 if two else MIXF1), "params": []}
        else:
            k = rng.random()
            if k < 0.25:
                p = {"py": rng.choice(["1", "1/2", "3/4", "-3/2", "5/8", "2"])}
            elif k < 0.7:
                p = {"e": rng.choice(syms)}
            else:
                p = {"e": f"{_num_str(rng)}*{rng.choice(syms)} + {rng.choice(syms + [_num_str(rng)])}"}
            g = {"k": "mf", "name": rng.choice(MIX2 if two else MIX1), "params": [p]}
        if rng.random() < 0.15:
            g = {"k": "dag", "g": g, "raw": rng.random() < 0.3}
        if rng.random() < 0.15 and _nq(g) + 1 <= width:
            g = {"k": "ctrl", "g": g, "n": 1, "raw": rng.random() < 0.3}
        ops.append({"op": "gate", "g": g, "q": rng.sample(range(width), _nq(g))})
    c = {"kind": "mixed", "ops": ops, "n": rng.choice([None, None, width, width + 1 if width < 3 else width])}
    used = _case_syms(c)
    # keep some symbols free, bind the others (mostly to numbers)
    keys = [s for s in used if rng.random() < 0.6]
    if used and len(keys) == len(used) and rng.random() < 0.8:
        keys.remove(rng.choice(keys))
    if used and not keys and rng.random() < 0.8:
        keys = [rng.choice(used)]
    free_for_values = [s for s in SYMS if s not in keys]
    c["map"] = [[k, _numeric_value(rng) if rng.random() < 0.85 else {"e": rng.choice(free_for_values)}] for k in keys]
    if rng.random() < 0.3:
        rest = [s for s in used if s not in keys and s not in _maps_value_syms([c["map"]])]
        if rest:
            c["map2"] = [[k, _numeric_value(rng)] for k in rest if rng.random() < 0.7]
    c["pts"] = gen_points(rng, SYMS)
    c["unitary"] = True
    return c


BINDERS = ["Sum({b}*{s}, ({b}, 1, 3))", "Sum({s}**{b}, ({b}, 0, 2))", "Product({b} + {s}, ({b}, 1, 2))",
           "Integral({b}*{s}, ({b}, 0, 1))", "Integral({b}*{s} + {s2}, ({b}, 0, {s3}))",
           "{s2}*Sum({b}*{s}, ({b}, 1, 2)) + {s3}", "Sum({b} + {s}, ({b}, 1, 2))/2 - {s2}",
           "Integral({s}*cos({b}), ({b}, 0, {s2}))"]
REALFUNCS = ["tan({s}/8)", "log({s}**2 + 1)", "Abs({s} - {s2})", "sqrt({s}**2 + {s2}**2 + 1)", "atan({s}*{s2})", "sinh({s}/4)",
             "Max({s}, {s2})", "Piecewise(({s}, {s2} > 0), (-{s}, True))", "sign({s})*{s2}", "floor({s}) + {s2}"]
SYMPYNUMS = ["pi/3", "E", "2*pi", "sqrt(2)", "1/3", "0.25", "0", "-pi", "GoldenRatio"]
PYNUMS = [["fraction", "3/4"], ["fraction", "-5/2"], ["complex", "1/2"], ["npfloat", "3/8"], ["npint", "2"],
          ["bigint", "100000000000000000000"], ["float", "-0.0"], ["float", "1e-12"], ["bigint", "-1000000"]]
BOUNDVARS = ["k", "j"]


FLAVOURS = ["binder", "many", "func", "assume", "shared", "values", "binder", "sympynum", "pynum", "samename", "binder", "many",
            "func", "assume", "shared", "values", "binder", "many", "binder", "sympynum", "pynum", "samename", "func", "assume",
            "shared", "values", "binder", "many"]


def gen_exotic_case(rng, big, flavour=None):
    """legal but unusual inputs: parameters with BOUND variables (Sum / Product / Integral – the bound variable may share
    its name with a free symbol of the circuit or with a key of the map), other real functions, sympy numbers, Python
    numbers of unusual types, symbols with assumptions, the same operation object / the same symbol many times, custom
    definitions with the same name and different content, very small values / values of unusual types"""
    flavour = flavour or rng.choice(FLAVOURS)
    if flavour == "many":
        # sizes beyond every small threshold: 9-14 distinct symbols, 10-18 operations, register of 9-12 qubits, a
        # MultiPhaseOperation on 3-4 qubits (the circuit matrix is not formed)
        syms = rng.sample(SYMS, rng.choice([9, 10, 12, 14]))
        width = rng.choice([9, 10, 12])
        ops = []
        order = list(syms)
        rng.shuffle(order)
        for i in range(rng.choice([10, 12, 14, 18])):
            s1 = order[i % len(order)]
            r = rng.random()
            p = {"e": s1} if r < 0.5 else {"e": f"{_num_str(rng)}*{s1} + {rng.choice(syms)}"} if r < 0.85 else {"py": rng.choice(NUMVALS)}
            if rng.random() < 0.1:
                ops.append({"op": "mp", "params": [p] + [gen_param(rng, syms, poly=True) for _ in range(2 ** rng.choice([3, 4]) - 1)]})
                continue
            two = rng.random() < 0.3
            g = {"k": "mf", "name": rng.choice(MIX2 if two else MIX1), "params": [p]}
            if rng.random() < 0.2:
                g = {"k": "ctrl", "g": g, "n": 1, "raw": rng.random() < 0.3}
            ops.append({"op": "gate", "g": g, "q": rng.sample(range(width), _nq(g))})
        c = {"kind": "exotic", "flavour": flavour, "ops": ops, "n": rng.choice([None, width + 1, width + 1, width + 2])}
        used = _case_syms(c)
        style = rng.choice(["total", "partial", "late", "late"])
        keys = list(used) if style == "total" else [s for s in used if rng.random() < 0.6]
        if style == "late":
            keys = used[-3:] if rng.random() < 0.5 else [s for s in order[8:] if s in used]   # only symbols that appear late
        rng.shuffle(keys)
        free_for_values = [s for s in SYMS if s not in keys]
        c["map"] = [[k, _numeric_value(rng) if rng.random() < 0.85 or not free_for_values else {"e": rng.choice(free_for_values)}] for k in keys]
        rest = [s for s in used if s not in keys and s not in _maps_value_syms([c["map"]])]
        if rest and rng.random() < 0.5:
            c["map2"] = [[k, _numeric_value(rng)] for k in rest if rng.random() < 0.7]
        c["pts"] = gen_points(rng, SYMS)
        c["unitary"] = False
        c["matrix"] = rng.random() < 0.3
        return c
    if flavour == "assume":
        c = gen_circuit_case(rng, big)
        for sname in [x for x in _case_syms(c) if x in SYMS and rng.random() < 0.7]:
            rename_symbol(c, sname, sname + "__real", rng)
        c["kind"] = "exotic"
        c["flavour"] = flavour
        return c
    if flavour == "shared":
        c = gen_circuit_case(rng, big, u3=False)
        for _ in range(rng.choice([1, 2])):
            i = rng.randrange(len(c["ops"]))
            dup = dict(c["ops"][i])
            dup["same_as"] = i if "same_as" not in dup else dup["same_as"]
            c["ops"].insert(rng.randrange(i + 1, len(c["ops"]) + 1), dup)
        c["kind"] = "exotic"
        c["flavour"] = flavour
        return c
    if flavour == "samename":
        syms = rng.sample(SYMS, 3)
        ops = []
        names = rng.sample(["U1", "U2", "U4"], 2)
        alias = {"k": "custom", "name": names[0], "matrix": CUSTOM[names[1]]["matrix"], "ord": CUSTOM[names[1]]["ord"]}
        for which in rng.sample([0, 1, 0, 1], rng.choice([2, 3, 4])):
            if which == 0:
                g = {"k": "custom", "name": names[0], "params": [gen_param(rng, syms) for _ in CUSTOM[names[0]]["ord"]]}
            else:
                g = dict(alias, params=[gen_param(rng, syms) for _ in alias["ord"]])
            if rng.random() < 0.3:
                g = {"k": "dag", "g": g}
            ops.append({"op": "gate", "g": g, "q": [rng.randrange(2)]})
        c = {"kind": "exotic", "flavour": flavour, "ops": ops, "n": 2}
        used = _case_syms(c)
        m, m2, extra = gen_maps(rng, used, False, True, _case_groups(c))
        c["map"] = m + extra
        if m2 is not None:
            c["map2"] = m2
        c["pts"] = gen_points(rng, SYMS)
        c["unitary"] = rng.random() < 0.3
        return c
    syms = rng.sample(SYMS, rng.choice([2, 3, 4]))
    width = rng.choice([1, 2, 2])
    shadow = None

    def special():
        nonlocal shadow
        if flavour == "binder":
            b = rng.choice(BOUNDVARS) if rng.random() < 0.6 else rng.choice(syms)
            if b in syms:
                shadow = b
            rest = [s for s in syms if s != b] or ["x" if b != "x" else "y"]
            return {"e": rng.choice(BINDERS).format(b=b, s=rng.choice(rest), s2=rng.choice(rest), s3=rng.choice(rest))}
        if flavour == "func":
            s, s2 = rng.choice(syms), rng.choice(syms)
            return {"e": rng.choice(REALFUNCS).format(s=s, s2=s2)}
        if flavour == "sympynum":
            return {"e": rng.choice(SYMPYNUMS)}
        if flavour == "pynum":
            return {"num": rng.choice(PYNUMS)}
        return gen_param(rng, syms, poly=True)

    ops = []
    for i in range(rng.choice([2, 3, 3, 4])):
        p = special() if (i == 0 or rng.random() < 0.5) else gen_param(rng, syms, poly=True)
        if rng.random() < 0.15:
            n = rng.choice([1, 2]) if width >= 2 else 1
            ops.append({"op": "mp", "params": [p] + [gen_param(rng, syms, poly=True) for _ in range(2 ** n - 1)]})
            continue
        two = width >= 2 and rng.random() < 0.3
        g = {"k": "mf", "name": rng.choice(MIX2 if two else MIX1), "params": [p]}
        if rng.random() < 0.25:
            g = {"k": "dag", "g": g}
        if rng.random() < 0.2 and _nq(g) + 1 <= width:
            g = {"k": "ctrl", "g": g, "n": 1}
        ops.append({"op": "gate", "g": g, "q": rng.sample(range(width), _nq(g))})
    c = {"kind": "exotic", "flavour": flavour, "ops": ops, "n": rng.choice([None, width, width + 1])}
    used = [s for s in _case_syms(c) if s in SYMS or s in BOUNDVARS]
    style = rng.choice(["partial", "partial", "total", "empty"])
    keys = [] if style == "empty" else [s for s in used if style == "total" or rng.random() < 0.5]
    if flavour == "binder" and rng.random() < 0.5:
        # the name of a bound variable as a key of the map: superfluous unless the symbol also occurs free
        bv = [b for b in BOUNDVARS + ([shadow] if shadow else []) if b in _case_syms(c)]
        keys += [b for b in bv if b not in keys]
    rng.shuffle(keys)
    forbidden = set(keys) | set(BOUNDVARS) | ({shadow} if shadow else set())
    free_for_values = [s for s in SYMS if s not in forbidden]

    def value():
        if flavour == "values" and rng.random() < 0.7:
            # (no huge values: the library's matrix factories multiply the angle by Python floats, so exp(1j*theta) of a
            #  theta ~ 1e30 is rounding noise along every route – a comparison would not be sound)
            return rng.choice([{"num": ["float", "1e-12"]}, {"num": ["float", "-0.0"]}, {"num": ["fraction", "7/3"]}, {"e": "pi"},
                               {"e": "1/1000000007"}, {"num": ["fraction", "-1/3"]}, {"e": "-E"}, {"num": ["bigint", "-7"]}])
        if flavour == "values":
            return {"e": rng.choice(["1/2", "2/3", "-3/4", "5", "7/5", "-2", "1/3"])}   # exact: no float next to 10**30
        if rng.random() < 0.75:
            return _numeric_value(rng)
        return {"e": rng.choice(free_for_values)}

    c["map"] = [[k, value()] for k in keys]
    if rng.random() < 0.4:
        rest = [s for s in used if s not in keys and s not in _maps_value_syms([c["map"]])]
        c["map2"] = [[k, _numeric_value(rng)] for k in rest if rng.random() < 0.7]
    c["pts"] = gen_points(rng, SYMS)
    if flavour == "pynum":
        c["matrix"] = False      # sympy 1.9 cannot sympify numpy-2 scalars: only the binding mechanisms are observed
    else:
        c["unitary"] = width <= 2 and rng.random() < 0.35
    return c


# ---------------------------------------------------------------- look-alike symbols (same printed name, different symbol)
TWIN_TAGS = ["real", "real", "finite", "d1", "d2"]
CUSTOM_X = {
    # formal parameters that print alike: Symbol("theta") and Symbol("theta", real=True)
    "U5": {"ord": ["theta", "theta__real"], "matrix": [["cos(theta)", "-sin(theta__real)"], ["sin(theta__real)", "cos(theta) + theta__real"]]},
    "U6": {"ord": ["t__d1", "t__d2"], "matrix": [["t__d1", "t__d2 + 1"], ["t__d1*t__d2", "2"]]},
}


def _retoken(expr, old, new):
    return re.sub(r"(?<![A-Za-z_0-9])%s(?![A-Za-z_0-9])" % re.escape(old), new, expr)


def _param_dicts(c):
    """the (mutable) parameter specs of a case"""
    out = []

    def walk(j):
        if isinstance(j, dict):
            if isinstance(j.get("params"), list):
                out.extend(p for p in j["params"] if isinstance(p, dict))
            for k, v in j.items():
                if k != "params":
                    walk(v)
        elif isinstance(j, list):
            for v in j:
                walk(v)

    walk(c.get("ops", c.get("g")))
    if c.get("new_params"):
        out.extend(c["new_params"])
    return out


def _map_lists(c):
    """every map of a case (mutable lists of [key, value])"""
    out = []
    for key in ("map", "map2", "extra"):
        if c.get(key) is not None:
            out.append(c[key])
    for key in ("maps", "chain", "more_maps"):
        out.extend(c.get(key) or [])
    return out


def _primary_maps(c):
    return list(c["maps"]) if c["kind"] == "hist" else [c["map"]] + list(c.get("more_maps") or [])


def _add_points(c, ids, rng):
    for row in c.get("pts", []):
        have = {k for k, _ in row}
        for t in ids:
            if t not in have:
                row.append([t, _fr(Fraction(rng.choice([1, 2, 3, 5, 7, -1, -2, -3, -5, 4]), rng.choice([1, 2, 3, 5, 7])))])


def rename_symbol(c, old, new, rng):
    """the case with the symbol `old` replaced by `new` everywhere (parameters, map keys and values)"""
    for p in _param_dicts(c):
        if "e" in p:
            p["e"] = _retoken(p["e"], old, new)
    for m in _map_lists(c):
        for kv in m:
            if kv[0] == old:
                kv[0] = new
            if "e" in kv[1]:
                kv[1] = {"e": _retoken(kv[1]["e"], old, new)}
    _add_points(c, [new], rng)
    return c


def add_lookalikes(rng, c0):
    """a copy of the case with LOOK-ALIKE decoys: a symbol t that prints like a symbol s of the case but is a different
    sympy symbol (other assumptions / a Dummy) is put into the maps (as the only key of that name, or next to s with
    another value), into the parameters (bare, next to compound expressions of s), or both; one step and several steps"""
    import copy
    c = copy.deepcopy(c0)
    params = [p for p in _param_dicts(c) if "e" in p]
    used = [s for s in _case_syms(c) if s in SYMS]
    if not used:
        return c0
    bare = [p["e"].strip() for p in params if p["e"].strip() in used]
    s = rng.choice(bare) if bare and rng.random() < 0.7 else rng.choice(used)
    t = f"{s}__{rng.choice(TWIN_TAGS)}"
    mention = [p for p in params if s in _idents(p["e"])]
    if s not in bare and mention and rng.random() < 0.7:
        rng.choice(mention)["e"] = s                      # make sure the symbol also occurs as a BARE parameter
    mode = rng.choice(["decoy-only", "decoy-only", "decoy-both", "twin-param", "twin-param", "twin-steps"])
    vs, vt = rng.sample(["1/2", "3/4", "-3/2", "2", "3", "5/4", "-1"], 2)
    val = lambda v: {"py": v} if rng.random() < 0.6 else {"e": v}
    if mode in ("twin-param", "twin-steps"):
        mention = [p for p in params if s in _idents(p["e"])]
        rng.shuffle(mention)
        n = rng.randrange(1, len(mention)) if len(mention) > 1 else len(mention)
        for p in mention[:n]:
            p["e"] = _retoken(p["e"], s, t) if rng.random() < 0.6 else t
    prim = _primary_maps(c)
    if mode == "decoy-only":
        for m in prim:
            hit = [kv for kv in m if kv[0] == s]
            for kv in hit:
                kv[0] = t
            if not hit:
                m.append([t, val(vt)])
    elif mode == "decoy-both":
        for m in prim:
            m[:] = [kv for kv in m if kv[0] not in (s, t)] + [[s, val(vs)], [t, val(vt)]]
            rng.shuffle(m)
    elif mode == "twin-param":
        keep = rng.choice([[s], [t], [s, t], []])
        for m in prim:
            m[:] = [kv for kv in m if kv[0] not in (s, t)] + [[k, val(vs if k == s else vt)] for k in keep]
    else:
        first, second = rng.sample([s, t], 2)
        for m in prim:
            m[:] = [kv for kv in m if kv[0] not in (s, t)] + [[first, val(vt)]]
        if c["kind"] == "hist":
            c["chain"] = [[[first, val(vt)]], [[second, val(vs)]]]
        elif c["kind"] != "gate":
            c["map2"] = [kv for kv in (c.get("map2") or []) if kv[0] not in (s, t)] + [[second, val(vs)]]
    if "map" in c:
        # the second step / the superfluous entries never repeat a key of the first map
        have = {k for k, _ in c["map"]}
        for key in ("map2", "extra"):
            if c.get(key):
                c[key] = [kv for kv in c[key] if kv[0] not in have]
    _add_points(c, [t], rng)
    c["look"] = {"base": s, "twin": t, "mode": mode}
    return c if _in_domain(c) else c0


def gen_lookalike_case(rng, i, big=False):
    c = _gen_lookalike_case(rng, i, big)
    c["look"] = {"family": i % 8}
    return c


def _gen_lookalike_case(rng, i, big=False):
    """hand-shaped families around one symbol s and its look-alikes t (t2): gates, wrapped gates, custom gates,
    MultiPhaseOperation, circuits; the map names only the look-alike / both with different values; one and several steps"""
    s = rng.choice(SYMS)
    tags = rng.sample(["real", "finite", "d1", "d2"], 2)
    t, t2 = f"{s}__{tags[0]}", f"{s}__{tags[1]}"
    fam = i % 8
    if fam == 1:
        tags = [rng.choice(["real", "finite"]), rng.choice(["d1", "d2"])]    # t prints exactly like s, t2 is a Dummy
        t, t2 = f"{s}__{tags[0]}", f"{s}__{tags[1]}"
    if fam == 7:
        s, t, t2 = "_x", "x__d1", "x__d2"          # Dummy("x") prints "_x", like the plain Symbol("_x")
    v1, v2, v3 = rng.sample(["1/2", "3/4", "-3/2", "2", "3", "5/4", "-1", "1/8"], 3)
    val = lambda v: {"py": v} if rng.random() < 0.6 else {"e": v}
    g1 = lambda name, e: {"k": "mf", "name": name, "params": [{"e": e}]}
    one = lambda: rng.choice(MIX1)
    other = rng.choice([x for x in SYMS if x != s and x != "x"])
    c = {"kind": "circuit", "n": rng.choice([None, 3, 4])}
    if fam in (0, 7):
        # bare s, a compound of s and a wrapped bare s; the map names only the look-alike (or, sometimes, both)
        ops = [{"op": "gate", "g": g1(one(), s), "q": [0]}, {"op": "gate", "g": g1(one(), f"2*{s} + {other}"), "q": [1]},
               {"op": "gate", "g": {"k": "ctrl", "n": 1, "g": g1(rng.choice(MIX2), s)}, "q": [2, 0, 1]},
               {"op": "gate", "g": {"k": "dag", "g": g1(one(), rng.choice([s, t]))}, "q": [2]}]
        c["map"] = [[t, val(v1)]] + ([[s, val(v2)]] if rng.random() < 0.3 else [])
        if rng.random() < 0.5:
            c["map2"] = [[other, val(v3)]]
    elif fam == 1:
        ops = [{"op": "mp", "params": [{"e": t}, {"py": "1/2"}, {"e": f"{s} + {t2}"}, {"e": s}]},
               {"op": "gate", "g": g1(one(), t2), "q": [0]}]
        c["map"] = [[rng.choice([s, t, t2]), val(v1)]]
        if rng.random() < 0.6 and fam != 7:
            # a look-alike that does not occur in the circuit at all: superfluous
            t3 = [x for x in ("real", "finite", "d1", "d2") if x not in tags][0]
            c["extra"] = [[f"{s}__{t3}", val(v2)]]
    elif fam == 2:
        # both twins in the maps: partial steps = once
        ops = [{"op": "gate", "g": g1(one(), s), "q": [0]}, {"op": "gate", "g": g1(one(), t), "q": [0]},
               {"op": "gate", "g": g1(rng.choice(MIX2), f"2*{s} + {t}"), "q": [1, 0]}]
        first, second = rng.sample([s, t], 2)
        c["map"], c["map2"] = [[first, val(v1)]], [[second, val(v2)]]
        c["unitary"] = True
    elif fam == 3:
        g = g1(one(), s)
        for w in rng.sample(["ctrl", "dag", "ctrl"], rng.choice([1, 2])):
            g = {"k": "ctrl", "g": g, "n": 1, "raw": rng.random() < 0.3} if w == "ctrl" else {"k": "dag", "g": g, "raw": rng.random() < 0.3}
        c = {"kind": "gate", "g": g, "map": [[t, val(v1)]], "more_maps": [[[t, val(v1)], [s, val(v2)]], [[s, val(v2)]], [[t2, val(v3)]]],
             "new_params": [{"e": rng.choice([t, f"{s}*{t}"])}]}
        c["pts"] = gen_points(rng, SYMS + [s, t, t2])
        return c
    elif fam == 4:
        # custom gates: formal parameters that print alike; arguments that are look-alikes of the formal parameters
        if rng.random() < 0.5:
            u = {"k": "custom", "name": "U5", "params": [{"e": rng.choice(["theta__real", other, f"{other} + theta"])}, {"e": rng.choice(["theta", other, "theta__real*2"])}]}
            keys = ["theta", "theta__real"]
        else:
            u = {"k": "custom", "name": "U6", "params": [{"e": rng.choice(["t__d2", other])}, {"e": rng.choice(["t__d1", f"{other}*t__d1"])}]}
            keys = ["t__d1", "t__d2"]
        u1 = {"k": "custom", "name": "U1", "params": [{"e": rng.choice(["theta__real", "theta__finite", "2*theta__real + theta"])}]}
        ops = [{"op": "gate", "g": u, "q": [0]}, {"op": "gate", "g": {"k": "ctrl", "n": 1, "g": u1}, "q": [1, 0]},
               {"op": "gate", "g": {"k": "dag", "g": dict(u, params=[{"e": keys[1]}, {"e": keys[0]}])}, "q": [1]}]
        c["n"] = 2
        c["map"] = [[rng.choice(keys + ["theta"]), val(v1)]]
        c["map2"] = [[k, val(v2)] for k in keys + [other] if k != c["map"][0][0] and rng.random() < 0.6]
        c["unitary"] = rng.random() < 0.5
        c["ops"] = ops
        c["pts"] = gen_points(rng, SYMS + ["theta__real", "theta__finite", "t__d1", "t__d2"])
        return c
    elif fam == 5:
        ops = [{"op": "gate", "g": g1(one(), s), "q": [0]}, {"op": "gate", "g": {"k": "dag", "g": g1(one(), t)}, "q": [1]},
               {"op": "mp", "params": [{"e": f"{s}*{t}"}, {"e": t}]}]
        c = {"kind": "hist", "n": c["n"], "maps": [[[s, val(v1)]], [[t, val(v1)]], [[s, val(v1)], [t, val(v2)]], [[s, val(v1)]]],
             "poison": rng.random() < 0.5, "chain": [[[t, val(v2)]], [[s, val(v1)]]]}
    else:
        ops = [{"op": "gate", "g": g1("RX", s), "q": [0]}, {"op": "gate", "g": g1("RY", t), "q": [0]},
               {"op": "gate", "g": g1("RZ", f"{s} + {t}"), "q": [0]}, {"op": "gate", "g": {"k": "mf", "name": "H", "params": []}, "q": [1]},
               {"op": "gate", "g": g1("RX", rng.choice([s, "3/4"])), "q": [0]}]
        c = {"kind": "mixed", "n": None, "map": [[rng.choice([s, t]), val(v1)]], "unitary": True}
    c["ops"] = ops
    c["pts"] = gen_points(rng, SYMS + [s, t, t2])
    return c


# ---------------------------------------------------------------- hardening families (value twins, refusals, chained maps, shapes)
BIGTWIN = str(2 ** 61 - 1)      # hash(2**61 - 1) == hash(0), hash(-1) == hash(-2)
TWIN_MODES = ["neg", "zero-big", "close", "swap-values", "reorder", "retype", "twin-key", "all-equal"]


def gen_twin_hist_case(rng, i, big=False):
    """a history on ONE circuit object (and one map object) whose consecutive maps are TWINS of each other for a sloppy
    cache key: values with equal hashes (-1 / -2, 0 / 2**61-1), values within 1e-9, the values of two keys swapped, the
    same entries in another order, equal numbers of other types, the look-alike key, all values equal -> one differs.
    Every key occurs bare, inside a compound expression, in a wrapped gate and in a MultiPhaseOperation; one gate object is
    used by two operations on different qubits."""
    mode = TWIN_MODES[i % len(TWIN_MODES)]
    x, y, z = rng.sample(SYMS, 3)
    g1 = lambda name, e: {"k": "mf", "name": name, "params": [{"e": e}]}
    one = lambda: rng.choice(MIX1)
    shared = g1(one(), x)
    ops = [{"op": "gate", "g": shared, "q": [0]},
           {"op": "gate", "g": g1(one(), f"2*{x} + {y}"), "q": [1]},
           {"op": "gate", "g": {"k": "ctrl", "n": 1, "g": g1(one(), y), "raw": rng.random() < 0.3}, "q": [2, 0]},
           {"op": "gate", "g": shared, "q": [2], "gate_of": 0},
           {"op": "mp", "params": [{"e": z}, {"e": x}, {"py": "1/2"}, {"e": f"{y}*{z}"}]},
           {"op": "gate", "g": {"k": "dag", "g": {"k": "mf", "name": "MS", "params": [{"e": z}, {"e": z}]}}, "q": [1, 2]}]
    py = lambda v: {"py": v}
    c = {"kind": "hist", "n": rng.choice([None, 3, 4]), "poison": i % 2 == 1, "twin": mode}
    if mode == "neg":
        maps = [[[x, py("-1")], [y, py("3/4")]], [[x, py("-2")], [y, py("3/4")]], [[x, py("-2")], [y, py("-1")]], [[x, py("-1")], [y, py("-2")]]]
    elif mode == "zero-big":
        maps = [[[x, py("0")]], [[x, py(BIGTWIN)]], [[x, py("0")], [z, py(BIGTWIN)]], [[x, py(BIGTWIN)], [z, py("0")]]]
        c["matrix"] = False          # cos(2**61/2) through float arithmetic is rounding noise
    elif mode == "close":
        v = rng.choice(["0.5", "0.75", "1.25", "-0.375"])
        w = repr(float(v) + rng.choice([1e-9, -1e-9, 3e-10, 1e-12]))
        maps = [[[x, {"num": ["float", v]}]], [[x, {"num": ["float", w]}]], [[x, {"num": ["float", v]}], [y, {"num": ["float", "1e-12"]}]],
                [[x, {"num": ["float", w]}], [y, {"num": ["float", "0.0"]}]]]
    elif mode == "swap-values":
        a, b = rng.sample(NUMVALS, 2)
        maps = [[[x, py(a)], [y, py(b)]], [[x, py(b)], [y, py(a)]], [[x, py(a)], [y, py(b)], [z, py(a)]], [[x, py(a)], [y, py(a)], [z, py(b)]]]
    elif mode == "reorder":
        a, b, d = rng.sample(NUMVALS, 3)
        maps = [[[x, py(a)], [y, py(b)], [z, py(d)]], [[z, py(d)], [x, py(a)], [y, py(b)]], [[y, py(b)], [z, py(a)], [x, py(d)]]]
    elif mode == "retype":
        maps = [[[x, py("1")], [y, py("0")]], [[x, {"num": ["float", "1.0"]}], [y, {"num": ["float", "0.0"]}]], [[x, {"e": "1"}], [y, {"e": "0"}]],
                [[x, {"num": ["fraction", "1"]}], [y, {"num": ["float", "-0.0"]}]], [[x, py("2")], [y, py("1")]]]
    elif mode == "twin-key":
        t = f"{x}__{rng.choice(['real', 'finite'])}"
        a, b = rng.sample(NUMVALS, 2)
        maps = [[[x, py(a)]], [[t, py(a)]], [[t, py(a)], [x, py(b)]], [[x, py(a)], [t, py(b)]]]
        ops.append({"op": "gate", "g": g1(one(), t), "q": [0]})
    else:
        a, b = rng.sample(NUMVALS, 2)
        maps = [[[x, py(a)], [y, py(a)], [z, py(a)]], [[x, py(a)], [y, py(b)], [z, py(a)]], [[x, py(b)], [y, py(b)], [z, py(b)]]]
    maps.append([[k, dict(v)] for k, v in maps[0]])
    c.update({"ops": ops, "maps": maps, "pts": gen_points(rng, SYMS + [f"{x}__real", f"{x}__finite"])})
    if i % 3 == 0:
        c["chain"] = [[[x, py("1/2")]], [[y, py("-1")], [z, py("-2")]]]
    return c


def gen_twin_gate_case(rng, i):
    """the same twins on ONE gate object (Gate.bind / GateOperation.bind), wrapped or custom"""
    x, y = rng.sample(SYMS, 2)
    base = rng.choice([{"k": "mf", "name": rng.choice(MIX1), "params": [{"e": x}]},
                       {"k": "mf", "name": "MS", "params": [{"e": x}, {"e": f"{x} + {y}"}]},
                       {"k": "custom", "name": "U4", "params": [{"e": x}, {"e": y}, {"e": f"{x}*{y}"}]}])
    g = base
    for w in rng.sample(["ctrl", "dag", "ctrl"], rng.choice([0, 1, 2])):
        g = {"k": "ctrl", "g": g, "n": 1, "raw": rng.random() < 0.3} if w == "ctrl" else {"k": "dag", "g": g, "raw": rng.random() < 0.3}
    py = lambda v: {"py": v}
    mode = ["neg", "zero-big", "close", "swap-values"][i % 4]
    if mode == "neg":
        maps = [[[x, py("-1")]], [[x, py("-2")]], [[x, py("-2")], [y, py("-1")]]]
    elif mode == "zero-big":
        maps = [[[x, py("0")]], [[x, py(BIGTWIN)]], [[x, py("0")], [y, py("0")]]]
    elif mode == "close":
        maps = [[[x, {"num": ["float", "0.25"]}]], [[x, {"num": ["float", repr(0.25 + 1e-9)]}]], [[x, {"num": ["float", "1e-12"]}]], [[x, {"num": ["float", "0.0"]}]]]
    else:
        maps = [[[x, py("2")], [y, py("3")]], [[x, py("3")], [y, py("2")]], [[y, py("3")], [x, py("2")]]]
    c = {"kind": "gate", "g": g, "map": maps[0], "more_maps": maps[1:], "pts": gen_points(rng, SYMS), "twin": mode}
    if mode == "zero-big":
        c["matrix"] = False
    return c


NESTINGS = [["pow"], ["exp"], ["pow", "ctrl"], ["exp", "ctrl"], ["ctrl", "pow"], ["ctrl", "exp"], ["pow", "dag"], ["exp", "dag"],
            ["pow", "ctrl!"], ["pow", "dag!"], ["exp", "dag!"], ["dag", "pow", "ctrl"], ["pow", "ctrl!", "dag!"], ["exp", "ctrl", "ctrl!"],
            ["ctrl", "pow", "dag!"], ["pow", "pow"], ["exp", "pow", "ctrl"], ["dag!", "exp", "ctrl"]]


def gen_refusal_case(rng, i):
    """the refusal sentence for EVERY nesting: a power / exponential wrapper under or above controls and daggers (built
    through the API or directly, "!"), asked at gate, operation and circuit level, with an empty map, a map of
    superfluous symbols and a map of symbols the rest of the circuit uses"""
    nest = NESTINGS[i % len(NESTINGS)]
    g = rng.choice([{"k": "mf", "name": rng.choice(MIXF1), "params": []},
                    {"k": "mf", "name": rng.choice(MIX1), "params": [{"py": rng.choice(["1/2", "3/4", "1"])}]}])
    for w in nest:
        raw = w.endswith("!")
        w = w.rstrip("!")
        if w == "pow":
            g = {"k": "pow", "g": g, "e": rng.choice(["2", "1/2", "-1", "3"])}
        elif w == "exp":
            g = {"k": "exp", "g": g}
        elif w == "ctrl":
            g = {"k": "ctrl", "g": g, "n": 1, "raw": raw}
        else:
            g = {"k": "dag", "g": g, "raw": raw}
    x, y = rng.sample(SYMS, 2)
    m = [[], [[y, {"py": "1"}]], [[x, {"py": "1/2"}]], [[x, {"e": y}], [y, {"py": "2"}]][:1]][i % 4]
    if (i // len(NESTINGS)) % 2 == 0 and i % 3 != 2:
        c = {"kind": "gate", "g": g, "map": m}
        if i % 2:
            c["more_maps"] = [[[x, {"py": "2"}]]]
    else:
        ops = [{"op": "gate", "g": {"k": "mf", "name": "RX", "params": [{"e": x}]}, "q": [0]},
               {"op": "gate", "g": g, "q": list(range(_nq(g)))},
               {"op": "gate", "g": {"k": "mf", "name": "RY", "params": [{"e": f"{x} + 1"}]}, "q": [0]}]
        if i % 5 == 0:
            ops = ops[1:2]
        c = {"kind": "circuit", "ops": ops, "n": None, "map": m, "unitary": False}
    c["pts"] = gen_points(rng, SYMS)
    c["refusal"] = "/".join(nest)
    return c


def gen_chained_case(rng, i):
    """maps whose values mention keys of the same map (swaps, chains): "substituting the same values" can then be read as
    simultaneous or as sequential in some order of the entries – but ONE reading has to hold for every parameter of the
    circuit, bare symbols and compound expressions alike (oracle only)"""
    x, y, z = rng.sample(SYMS, 3)
    style = ["swap", "chain", "cycle", "swap", "exprchain", "exprswap", "exprmix"][i % 7]
    if style == "exprchain":      # the VALUES are compound expressions (no bare symbol among them) mentioning other keys
        m = [[x, {"e": f"2*{y}"}], [y, {"py": rng.choice(["1/2", "3", "-1"])}]]
    elif style == "exprswap":
        m = [[x, {"e": f"{y} + 1"}], [y, {"e": f"2*{x}"}]]
    elif style == "exprmix":
        m = [[x, {"e": f"{y}*{z}"}], [y, {"py": "3"}], [z, {"e": f"{x} - 1"}]]
    elif style == "swap":
        m = [[x, {"e": y}], [y, {"e": x}]]
    elif style == "chain":
        m = [[x, {"e": y}], [y, {"py": rng.choice(["3", "1/2", "-1"])}]]
    else:
        m = [[x, {"e": z}], [z, {"e": x}], [y, {"py": "1"}]]
    rng.shuffle(m)
    exprs = [x, y, f"{x} + 2*{y}", f"2*{x}", f"{x}*{y} + {z}", z, f"{y} - {x}", f"{x}*{y}", f"{x}*{y}*{z}"]
    picked = rng.sample(exprs, rng.choice([3, 4]))
    if style.startswith("expr") and not any(e in (x, y, z) for e in picked):
        picked.append(x)       # a bare-symbol parameter (looked up once) next to the compound ones
    if style.startswith("expr") and not any(e in (f"{x}*{y}", f"{x}*{y}*{z}", f"{x}*{y} + {z}", f"{x} + 2*{y}") for e in picked):
        picked.append(f"{x}*{y}")
    if i % 4 == 3:
        picked = [e for e in picked if e not in (x, y, z)] or [f"2*{x}"]       # compound parameters only
    ops = [{"op": "gate", "g": {"k": "mf", "name": rng.choice(MIX1), "params": [{"e": e}]}, "q": [rng.randrange(2)]} for e in picked]
    if rng.random() < 0.4:
        ops.append({"op": "mp", "params": [{"e": x}, {"e": f"{x} + {y}"}]})
    return {"kind": "chained", "ops": ops, "n": 2, "map": m, "pts": gen_points(rng, SYMS), "style": style}


FUNCNAMES = ["E__n0", "I__n0", "S__n0", "pi__n0", "lambda__n0", "beta__n0", "N__n0", "Q__n0", "gamma"]


def gen_shape_case(rng, flavour, big=False):
    """special SHAPES: repeated equal parameters (MS(t,t), uniform phases, U4(x,x,x), parameters that merely print alike),
    symbols whose names are sympy constants / functions (E, I, S, pi, lambda …), >= 64 operations with >= 13 symbols some
    of which first occur after the 64th operation and qubit indices >= 64, falsy values (0, 0.0, -0.0, sympy 0) bound to
    bare symbols"""
    g1 = lambda name, e: {"k": "mf", "name": name, "params": [{"e": e}]}
    one = lambda: rng.choice(MIX1)
    c = {"kind": "exotic", "flavour": flavour}
    if flavour == "repeat":
        t, u = rng.sample(SYMS, 2)
        tw = f"{t}__{rng.choice(['real', 'finite'])}"
        e = rng.choice([t, f"2*{t} + {u}", t])
        ops = [{"op": "gate", "g": {"k": "mf", "name": "MS", "params": [{"e": e}, {"e": e}]}, "q": [0, 1]},
               {"op": "mp", "params": [{"e": t}] * 4},
               {"op": "gate", "g": {"k": "custom", "name": "U4", "params": [{"e": t}, {"e": t}, {"e": t}]}, "q": [1]},
               {"op": "gate", "g": {"k": "dag", "g": {"k": "mf", "name": "MS", "params": [{"e": t}, {"e": tw}]}}, "q": [1, 0]},
               {"op": "mp", "params": [{"e": tw}, {"e": t}]},
               {"op": "gate", "g": {"k": "ctrl", "n": 1, "g": {"k": "mf", "name": "MS", "params": [{"py": "1/2"}, {"py": "1/2"}]}}, "q": [2, 0, 1]},
               {"op": "mp", "params": [{"py": "1"}, {"num": ["float", "1.0"]}]}]
        ops = [o for o in ops if rng.random() < 0.75] or ops[:2]
        keys = rng.choice([[t], [tw], [t, tw], [t, u], [u]])
        vals = rng.sample(NUMVALS, 3)
        c.update({"ops": [{**o, "params": [dict(p) for p in o["params"]]} if "params" in o else o for o in ops], "n": 3,
                  "map": [[k, {"py": vals[j]}] for j, k in enumerate(keys)], "unitary": False})
        c["pts"] = gen_points(rng, SYMS + [tw])
        return c
    if flavour == "funcname":
        names = rng.sample(FUNCNAMES, 3)
        a, b, d = names
        ops = [{"op": "gate", "g": g1(one(), a), "q": [0]}, {"op": "gate", "g": g1(one(), f"2*{a} + {b}"), "q": [1]},
               {"op": "gate", "g": {"k": "ctrl", "n": 1, "g": g1(one(), f"{b}*{d}")}, "q": [1, 0]},
               {"op": "mp", "params": [{"e": d}, {"e": f"{a} - {d}"}]},
               {"op": "gate", "g": {"k": "custom", "name": "U1", "params": [{"e": f"{b} + 1"}]}, "q": [0]}]
        keys = [k for k in names if rng.random() < 0.6] or [a]
        c.update({"ops": ops, "n": None, "map": [[k, _numeric_value(rng)] for k in keys], "unitary": rng.random() < 0.4})
        rest = [k for k in names if k not in keys]
        if rest:
            c["map2"] = [[k, _numeric_value(rng)] for k in rest]
        c["pts"] = gen_points(rng, SYMS + FUNCNAMES)
        return c
    if flavour == "falsy":
        x, y, z = rng.sample(SYMS, 3)
        ops = [{"op": "gate", "g": g1(one(), x), "q": [0]}, {"op": "gate", "g": g1(one(), f"{x} + {y}"), "q": [0]},
               {"op": "gate", "g": {"k": "dag", "g": g1(one(), y)}, "q": [1]}, {"op": "mp", "params": [{"e": z}, {"e": x}]},
               {"op": "gate", "g": {"k": "custom", "name": "U2", "params": [{"e": z}, {"e": y}]}, "q": [1]}]
        zero = lambda: rng.choice([{"py": "0"}, {"num": ["float", "0.0"]}, {"num": ["float", "-0.0"]}, {"e": "0"}, {"num": ["fraction", "0"]},
                                   {"num": ["complex", "0"]}, {"e": "0.0"}])
        keys = rng.sample([x, y, z], rng.choice([1, 2, 3]))
        c.update({"ops": ops, "n": 2, "map": [[k, zero()] for k in keys], "unitary": rng.random() < 0.4})
        rest = [k for k in (x, y, z) if k not in keys]
        if rest and rng.random() < 0.6:
            c["map2"] = [[k, zero()] for k in rest]
        c["pts"] = gen_points(rng, SYMS)
        return c
    # long: 64-80 operations, 13-14 symbols, the last symbols first occur after operation 64, wide register
    syms = rng.sample(SYMS, rng.choice([13, 14]))
    late = syms[-3:]
    nops = rng.choice([66, 72, 80])
    width = rng.choice([9, 16, 66, 70])
    ops = []
    for k in range(nops):
        pool = late if k >= 64 or (k == nops - 1) else syms[:-3]
        s1 = pool[k % len(pool)]
        r = rng.random()
        p = {"e": s1} if r < 0.5 else {"e": f"{_num_str(rng)}*{s1} + {rng.choice(pool)}"} if r < 0.9 else {"py": rng.choice(NUMVALS)}
        if rng.random() < 0.04:
            ops.append({"op": "mp", "params": [p, {"e": rng.choice(pool)}]})
            continue
        ops.append({"op": "gate", "g": g1(one(), p["e"]) if "e" in p else {"k": "mf", "name": one(), "params": [p]}, "q": [rng.randrange(width)]})
    c.update({"ops": ops, "n": rng.choice([None, width + 1]), "unitary": False, "matrix": False})
    used = _case_syms(c)
    style = rng.choice(["total", "late", "partial"])
    keys = list(used) if style == "total" else [s for s in used if s in late] if style == "late" else [s for s in used if rng.random() < 0.5]
    rng.shuffle(keys)
    c["map"] = [[k, _numeric_value(rng)] for k in keys]
    rest = [s for s in used if s not in keys]
    if rest and rng.random() < 0.5:
        c["map2"] = [[k, _numeric_value(rng)] for k in rest if rng.random() < 0.7]
    c["pts"] = gen_points(rng, SYMS, n=1)
    return c


def corpus():
    pts = [[[s, _fr(Fraction(i + 2, 3))] for i, s in enumerate(SYMS)], [[s, _fr(Fraction(-(i + 1), 2))] for i, s in enumerate(SYMS)]]
    rx = {"k": "mf", "name": "RX", "params": [{"e": "2*x*y + 1"}]}
    look = ["theta__real", "theta__finite", "t__d1", "t__d2", "x__d1", "_x"]
    lpts = [row + [[t, _fr(Fraction(2 * i + 3, 7 - 2 * k))] for i, t in enumerate(look)] for k, row in enumerate(pts)]
    return [
        # the rule of DESIGN §4.21: expression parameter with >= 2 symbols and a partial map
        {"kind": "circuit", "ops": [{"op": "gate", "g": rx, "q": [0]}], "n": None, "map": [["x", {"py": "1/2"}]], "pts": pts, "unitary": True},
        # first-appearance order, MultiPhaseOperation, numeric params untouched
        {"kind": "circuit", "ops": [{"op": "gate", "g": {"k": "mf", "name": "RX", "params": [{"e": "y"}]}, "q": [0]},
                                    {"op": "gate", "g": {"k": "mf", "name": "RY", "params": [{"e": "x + y"}]}, "q": [1]},
                                    {"op": "mp", "params": [{"e": "z"}, {"e": "x"}, {"py": "1"}, {"py": "2"}]}],
         "n": None, "map": [["y", {"e": "w"}]], "map2": [["x", {"py": "2"}]], "extra": [["t", {"py": "5"}]], "pts": pts},
        # F15 (fixed 95d46d1): custom gate, ordering (gamma, theta), actual params are the formal symbols swapped
        {"kind": "gate", "g": {"k": "custom", "name": "U2", "params": [{"e": "theta"}, {"e": "gamma"}]},
         "map": [["theta", {"py": "2"}]], "pts": pts},
        {"kind": "circuit", "ops": [{"op": "gate", "g": {"k": "ctrl", "n": 1, "g": {"k": "custom", "name": "U2", "params": [{"e": "theta"}, {"e": "gamma + x"}]}},
                                     "q": [1, 0]}], "n": 3, "map": [["gamma", {"e": "3/2"}]], "map2": [["theta", {"e": "x"}]], "pts": pts, "unitary": True},
        # re-association: hand-made Dagger(ControlledGate(ControlledGate(RX)))
        {"kind": "gate", "g": {"k": "dag", "raw": True, "g": {"k": "ctrl", "raw": True, "n": 1, "g": {"k": "ctrl", "raw": True, "n": 1, "g": rx}}},
         "map": [["y", {"e": "z"}]], "new_params": [{"e": "t"}], "pts": pts},
        # hermitian shortcut: GPi(x).dagger is GPi(x)
        {"kind": "gate", "g": {"k": "ctrl", "n": 2, "g": {"k": "dag", "g": {"k": "mf", "name": "GPi", "params": [{"e": "x*y"}]}}},
         "map": [["x", {"e": "1/3"}]], "pts": pts},
        # refusals
        {"kind": "gate", "g": {"k": "pow", "e": "1/2", "g": {"k": "mf", "name": "X", "params": []}}, "map": [["x", {"py": "1"}]], "pts": pts},
        {"kind": "gate", "g": {"k": "ctrl", "n": 1, "g": {"k": "exp", "g": {"k": "mf", "name": "RX", "params": [{"py": "1/2"}]}}}, "map": [],
         "new_params": [{"e": "x"}], "pts": pts},
        {"kind": "circuit", "ops": [{"op": "gate", "g": rx, "q": [0]},
                                    {"op": "gate", "g": {"k": "pow", "e": "2", "g": {"k": "mf", "name": "T", "params": []}}, "q": [0]}],
         "n": None, "map": [["x", {"py": "1"}]], "pts": pts},
        # fixed defect (ddf37fe): a circuit with a ResetOperation used to raise TypeError on bind (sig reset-bind-typeerror)
        {"kind": "circuit", "ops": [{"op": "gate", "g": {"k": "mf", "name": "H", "params": []}, "q": [0]}, {"op": "reset", "q": 0}],
         "n": None, "map": [], "pts": pts},
        {"kind": "circuit", "ops": [{"op": "gate", "g": rx, "q": [1]}, {"op": "reset", "q": 1},
                                    {"op": "mp", "params": [{"e": "x"}, {"e": "y + z"}]}],
         "n": 3, "map": [["x", {"e": "1/2"}]], "map2": [["y", {"py": "2"}]], "pts": pts},
        # cancellation: the bound parameter no longer depends on y
        {"kind": "circuit", "ops": [{"op": "gate", "g": {"k": "mf", "name": "RZ", "params": [{"e": "(x + 1)*y + z"}]}, "q": [0]}],
         "n": 2, "map": [["x", {"py": "-1"}]], "pts": pts},
        # custom gate applied to fewer params than it orders (malformed; mechanisms only)
        {"kind": "gate", "g": {"k": "custom", "name": "U2", "params": [{"e": "x"}]}, "map": [["x", {"py": "3"}], ["theta", {"py": "1"}]], "pts": pts},
        # empty circuit
        {"kind": "circuit", "ops": [], "n": None, "map": [["x", {"py": "1"}]], "pts": pts},
        # --- classes of subtle changes (history / special shapes / exotic inputs)
        # bound variables: k is bound in the Sum, x is bound in the second Sum and free in RY(x); the map names both
        {"kind": "exotic", "flavour": "binder", "n": 2, "pts": pts, "unitary": True,
         "ops": [{"op": "gate", "g": {"k": "mf", "name": "RX", "params": [{"e": "Sum(k*y, (k, 1, 3))"}]}, "q": [0]},
                 {"op": "gate", "g": {"k": "ctrl", "n": 1, "g": {"k": "mf", "name": "RZ", "params": [{"e": "Sum(x*z, (x, 1, 2)) + y"}]}}, "q": [1, 0]},
                 {"op": "gate", "g": {"k": "mf", "name": "RY", "params": [{"e": "x"}]}, "q": [1]}],
         "map": [["y", {"py": "1/2"}], ["k", {"py": "5"}], ["x", {"e": "2/3"}]], "map2": [["z", {"py": "2"}]]},
        {"kind": "exotic", "flavour": "binder", "n": None, "pts": pts,
         "ops": [{"op": "mp", "params": [{"e": "Integral(t*y, (t, 0, 1))"}, {"py": "1/2"}]},
                 {"op": "gate", "g": {"k": "dag", "g": {"k": "mf", "name": "PHASE", "params": [{"e": "Product(j + x, (j, 1, 2))"}]}}, "q": [0]}],
         "map": [["x", {"py": "1"}], ["y", {"e": "3/4"}]]},
        # mixed numeric / symbolic circuit after a partial binding: two neighbouring non-commuting numeric gates
        {"kind": "mixed", "n": None, "pts": pts, "unitary": True,
         "ops": [{"op": "gate", "g": {"k": "mf", "name": "RX", "params": [{"e": "x"}]}, "q": [0]},
                 {"op": "gate", "g": {"k": "mf", "name": "RY", "params": [{"e": "y"}]}, "q": [0]},
                 {"op": "gate", "g": {"k": "mf", "name": "RZ", "params": [{"e": "z"}]}, "q": [0]}],
         "map": [["x", {"py": "1/2"}], ["y", {"py": "3/4"}]]},
        {"kind": "mixed", "n": 3, "pts": pts, "unitary": True,
         "ops": [{"op": "gate", "g": {"k": "mf", "name": "H", "params": []}, "q": [1]},
                 {"op": "gate", "g": {"k": "mf", "name": "RY", "params": [{"py": "3/4"}]}, "q": [1]},
                 {"op": "gate", "g": {"k": "mf", "name": "XX", "params": [{"e": "2*x + y"}]}, "q": [1, 0]},
                 {"op": "gate", "g": {"k": "mf", "name": "RX", "params": [{"e": "y"}]}, "q": [0]},
                 {"op": "gate", "g": {"k": "mf", "name": "CNOT", "params": []}, "q": [0, 1]}],
         "map": [["y", {"e": "1/3"}]], "map2": [["x", {"py": "2"}]]},
        # history on one circuit object: sibling maps, the first one again, edits of everything handed out, partial steps
        {"kind": "hist", "n": 2, "pts": pts, "poison": True, "unitary": True,
         "ops": [{"op": "gate", "g": {"k": "mf", "name": "RX", "params": [{"e": "2*x"}]}, "q": [0]},
                 {"op": "gate", "g": {"k": "mf", "name": "RY", "params": [{"e": "x + y"}]}, "q": [0]},
                 {"op": "mp", "params": [{"e": "z"}, {"e": "x"}]}],
         "maps": [[["x", {"py": "1"}]], [["x", {"py": "2"}]], [["x", {"py": "2"}], ["z", {"e": "1/2"}]], [["x", {"py": "1"}]]],
         "chain": [[["x", {"py": "1"}]], [["y", {"py": "2"}], ["z", {"e": "3"}]]]},
        # history on one gate object
        {"kind": "gate", "g": {"k": "ctrl", "n": 1, "g": {"k": "mf", "name": "RX", "params": [{"e": "2*x*y + 1"}]}},
         "map": [["x", {"py": "1/2"}]], "more_maps": [[["x", {"py": "3/4"}]], [["x", {"py": "3/4"}], ["y", {"e": "z"}]]], "pts": pts},
        # the very same operation object twice; the same custom-gate name with two different contents
        {"kind": "exotic", "flavour": "shared", "n": None, "pts": pts, "unitary": True,
         "ops": [{"op": "gate", "g": rx, "q": [0]}, {"op": "gate", "g": {"k": "mf", "name": "RY", "params": [{"e": "y"}]}, "q": [0]},
                 {"op": "gate", "g": rx, "q": [0], "same_as": 0}],
         "map": [["y", {"py": "1/2"}]]},
        {"kind": "exotic", "flavour": "samename", "n": 2, "pts": pts,
         "ops": [{"op": "gate", "g": {"k": "custom", "name": "U1", "params": [{"e": "x + y"}]}, "q": [0]},
                 {"op": "gate", "g": {"k": "custom", "name": "U1", "matrix": CUSTOM["U4"]["matrix"], "ord": CUSTOM["U4"]["ord"],
                                      "params": [{"e": "y"}, {"e": "x"}, {"py": "2"}]}, "q": [1]}],
         "map": [["x", {"py": "3"}]], "map2": [["y", {"e": "1/2"}]]},
        # --- look-alike symbols: same printed name, different sympy symbol (other assumptions / Dummies)
        # the map names only Symbol("theta", real=True); the circuit uses Symbol("theta") bare, compound and wrapped
        {"kind": "circuit", "n": 3, "pts": lpts, "look": {"family": 0},
         "ops": [{"op": "gate", "g": {"k": "mf", "name": "RX", "params": [{"e": "theta"}]}, "q": [0]},
                 {"op": "gate", "g": {"k": "mf", "name": "RY", "params": [{"e": "2*theta"}]}, "q": [1]},
                 {"op": "gate", "g": {"k": "ctrl", "n": 1, "g": {"k": "mf", "name": "XX", "params": [{"e": "theta"}]}}, "q": [2, 0, 1]}],
         "map": [["theta__real", {"py": "3/4"}]]},
        # two Dummy("t") in a MultiPhaseOperation
        {"kind": "circuit", "n": None, "pts": lpts, "look": {"family": 1},
         "ops": [{"op": "mp", "params": [{"e": "t__d1"}, {"py": "1/2"}]}], "map": [["t__d2", {"py": "1"}]]},
        # a MultiPhaseOperation whose parameters print alike: theta, theta (real), 2*theta
        {"kind": "circuit", "n": None, "pts": lpts, "look": {"family": 1},
         "ops": [{"op": "mp", "params": [{"e": "theta"}, {"e": "theta__real"}, {"py": "1/2"}, {"e": "2*theta"}]}],
         "map": [["theta__real", {"py": "3/4"}]], "map2": [["theta", {"e": "1/3"}]]},
        # both twins in the maps: partial steps = once
        {"kind": "circuit", "n": None, "pts": lpts, "look": {"family": 2}, "unitary": True,
         "ops": [{"op": "gate", "g": {"k": "mf", "name": "RX", "params": [{"e": "theta"}]}, "q": [0]},
                 {"op": "gate", "g": {"k": "mf", "name": "RX", "params": [{"e": "theta__real"}]}, "q": [0]}],
         "map": [["theta__real", {"py": "1/4"}]], "map2": [["theta", {"py": "1/2"}]]},
        # Dummy("x") prints "_x" like Symbol("_x"); wrapped gate; history on the gate object
        {"kind": "gate", "g": {"k": "dag", "raw": True, "g": {"k": "ctrl", "n": 1, "g": {"k": "mf", "name": "RZ", "params": [{"e": "_x"}]}}},
         "map": [["x__d1", {"py": "2"}]], "more_maps": [[["x__d1", {"py": "2"}], ["_x", {"e": "1/3"}]]], "pts": lpts, "look": {"family": 7}},
        # --- hardening: value twins on one circuit object (hash(-1) == hash(-2), hash(0) == hash(2**61-1), values 1e-9 apart)
        {"kind": "hist", "n": 2, "pts": pts, "poison": True, "twin": "neg",
         "ops": [{"op": "gate", "g": {"k": "mf", "name": "RX", "params": [{"e": "x"}]}, "q": [0]},
                 {"op": "gate", "g": {"k": "mf", "name": "RY", "params": [{"e": "2*x + y"}]}, "q": [1]},
                 {"op": "gate", "g": {"k": "mf", "name": "RX", "params": [{"e": "x"}]}, "q": [1], "gate_of": 0},
                 {"op": "mp", "params": [{"e": "y"}, {"e": "x"}]}],
         "maps": [[["x", {"py": "-1"}]], [["x", {"py": "-2"}]], [["x", {"py": "-2"}], ["y", {"py": "-1"}]], [["x", {"py": "-1"}], ["y", {"py": "-2"}]],
                  [["x", {"py": "-1"}]]]},
        {"kind": "gate", "g": {"k": "ctrl", "n": 1, "g": {"k": "mf", "name": "RZ", "params": [{"e": "x"}]}}, "pts": pts, "twin": "close", "matrix": False,
         "map": [["x", {"py": "0"}]], "more_maps": [[["x", {"py": BIGTWIN}]], [["x", {"num": ["float", "1e-12"]}]], [["x", {"num": ["float", "0.5"]}]],
                                                    [["x", {"num": ["float", "0.500000001"]}]]]},
        # refusal under a directly constructed dagger / control, at operation and circuit level, empty map
        {"kind": "circuit", "n": None, "pts": pts, "unitary": False, "map": [], "refusal": "pow/dag!",
         "ops": [{"op": "gate", "g": {"k": "dag", "raw": True, "g": {"k": "pow", "e": "1/2", "g": {"k": "mf", "name": "X", "params": []}}}, "q": [0]}]},
        {"kind": "gate", "g": {"k": "dag", "raw": True, "g": {"k": "ctrl", "n": 1, "raw": True, "g": {"k": "exp", "g": {"k": "mf", "name": "RX", "params": [{"py": "1/2"}]}}}},
         "map": [["x", {"py": "1"}]], "pts": pts, "refusal": "exp/ctrl!/dag!"},
        # a map whose values mention its own keys (swap): one reading must hold for bare and compound parameters alike
        # (KNOWN finding chained-map-bare-vs-compound: the unchanged library looks bare symbols up once and sends compound
        #  parameters through sympy's sequential subs)
        {"kind": "chained", "n": 1, "pts": pts, "style": "swap", "map": [["x", {"e": "y"}], ["y", {"e": "x"}]],
         "ops": [{"op": "gate", "g": {"k": "mf", "name": "RX", "params": [{"e": "x"}]}, "q": [0]},
                 {"op": "gate", "g": {"k": "mf", "name": "RY", "params": [{"e": "x + 2*y"}]}, "q": [0]}]},
        # custom gate whose formal parameters print alike, called with look-alikes of them
        {"kind": "circuit", "n": 2, "pts": lpts, "look": {"family": 4}, "unitary": True,
         "ops": [{"op": "gate", "g": {"k": "custom", "name": "U5", "params": [{"e": "theta__real"}, {"e": "theta + y"}]}, "q": [0]},
                 {"op": "gate", "g": {"k": "ctrl", "n": 1, "g": {"k": "custom", "name": "U1", "params": [{"e": "2*theta__real + theta"}]}}, "q": [1, 0]}],
         "map": [["theta", {"py": "1/2"}]], "map2": [["theta__real", {"e": "2/3"}]]},
    ]


def generate(rng, tier):
    big = tier == "thorough"
    cases = []
    for _ in range(450 if big else 44):
        # u3_matrix calls simplify() (0.4 s per evaluation): fewer of them in the quick tier
        cases.append(gen_circuit_case(rng, big, u3=big or rng.random() < 0.4))
    for _ in range(400 if big else 44):
        cases.append(gen_gate_case(rng, big))
    # circuits with a ResetOperation (regression of ddf37fe) and with a power / exponential gate in the middle
    for _ in range(30 if big else 6):
        c = gen_circuit_case(rng, big)
        w = max([q for o in c["ops"] if o["op"] == "gate" for q in o["q"]] + [0]) + 1
        c["ops"].insert(rng.randrange(len(c["ops"]) + 1), {"op": "reset", "q": rng.randrange(w)})
        c["unitary"] = False
        cases.append(c)
    for _ in range(40 if big else 8):
        c = gen_circuit_case(rng, big)
        g = gen_gate(rng, ["x"], True, max_q=1, powexp=True)
        c["ops"].insert(rng.randrange(len(c["ops"]) + 1), {"op": "gate", "g": g, "q": [0]})
        c["unitary"] = False
        cases.append(c)
    # values outside the model's grammar (pi, I, complex numbers): oracle only
    for _ in range(60 if big else 10):
        c = gen_circuit_case(rng, big)
        if c["map"]:
            c["map"][0][1] = {"e": rng.choice(["pi/3", "2*pi", "sqrt(2)", "pi/5", "E"])}
        c["model"] = False
        cases.append(c)
    # classes of subtle changes: mixed numeric/symbolic circuits, histories on one object, exotic but legal inputs
    for _ in range(70 if big else 12):
        cases.append(gen_mixed_case(rng, big))
    for _ in range(60 if big else 12):
        cases.append(gen_hist_case(rng, big))
    for i in range(140 if big else 28):
        cases.append(gen_exotic_case(rng, big, FLAVOURS[i % len(FLAVOURS)]))
    # look-alike symbols: decoys planted into a share of the cases above (every kind), plus hand-shaped families.
    # (a generator of its own, derived at the end, so that the cases above do not depend on it)
    lrng = random.Random(f"look:{rng.random()}")
    cases = [add_lookalikes(lrng, c) if (c.get("flavour") not in ("binder", "pynum") and lrng.random() < 0.3) else c for c in cases]
    for i in range(64 if big else 16):
        cases.append(gen_lookalike_case(lrng, i, big))
    # hardening families: value twins on one circuit / gate object, refusals for every nesting, chained maps
    hrng = random.Random(f"hard:{lrng.random()}")
    off = hrng.randrange(1000)
    for i in range(32 if big else 8):
        cases.append(gen_twin_hist_case(hrng, i, big))
    for i in range(16 if big else 4):
        cases.append(gen_twin_gate_case(hrng, off + i))
    for i in range(72 if big else 18):
        cases.append(gen_refusal_case(hrng, i))
    shapes = ["repeat", "funcname", "falsy", "long", "repeat", "funcname", "falsy", "long"]
    for i in range(32 if big else 8):
        cases.append(gen_shape_case(hrng, shapes[i % len(shapes)], big))
    for i in range(28 if big else 14):
        cases.append(gen_chained_case(hrng, i))
    return cases


def _all_maps(c):
    return [c["map"]] if "map" in c else list(c.get("maps") or [])


def nontrivial(c):
    for m in _all_maps(c):
        if _nontrivial_for(c, {k for k, _ in m}):
            return True
    return False


def _nontrivial_for(c, keys):
    found = []

    def walk(j):
        if isinstance(j, dict):
            if "e" in j and isinstance(j["e"], str):
                s = set(_idents(j["e"]))
                if len(s) >= 2 and (s & keys) and (s - keys):
                    found.append(1)
            for v in j.values():
                walk(v)
        elif isinstance(j, list):
            for v in j:
                walk(v)

    walk(c.get("ops", c.get("g")))
    return bool(found)


def distribution(cases, outs):
    d = {"circuits": 0, "gates": 0, "ops": 0, "op_kinds": {}, "wrappers": {}, "bind_outcomes": {}, "maps": {"empty": 0, "symbolic_value": 0, "two_step": 0, "extra": 0},
         "unitary_checked": 0, "unitary_routes": {"symbolic": 0, "numeric": 0}, "matrix_checked": 0, "model_skipped": 0, "max_width": 0,
         "kinds": {}, "history": {"binds": 0, "poisoned": 0, "chains": 0}, "lookalikes": {}}

    def wr(g):
        while "g" in g:
            key = g["k"] + ("-raw" if g.get("raw") else "")
            d["wrappers"][key] = d["wrappers"].get(key, 0) + 1
            g = g["g"]
        d["op_kinds"][g["k"] + ":" + g["name"]] = d["op_kinds"].get(g["k"] + ":" + g["name"], 0) + 1

    for c, o in zip(cases, outs):
        if c["kind"] == "gate":
            d["gates"] += 1
            wr(c["g"])
        else:
            d["circuits"] += 1
            d["ops"] += len(c["ops"])
            for op in c["ops"]:
                if op["op"] == "gate":
                    wr(op["g"])
                else:
                    d["op_kinds"][op["op"]] = d["op_kinds"].get(op["op"], 0) + 1
        key = c["kind"] + (":" + c["flavour"] if c.get("flavour") else "") + ("+history" if c.get("more_maps") else "")
        d["kinds"][key] = d["kinds"].get(key, 0) + 1
        if c.get("look"):
            lk = "family" if "family" in c["look"] else c["look"]["mode"]
            d["lookalikes"][lk] = d["lookalikes"].get(lk, 0) + 1
        if c["kind"] == "hist":
            d["history"]["binds"] += len(c["maps"])
            d["history"]["poisoned"] += 1 if c.get("poison") else 0
            d["history"]["chains"] += 1 if c.get("chain") else 0
        maps = _all_maps(c)
        if any(not m for m in maps):
            d["maps"]["empty"] += 1
        if any("e" in v and _idents(v["e"]) for m in maps for _, v in m):
            d["maps"]["symbolic_value"] += 1
        if c.get("map2") is not None:
            d["maps"]["two_step"] += 1
        if c.get("extra"):
            d["maps"]["extra"] += 1
        if not c.get("model", True):
            d["model_skipped"] += 1
        if isinstance(o, dict):
            for b in ([o["bound"]] if o.get("bound") else []) + list(o.get("binds") or []) + list(o.get("more") or []):
                key = b.get("err", "ok")
                d["bind_outcomes"][key] = d["bind_outcomes"].get(key, 0) + 1
                if b.get("unitary_diff") is not None:
                    d["unitary_checked"] += 1
                    d["unitary_routes"]["symbolic" if b["unitary"].get("symbolic_route") else "numeric"] += 1
                md = b.get("matrix_diff")
                d["matrix_checked"] += sum(1 for x in md if x is not None) if isinstance(md, list) else (1 if md is not None else 0)
            if o.get("construct"):
                d["bind_outcomes"]["construct:" + o["construct"]] = d["bind_outcomes"].get("construct:" + o["construct"], 0) + 1
            if "before" in o:
                d["max_width"] = max(d["max_width"], o["before"]["n"])
    return d
