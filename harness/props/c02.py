"""C02 — every built-in gate is a valid unitary that keeps its textbook identities.

Cases (all built from the given random.Random):
  table      the live gate table of circuits/_builtin_gates.py vs lean/OQ/Generated/GateTable.lean (as compiled
             into the driver): names, num_qubits, number of factory parameters, is_hermitian
  gate       one built-in gate at one tuple of angles; an angle is the point [cos θ/2, sin θ/2], either a rational
             point of the unit circle (Python gets the float θ = 2·atan2(sh, ch) [+ 4π·wrap]) or a multiple of π/4
             with exact ℚ(ζ₈) coordinates ("k8": θ = k·π/2, given to Python as a float or as an exact sympy number);
             mode "float" | "symbolic" (gate built with real sympy symbols, matrix substituted afterwards) | "sympy"
  pair       group law of a one-parameter family at two angles:  G(a)·G(b) vs G(a+b)
  zero       G(0) with the Python int 0 and the float 0.0
  relations  S·S=Z, T·T=S, SX·SX=X, H·Z·H=X, CNOT/CZ = diag(1, X/Z), SWAP exchanges qubits, Delay = 1
  malformed  wrong number of parameters (TypeError at .matrix) / unknown gate name (KeyError)

Round-3 strengthening (classes: shared mutable results / memoisation, history on long-lived objects, fast paths for
special parameter shapes, two code paths that must agree):
  gate       further modes, all answered by the model at the same circle point:  "spfloat" (sympy.Float), "exact"
             (theta = 2*atan2(sh, ch) + 4*pi*wrap as an exact sympy number), "bound" (gate built on symbols or
             expressions 2t, t+u, t/3, -t and then .bind()), "mixed" (some parameters symbols, the others floats; the
             rest bound or substituted), "replace" (.replace_params), "lit" (literal zeros of eight different kinds);
             angle shapes: tiny, next to pi, several turns of 4*pi
  zero       every parametric gate at every kind of literal zero (int, float, -0.0, sympy Integer/Float, t-t, 2t
             bound to 0, a+b bound to opposite numbers)
  session    ONE history on long-lived objects: gate objects are built once and then read repeatedly
             (.matrix, .dagger.matrix, num_qubits, is_hermitian), the matrices the caller got are edited in place
             ("poke"), equal objects are rebuilt, siblings differing in one component are interleaved, symbolic gate
             objects are bound several times, the group law and the fixed relations are evaluated at the end of the
             history.  Every read is compared with the model and is subject to the property's sentences.
  rawgate / rawpair   (oracle only: the model has no exact cos/sin of these)  Python ints, sympy Integers/Rationals,
             dyadic floats as angles in radians; group law across different number types, e.g. G(3)*G(0.0) = G(3.0)

Round-9 strengthening (class: an EXACT REAL CONSTANT as parameter whose realness / sign / zero-ness sympy cannot decide
syntactically - `is_real` / `is_zero` / `is_positive` is None):
  constgate / constpair   (oracle only: the model has no exact cos/sin of these)  every parametric built-in gate and Delay's
             duration at symbol-free sympy expressions denoting real numbers (acosh(2), atanh(1/2), asec(3), asin(1/3), log(3),
             exp(-2), sqrt(2), 2**(1/3), E, EulerGamma, GoldenRatio, cos(1), pi/7 + sqrt(3), -acosh(2), sums / products / total
             real functions of them, expressions that are 0 without sympy noticing), through every route a parameter value
             can take: constructor, bind of a symbol, bind inside an expression, replace_params, bind / replace_params of the gate
             operation, next to float parameters, substitution into the symbolic matrix.  Judged by the property's sentences at the value of the constant, which the
             harness computes itself with `math` (never with sympy): matrix computable, dimension, unitary, flag truthful,
             angle 0 = identity, the same real value gives the same matrix as its float, G(a)*G(b) = G(a+b) with a+b formed
             symbolically by sympy and G(a)*G(b) = G(float(a+b)).
"""
import copy
import inspect
import math
from fractions import Fraction

from .. import circ, common
from ..common import rat, unrat

PROP = "C02"
TOL = 1e-9
RULE = ("every one of the 27 gates; each parametric gate at 40 (thorough 400) random rational circle points per "
        "parameter + all axis points + the multiples of pi/2 (exact in Q(zeta8)), numerically, through real sympy "
        "symbols and with exact sympy numbers, + 20 (thorough 120) points in the representations sympy.Float / exact "
        "2*atan2 / bound expressions / partially symbolic / replace_params, incl. tiny angles, angles next to pi and "
        "several 4*pi turns; every kind of literal zero for every parametric gate; 10 one-parameter families at 20 "
        "(thorough 200) angle pairs; ~150 (thorough ~600) sessions = histories on long-lived gate objects with "
        "in-place edits of returned matrices, rebuilt equal objects, interleaved siblings, repeated binds, group law "
        "and fixed relations at the end; oracle-only integer / rational / mixed-type angles; oracle-only exact real "
        "constants (symbol-free sympy expressions: inverse hyperbolic / inverse trigonometric / log / exp / roots / named "
        "constants, their sums, products and compositions, hidden zeros; most with is_real / is_positive None) for every "
        "parametric gate and Delay through constructor / package attribute / bind / bind inside an expression / "
        "replace_params / GateOperation.bind / .replace_params / substitution / next to floats (~210 gates, ~70 group-law "
        "pairs per quick run); "
        "non-trivial: a parametric gate with at least one angle that is not a multiple of pi/2, an angle pair "
        "with both angles off the axes, the fixed-relation case, a session with an edit, a group-law step or two "
        "objects; distinct = distinct canonical JSON of the case")
TRUSTED = [
    "sympy numeric evaluation of cos/sin/exp/sqrt/atan2, Matrix arithmetic, Matrix.adjoint (Dagger.matrix), evalf and "
    "subs; sympy.simplify is sound (u3_matrix) - theorem u3_is_rz_ry_rz proves the simplified closed form the model "
    "uses equals the unsimplified product, the correspondence compares it at every sampled point",
    "float rounding: entries of modulus <= 1 computed by sympy/numpy from theta = 2*atan2(sh, ch) agree with the "
    "exact model value at the rational point (ch, sh) within 1e-9 (checked at every case, not assumed elsewhere)",
    "a real parameter theta is represented in the model by (cos theta/2, sin theta/2); theorems real_angle_meaning / "
    "real_angle_add prove this representation turns the model formulas into the code's cos, sin, exp(i theta) and "
    "Ang.add into + on the reals; the laws of the constants are PROVED for C (kC_laws) and Q(zeta8) (cyc8_laws)",
    "harness/tables.py:gate_table (reads name, num_qubits, is_hermitian and the factory signature off the live objects)",
    # --- T10: translation tie of the matrices themselves
    "T10: the 27 matrices of Model/Gates.lean are no longer trusted as a transcription: harness/translate_t10.py regenerates "
    "tr_<factory> from the ast of circuits/_matrices.py on every run and Props/C02_TranslatedMatrices.lean proves each equal to "
    "the model for all rings / all angle points (u3: the PRODUCT the code writes, simplify rendered as the identity, equals the "
    "closed form under i^2=-1 and the circle law - simplify's soundness is not assumed for the tie); trusted instead: the "
    "translator's mapping of sympy/numpy syntax (cos, sin, exp, sqrt, 1j, pi, 2**(-0.5), Matrix, *, /) to Scal / Ang "
    "(harness/translate_t10.py docstring), compared with the Python factories at exact Q(zeta8) points on every run",
    # --- T10 end
    "the model is a pure function of (gate, parameters): a session (history) is answered read by read by the same "
    "model function - that the implementation's answer may not depend on the history is exactly what is compared",
    "round 9 (constgate / constpair, oracle only): the real number an exact constant denotes is computed by the harness "
    "with Python's math module from the case's expression tree (_const_value), never with sympy; trusted: math's acosh, "
    "atanh, asinh, asin, acos, atan, log, exp, sqrt, cos, sin, tanh to ~1e-15 relative, the identities asec x = acos 1/x, "
    "acsc x = asin 1/x, acoth x = atanh 1/x, asech x = acosh 1/x, and that _const_sympy builds the expression the tree "
    "names (sympy.acosh etc. applied to sympy Rationals)",
]
ASSUMPTIONS = [
    "parameters are Python int/float or sympy numbers/symbols/expressions; numpy scalars are outside the domain "
    "(sympy 1.9 cannot sympify np.float64 under numpy 2 - environment limit recorded in DESIGN C02)",
    "Delay's duration is not an angle: the model ignores it, the harness passes an arbitrary rational",
    "'flagged self-adjoint' is observed as is_hermitian == True or `.dagger is gate`",
    "the property holds at every moment of a process: a caller editing a matrix it obtained from `.matrix` / "
    "`.dagger.matrix` (its own object in the unchanged library) is inside the domain and may not change any gate",
    "a 'real value of a parameter' may be written as any symbol-free sympy expression that denotes a finite real number, "
    "whether or not sympy's assumptions system can decide that (is_real / is_zero / is_positive may be None); generated "
    "are only expressions whose functions are applied strictly inside their real domains (no poles: |x| < 1 for atanh, "
    "x > 1 for acosh, |x| > 1 for asec / acsc / acoth, x > 0 for log and bases of powers), so zoo / nan / complex "
    "values never occur; special functions without a `math` counterpart (besselj, gamma, zeta, ...) are not generated",
    "'the gate's matrix for a real value' is a function of the VALUE: the same real number written as an exact constant "
    "and as its float must give the same matrix within 1e-9 (clause value:<gate>; for the one-parameter families it is "
    "the group law G(c)*G(b) = G(float(c+b)))",
]

ONE_PARAM_GROUP = ["RX", "RY", "RZ", "RH", "PHASE", "CPHASE", "XX", "YY", "ZZ", "XY"]
FIXED = [n for n, k in circ.BUILTIN_PARAMS.items() if k == 0]
PARAMETRIC = [n for n, k in circ.BUILTIN_PARAMS.items() if k > 0 and n != "Delay"]
AXIS = [[1, 0], [0, 1], [-1, 0], [0, -1]]
_R = [0, "1/2", 0, "-1/2"]      # 1/sqrt(2) in Q(zeta8)
_MR = [0, "-1/2", 0, "1/2"]
# (cos, sin) of k*pi/4, k = 0..7, exact
K8 = [[1, 0], [_R, _R], [0, 1], [_MR, _R], [-1, 0], [_MR, _MR], [0, -1], [_R, _MR]]
LITS = ["int0", "float0", "negfloat0", "spint0", "spfloat0", "sub0", "bind0", "bindsum0"]
EXPRS = ["t", "2t", "t+u", "t/3", "-t"]
POKES = ["setitem", "setlast", "row_swap", "fill", "col_del", "row_op"]
RELATION_GATES = ["S", "T", "SX", "X", "Z", "H", "CNOT", "CZ", "SWAP"]
_SYM_CACHE = {}


def _lib():
    common.use_repo()
    import orquestra.quantum.circuits as oqc
    from orquestra.quantum.circuits import _builtin_gates as bg
    from orquestra.quantum.circuits import _gates
    return oqc, bg, _gates


# ---------------------------------------------------------------------------------------------- generation
def _nparams(name):
    return circ.BUILTIN_PARAMS[name]


def _pt(t):
    """the point (cos, sin) of the half angle with tan(theta/4) = t"""
    t = Fraction(t)
    return [rat((1 - t * t) / (1 + t * t)), rat(2 * t / (1 + t * t))]


def _rat_point(rng):
    t = Fraction(rng.randrange(-12, 13), rng.randrange(1, 13))
    if t == 0 or abs(t) == 1:
        t = Fraction(rng.randrange(2, 12), rng.randrange(13, 30))
    return _pt(t)


EDGE_N = [10 ** 2, 10 ** 3, 10 ** 4, 10 ** 5, 10 ** 6]


def _edge_point(rng, n=None, tiny=None):
    """tiny angles (|theta| ~ 4/n, t = +-1/n) and angles next to +-2*pi, i.e. half angle next to +-pi (t = +-n)"""
    n = n or rng.choice(EDGE_N)
    sg = rng.choice([-1, 1])
    tiny = rng.random() < 0.5 if tiny is None else tiny
    return _pt(Fraction(sg, n) if tiny else Fraction(sg * n))


def _any_point(rng):
    r = rng.random()
    return _rat_point(rng) if r < 0.7 else (_edge_point(rng) if r < 0.85 else rng.choice(AXIS))


def _pt_add(a, b):
    ca, sa, cb, sb = unrat(a[0]), unrat(a[1]), unrat(b[0]), unrat(b[1])
    return [rat(ca * cb - sa * sb), rat(sa * cb + ca * sb)]


def _gate_case(name, angles, mode="float", **kw):
    c = {"kind": "gate", "gate": name, "angles": angles, "mode": mode}
    c.update(kw)
    return c


def _rand_mode(rng, name, k):
    if name == "Delay":
        return rng.choice(["float", "spfloat", "exact", "bound"])
    r = rng.random()
    if r < 0.3:
        return "float"
    if r < 0.45:
        return "spfloat"
    if r < 0.6:
        return "exact"
    if r < 0.8:
        return "bound"
    if r < 0.9 or k < 2:
        return "replace"
    return "mixed"


def _rand_spec(rng, name, mode=None):
    """a random in-domain description of one gate object (same fields as a `gate` case)"""
    k = _nparams(name)
    if k == 0:
        return {"gate": name, "angles": [], "mode": "float"}
    mode = mode or _rand_mode(rng, name, k)
    if name == "Delay":
        spec = {"gate": name, "mode": mode,
                "angles": [[rat(Fraction(rng.randrange(-99, 100), rng.randrange(1, 7))), 0]]}
    else:
        spec = {"gate": name, "angles": [_any_point(rng) for _ in range(k)], "mode": mode}
        if rng.random() < 0.3 and not (name == "U3" and mode == "exact"):
            spec["wrap"] = [rng.choice([0, 1, -1, 2, -3, 7, -20, 40]) for _ in range(k)]
    if mode == "bound":
        spec["expr"] = [rng.choice(EXPRS) for _ in range(k)]
        r = rng.random()
        if r < 0.3:
            spec["bind_steps"] = 2
        elif r < 0.6:
            spec["rebind"] = True
    if mode == "mixed":
        mask = [rng.random() < 0.5 for _ in range(k)]
        if all(mask) or not any(mask):
            mask[rng.randrange(k)] = not mask[0]
        spec["mask"] = mask
        spec["via"] = rng.choice(["bind", "subs"])
    return spec


def _same_shape_gates(name):
    return [n for n in PARAMETRIC if n != name and _nparams(n) == _nparams(name)
            and circ.BUILTIN_QUBITS[n] == circ.BUILTIN_QUBITS[name]]


def _sibling(rng, spec):
    """a description that differs from `spec` in exactly one component"""
    s = copy.deepcopy(spec)
    k = len(s["angles"])
    i = rng.randrange(k)
    kinds = ["neg", "shift", "wrap", "halfturn", "mode"]
    if k >= 2:
        kinds += ["swap", "swap"]
    if _same_shape_gates(s["gate"]):
        kinds.append("othergate")
    kind = rng.choice(kinds)
    c, sn = unrat(s["angles"][i][0]), unrat(s["angles"][i][1])
    if kind == "neg":
        s["angles"][i] = [rat(c), rat(-sn)]
    elif kind == "halfturn":
        s["angles"][i] = [rat(-c), rat(-sn)]
    elif kind == "shift":
        t = (sn / (1 + c)) if c != -1 else Fraction(10 ** 5)
        s["angles"][i] = _pt(t + Fraction(1, 10 ** 5))
    elif kind == "wrap":
        w = list(s.get("wrap") or [0] * k)
        w[i] += rng.choice([-1, 1])
        s["wrap"] = w
    elif kind == "swap":
        j = (i + 1) % k
        for key in ("angles", "wrap", "expr", "mask"):
            if s.get(key):
                s[key][i], s[key][j] = s[key][j], s[key][i]
    elif kind == "othergate":
        s["gate"] = rng.choice(_same_shape_gates(s["gate"]))
    elif kind == "mode":
        s["mode"] = "spfloat" if s["mode"] != "spfloat" else "float"
        for key in ("expr", "bind_steps", "mask", "via"):
            s.pop(key, None)
    if s.get("mode") == "exact" and s["gate"] == "U3":
        s.pop("wrap", None)
    return s


def _S(objs, steps):
    return {"kind": "session", "objs": objs, "steps": steps}


def _sessions(rng, big):
    out = []
    for _rep in range(4 if big else 1):
        for name in circ.BUILTIN_PARAMS:
            k = _nparams(name)
            fixed_like = k == 0 or name == "Delay"
            # A: the caller edits the matrix it got from .matrix, then asks again (same object, rebuilt equal object)
            for how in ("setitem", rng.choice(POKES[1:])):
                objs = [_rand_spec(rng, name)]
                steps = [["read", 0], ["poke", 0, "matrix", how], ["read", 0], ["rebuild", 0], ["read", 0]]
                if name in ("I", "Delay"):
                    objs.append(_rand_spec(rng, "Delay" if name == "I" else "I"))
                    steps.append(["read", 1])
                if fixed_like:
                    steps.append(["relations"])
                out.append(_S(objs, steps))
            # B: the same with the matrix of .dagger
            objs = [_rand_spec(rng, name)]
            steps = [["read", 0], ["poke", 0, "dagger", rng.choice(["setitem", "setitem"] + POKES)], ["read", 0]]
            if fixed_like:
                steps.append(["relations"])
            out.append(_S(objs, steps))
            if k == 0:
                continue
            # C: two siblings on interleaved reads, the second one rebuilt in between
            if name != "Delay":
                for _ in range(1 if name == "U3" else 2):
                    a = _rand_spec(rng, name, mode=rng.choice(["float", "float", "spfloat", "bound", "replace"]))
                    a["angles"] = [_rat_point(rng) if rng.random() < 0.8 else _edge_point(rng) for _ in range(k)]
                    out.append(_S([a, _sibling(rng, a)],
                                  [["read", 0], ["read", 1], ["read", 0], ["rebuild", 1], ["read", 1]]))
            # E: one long-lived symbolic gate object bound several times
            p1 = [_any_point(rng) for _ in range(k)] if name != "Delay" else _rand_spec(rng, name)["angles"]
            b1 = {"gate": name, "angles": p1, "mode": "bindof", "of": 0}
            b2 = _sibling(rng, dict(b1, mode="float")) if name != "Delay" else dict(b1, angles=[[7, 0]])
            b2.update(gate=name, mode="bindof", of=0)
            s0 = {"gate": name, "mode": "symobj",
                  "angles": [_rat_point(rng) for _ in range(k)] if name != "Delay" else [[3, 0]]}
            objs = [s0, b1, b2]
            steps = [["read", 0], ["read", 1], ["read", 2], ["poke", 1, "matrix", rng.choice(POKES)],
                     ["rebuild", 1], ["read", 1], ["read", 0]]
            if name != "U3":  # equal names, different symbols: a second symbolic object and a gate bound from it
                objs += [dict(s0, assume="plain", angles=b1["angles"]),
                         {"gate": name, "angles": s0["angles"], "mode": "bindof", "of": 3, "assume": "plain"}]
                steps += [["read", 3], ["read", 4], ["read", 0]]
            out.append(_S(objs, steps))
            # G: gates derived by replace_params from ONE long-lived concrete gate object whose matrix was read before
            if name != "Delay":
                a = _rand_spec(rng, name, mode=rng.choice(["float", "spfloat", "bound"]))
                a["angles"] = [_rat_point(rng) for _ in range(k)]
                d1 = dict(_sibling(rng, dict(a, mode="float")), gate=name, mode="replaceof", of=0)
                d2 = {"gate": name, "angles": [_any_point(rng) for _ in range(k)], "mode": "replaceof", "of": 0}
                out.append(_S([a, d1, d2], [["read", 0], ["read", 1], ["read", 2], ["read", 0], ["rebuild", 1], ["read", 1]]
                              if rng.random() < 0.7 else [["read", 1], ["read", 0], ["read", 2], ["read", 1]]))
        # D: group law at the end of a history
        for name in ONE_PARAM_GROUP:
            for variant in (0, 1):
                pa, pb = [_rat_point(rng) if rng.random() < 0.85 else _edge_point(rng) for _ in range(2)]
                if variant == 0 and rng.random() < 0.5:
                    pb = _edge_point(rng, tiny=True)
                ma, mb = [rng.choice(["float", "spfloat", "replace", "bound"]) for _ in range(2)]
                objs = [{"gate": name, "angles": [pa], "mode": ma}, {"gate": name, "angles": [pb], "mode": mb},
                        {"gate": name, "angles": [_pt_add(pa, pb)], "sum": [pa, pb], "mode": "float"},
                        {"gate": name, "angles": [[1, 0]], "mode": "lit", "lit": [rng.choice(LITS)]}]
                for o in objs[:2]:
                    if o["mode"] == "bound":
                        o["expr"] = [rng.choice(EXPRS)]
                if variant == 0:
                    steps = [["read", 2], ["read", 0], ["read", 1], ["law", 0, 1, 2], ["read", 3], ["law", 3, 1, 1]]
                else:
                    steps = [["read", 0], ["poke", 0, "matrix", "setitem"], ["read", 1],
                             ["poke", 1, "dagger", rng.choice(POKES)], ["read", 2], ["poke", 2, "matrix", rng.choice(POKES)],
                             ["law", 0, 1, 2], ["read", 3], ["poke", 3, "matrix", "setitem"], ["read", 3],
                             ["law", 3, 0, 0], ["law", 1, 3, 1]]
                out.append(_S(objs, steps))
            # the three gates of the law are bound from ONE long-lived symbolic gate object
            pa, pb = _rat_point(rng), _any_point(rng)
            objs = [{"gate": name, "angles": [_rat_point(rng)], "mode": "symobj"},
                    {"gate": name, "angles": [pa], "mode": "bindof", "of": 0},
                    {"gate": name, "angles": [pb], "mode": "bindof", "of": 0},
                    {"gate": name, "angles": [_pt_add(pa, pb)], "sum": [pa, pb], "mode": "bindof", "of": 0}]
            out.append(_S(objs, [["read", 1], ["read", 2], ["read", 3], ["law", 1, 2, 3], ["read", 0], ["rebuild", 1],
                                 ["law", 1, 2, 3]]))
            # … and derived by replace_params from ONE long-lived concrete gate object that has been read
            objs = [{"gate": name, "angles": [_rat_point(rng)], "mode": "float"},
                    {"gate": name, "angles": [pa], "mode": "replaceof", "of": 0},
                    {"gate": name, "angles": [pb], "mode": "replaceof", "of": 0},
                    {"gate": name, "angles": [_pt_add(pa, pb)], "sum": [pa, pb], "mode": "replaceof", "of": 0}]
            out.append(_S(objs, [["read", 0], ["read", 1], ["read", 2], ["read", 3], ["law", 1, 2, 3], ["read", 0]]))
        # F: longer random histories over several gates
        for _ in range(6):
            names = [rng.choice(FIXED + ["Delay"] + [n for n in PARAMETRIC if n != "U3"]) for _ in range(5)]
            objs = [_rand_spec(rng, n) for n in names]
            steps, seen = [], []
            for _ in range(12):
                r = rng.random()
                if r < 0.55 or not seen:
                    i = rng.randrange(len(objs))
                    steps.append(["read", i])
                    seen.append(i)
                elif r < 0.8:
                    steps.append(["poke", rng.choice(seen), rng.choice(["matrix", "dagger"]), rng.choice(POKES)])
                elif r < 0.9:
                    i = rng.choice(seen)
                    steps.append(["rebuild", i])
                    steps.append(["read", i])
                else:
                    steps.append(["relations"])
            for i in sorted(set(seen)):
                steps.append(["read", i])
            steps.append(["relations"])
            out.append(_S(objs, steps))
    return out


def _raw_value(rng, zero=False, t=None):
    t = t or rng.choice(["int", "spint", "rat", "float", "spfloat"])
    if zero:
        return [t, 0]
    if t in ("int", "spint"):
        return [t, rng.choice([rng.randrange(-12, 13), rng.randrange(-12, 13), 100, -1000, 25])]
    if t == "rat":
        return [t, rat(Fraction(rng.randrange(-40, 41), rng.randrange(1, 12)))]
    return [t, rat(Fraction(rng.randrange(-64, 65), 8))]

# ------------------------------------------------------------------ round 9: exact real constants (symbol-free expressions)
# A constant is a JSON tree: an int / "p/q" leaf, ["name", N], [f, x] for a function of one argument, ["pow", x, y],
# ["add", x, ...], ["mul", x, ...], ["neg", x].  `_const_sympy` builds the sympy expression, `_const_value` computes the real
# number it denotes with `math` only.
CONST_NAMES = {"pi": math.pi, "E": math.e, "EulerGamma": 0.5772156649015329, "GoldenRatio": (1 + math.sqrt(5)) / 2,
               "Catalan": 0.915965594177219}
CONST_FUNCS = {"acosh": math.acosh, "atanh": math.atanh, "asinh": math.asinh, "asin": math.asin, "acos": math.acos,
               "atan": math.atan, "log": math.log, "exp": math.exp, "sqrt": math.sqrt, "cos": math.cos, "sin": math.sin,
               "tanh": math.tanh, "asec": lambda x: math.acos(1 / x), "acsc": lambda x: math.asin(1 / x),
               "acoth": lambda x: math.atanh(1 / x), "asech": lambda x: math.acosh(1 / x)}
# families whose value at a real argument sympy 1.9 leaves undecided (is_real is None)
UNDECIDED_FUNCS = ["acosh", "atanh", "asinh", "asec", "acsc", "acoth", "asech"]
CONST_ATOMS = [
    ["acosh", 2], ["atanh", "1/2"], ["asin", "1/3"], ["log", 3], ["exp", -2], ["sqrt", 2], ["pow", 2, "1/3"], ["name", "E"],
    ["name", "EulerGamma"], ["name", "GoldenRatio"], ["cos", 1], ["add", ["mul", "1/7", ["name", "pi"]], ["sqrt", 3]],
    ["neg", ["acosh", 2]], ["asec", 3], ["acsc", -4], ["acoth", 3], ["asinh", "3/4"], ["asech", "1/2"], ["acos", "-2/5"],
    ["atan", 5], ["log", "1/3"], ["name", "Catalan"], ["sin", ["sqrt", 2]], ["tanh", "1/2"], ["pow", 5, "-2/3"],
    ["add", ["acosh", 2], ["atanh", "1/2"], ["neg", ["log", 3]]], ["mul", ["sqrt", 2], ["acosh", 2]],
    ["mul", ["atanh", "-1/3"], ["name", "pi"]], ["exp", ["neg", ["acosh", "3/2"]]], ["cos", ["atanh", "9/10"]],
    ["add", ["sqrt", 2], ["sqrt", 3], ["neg", ["name", "pi"]]], ["pow", ["acosh", 2], 2], ["atan", ["asec", -3]],
]
# real constants whose value is 0 although the expression does not say so
CONST_ZEROS = [
    ["add", ["acosh", 2], ["neg", ["log", ["add", 2, ["sqrt", 3]]]]],
    ["add", ["pow", ["cos", 1], 2], ["pow", ["sin", 1], 2], -1],
    ["add", ["atanh", "1/2"], ["mul", "-1/2", ["log", 3]]],
    ["add", ["acosh", 2], ["neg", ["acosh", 2]]],
    ["mul", 0, ["atanh", "1/2"]],
    ["add", ["asinh", "3/4"], ["neg", ["log", 2]]],
]
CONST_ROUTES = ["ctor", "bind", "bindexpr", "replace", "symsubs", "attr", "opbind", "opreplace", "mixed"]


def _const_sympy(e):
    import sympy
    if isinstance(e, (int, str)):
        return _sprat(e)
    op, args = e[0], e[1:]
    if op == "name":
        return getattr(sympy, args[0]) if args[0] != "E" else sympy.E
    xs = [_const_sympy(a) for a in args]
    if op == "add":
        return sympy.Add(*xs)
    if op == "mul":
        return sympy.Mul(*xs)
    if op == "neg":
        return -xs[0]
    if op == "pow":
        return sympy.Pow(xs[0], xs[1])
    if op in CONST_FUNCS:
        return getattr(sympy, op)(xs[0])
    raise AssertionError("unknown constant " + str(e))


def _const_value(e):
    if isinstance(e, (int, str)):
        return float(unrat(e))
    op, args = e[0], e[1:]
    if op == "name":
        return CONST_NAMES[args[0]]
    xs = [_const_value(a) for a in args]
    if op == "add":
        return math.fsum(xs)
    if op == "mul":
        return math.prod(xs)
    if op == "neg":
        return -xs[0]
    if op == "pow":
        return xs[0] ** xs[1]
    return CONST_FUNCS[op](xs[0])


def _q(rng, lo, hi, dens=(1, 2, 3, 4, 5, 6, 7, 9, 10, 12)):
    """a random rational in [lo, hi]"""
    d = rng.choice(dens)
    return Fraction(rng.randrange(int(lo * d), int(hi * d) + 1), d)


def _const_atom(rng, funcs=None):
    """one function value at a rational argument inside the function's real domain (never a pole)"""
    f = rng.choice(funcs or list(CONST_FUNCS))
    sg = rng.choice([-1, 1])
    if f in ("acosh",):
        x = 1 + Fraction(rng.randrange(1, 40), rng.randrange(1, 7))
    elif f in ("asec", "acsc", "acoth"):
        x = sg * (1 + Fraction(rng.randrange(1, 40), rng.randrange(1, 7)))
    elif f in ("atanh", "asin", "acos"):
        d = rng.randrange(2, 13)
        x = sg * Fraction(rng.randrange(1, d), d)
    elif f == "asech":
        d = rng.randrange(2, 13)
        x = Fraction(rng.randrange(1, d), d)
    elif f == "log":
        x = Fraction(rng.randrange(1, 40), rng.randrange(1, 9))
        x = x if x != 1 else Fraction(3)
    elif f == "sqrt":
        x = Fraction(rng.choice([2, 3, 5, 6, 7, 10, 11]), rng.choice([1, 1, 2, 3]))
    elif f == "exp":
        x = _q(rng, -3, 2)
    else:   # asinh, atan, cos, sin, tanh: total on the reals
        x = _q(rng, -5, 5) or Fraction(1, 3)
    return [f, rat(x)]


def _const(rng, undecided=False):
    """a random symbol-free real constant; undecided=True: built around a family sympy cannot decide"""
    base = _const_atom(rng, UNDECIDED_FUNCS) if undecided else (
        rng.choice(CONST_ATOMS) if rng.random() < 0.3 else _const_atom(rng))
    r = rng.random()
    if r < 0.45:
        return base
    if r < 0.6:
        return ["neg", base]
    if r < 0.7:
        return ["mul", rat(_q(rng, -3, 3) or Fraction(1, 2)), base]
    if r < 0.8:
        return ["add", base, ["mul", rat(_q(rng, -2, 2) or Fraction(2)), rng.choice(CONST_ATOMS[:25])]]
    if r < 0.87:
        return ["mul", base, rng.choice(CONST_ATOMS[:25])]
    if r < 0.94:
        return [rng.choice(["cos", "sin", "tanh", "atan", "asinh"]), base]
    return ["add", base, rat(_q(rng, -4, 4)), ["neg", ["name", rng.choice(list(CONST_NAMES))]]]


def _const_cases(rng, big):
    cases = []
    rep = 4 if big else 1
    for name in PARAMETRIC + ["Delay"]:
        k = _nparams(name)
        routes = CONST_ROUTES if name != "U3" else (CONST_ROUTES if big else ["ctor", "bind", "replace"])
        for route in routes:
            if route == "mixed" and k < 2:
                continue
            for und in ([True] if name == "U3" else ([True, False] if route in ("ctor", "bind", "replace") else [True]) * rep):
                if name == "U3":  # sympy.simplify on nested constants is slow: plain atoms only
                    consts = [_const_atom(rng, UNDECIDED_FUNCS) if i == 0 else rng.choice(CONST_ATOMS[:12]) for i in range(k)]
                    rng.shuffle(consts)
                else:
                    consts = [_const(rng, undecided=und) for _ in range(k)]
                c = {"kind": "constgate", "gate": name, "consts": consts, "route": route}
                if route == "mixed":
                    mask = [rng.random() < 0.5 for _ in range(k)]
                    if all(mask) or not any(mask):
                        mask[rng.randrange(k)] = not mask[0]
                    c["mask"] = mask
                cases.append(c)
    # the catalogue itself, each constant once by the plain constructor
    names = [n for n in PARAMETRIC if n != "U3"] + ["Delay"]
    for i, atom in enumerate(CONST_ATOMS):
        name = names[(i + rng.randrange(len(names))) % len(names)] if i >= len(names) else names[i]
        cases.append({"kind": "constgate", "gate": name, "consts": [atom] * _nparams(name), "route": "ctor"})
    # angle 0 written as a constant sympy does not recognise as 0: identity for the one-parameter families
    for name in ONE_PARAM_GROUP + ["Delay", "MS", "GPi2"]:
        for _ in range(2 * rep):
            cases.append({"kind": "constgate", "gate": name, "consts": [rng.choice(CONST_ZEROS) for _ in range(_nparams(name))],
                          "route": rng.choice(["ctor", "bind", "replace"]), "zero": True})
    # group law with a + b formed symbolically
    for name in ONE_PARAM_GROUP:
        for route in ["ctor", "bind", "replace", "ctor"] * rep:
            a, b = _const(rng, undecided=True), _const(rng, undecided=rng.random() < 0.5)
            if rng.random() < 0.5:
                a, b = b, a
            cases.append({"kind": "constpair", "gate": name, "a": ["const", a], "b": ["const", b], "route": route})
        for _ in range(rep):
            a = _const(rng, undecided=True)
            # a constant next to a plain number of another type; a constant and its negative; a constant and a hidden zero
            pairs = [(["const", a], _raw_value(rng)), (["const", a], ["const", ["neg", a]]),
                     (["const", _const(rng)], ["const", rng.choice(CONST_ZEROS)])]
            for pa, pb in pairs:
                if rng.random() < 0.5:
                    pa, pb = pb, pa
                cases.append({"kind": "constpair", "gate": name, "a": pa, "b": pb, "route": rng.choice(["ctor", "bind", "replace"])})
    return cases


def corpus():
    return [
        {"kind": "table"},
        {"kind": "relations", "durations": ["7/2", 0, -3]},
        _gate_case("H", []),  # F1 (fixed ba8b491): H.matrix raised under numpy 2
        _gate_case("RX", [["3/5", "4/5"]]),
        _gate_case("U3", [["3/5", "4/5"], ["5/13", "12/13"], ["-4/5", "3/5"]]),
        _gate_case("MS", [["3/5", "4/5"], ["5/13", "-12/13"]], mode="symbolic"),
        _gate_case("GPi", [K8[1]], mode="sympy", k8=[1]),
        {"kind": "pair", "gate": "RH", "a": ["3/5", "4/5"], "b": ["5/13", "12/13"]},
        {"kind": "malformed", "gate": "RX", "nargs": 0},
        {"kind": "malformed", "gate": "FOO", "nargs": 0},
        # round 3
        _gate_case("RZ", [["-3/5", "4/5"]], mode="exact", wrap=[2]),
        _gate_case("MS", [["3/5", "4/5"], ["5/13", "-12/13"]], mode="bound", expr=["2t", "t+u"], bind_steps=2),
        _gate_case("U3", [["3/5", "4/5"], [0, 1], ["-4/5", "3/5"]], mode="mixed", mask=[True, False, True], via="subs"),
        {"kind": "zero", "gate": "XX", "lit": ["spint0"]},
        {"kind": "zero", "gate": "CPHASE", "lit": ["bindsum0"]},
        {"kind": "rawpair", "gate": "XX", "a": ["int", 3], "b": ["float", 0]},
        {"kind": "rawgate", "gate": "U3", "raw": [["int", 1], ["rat", "-2/7"], ["spint", 30]]},
        _S([{"gate": "I", "angles": [], "mode": "float"}, {"gate": "Delay", "angles": [["5/2", 0]], "mode": "float"}],
           [["read", 0], ["poke", 0, "matrix", "setitem"], ["read", 0], ["read", 1], ["relations"]]),
        _S([{"gate": "H", "angles": [], "mode": "float"}],
           [["read", 0], ["poke", 0, "dagger", "setitem"], ["read", 0], ["relations"]]),
        _S([{"gate": "RY", "angles": [["3/5", "4/5"]], "mode": "float"},
            {"gate": "RY", "angles": [["5/13", "12/13"]], "mode": "spfloat"},
            {"gate": "RY", "angles": [_pt_add(["3/5", "4/5"], ["5/13", "12/13"])], "mode": "float",
             "sum": [["3/5", "4/5"], ["5/13", "12/13"]]}],
           [["read", 0], ["poke", 0, "matrix", "setitem"], ["read", 1], ["read", 2], ["rebuild", 0], ["law", 0, 1, 2]]),
        # round 9: exact real constants sympy cannot decide
        {"kind": "constgate", "gate": "RX", "consts": [["acosh", 2]], "route": "ctor"},
        {"kind": "constgate", "gate": "MS", "consts": [["atanh", "1/2"], ["neg", ["asec", 3]]], "route": "bind"},
        {"kind": "constpair", "gate": "RZ", "a": ["const", ["atanh", "1/2"]], "b": ["const", ["acosh", 2]], "route": "ctor"},
    ]


def generate(rng, tier):
    big = tier == "thorough"
    n_float = 400 if big else 40
    n_sym = 40 if big else 6
    n_pair = 200 if big else 20
    n_repr = 120 if big else 20
    cases = [{"kind": "table"},
             {"kind": "relations", "durations": [rat(Fraction(rng.randrange(-50, 50), rng.randrange(1, 9))) for _ in range(3)]}]
    names = list(circ.BUILTIN_PARAMS)
    for name in names:
        k = _nparams(name)
        if k == 0:
            cases.append(_gate_case(name, []))
            continue
        if name == "Delay":
            for _ in range(6 if not big else 40):
                cases.append(_gate_case(name, [[rat(Fraction(rng.randrange(-99, 100), rng.randrange(1, 7))), 0]]))
            for _ in range(8 if not big else 40):
                cases.append(dict(_rand_spec(rng, name), kind="gate"))
            continue
        # random rational circle points, numeric
        for _ in range(n_float):
            c = _gate_case(name, [_rat_point(rng) for _ in range(k)])
            if rng.random() < 0.15:
                c["wrap"] = [rng.choice([-1, 1]) for _ in range(k)]
            cases.append(c)
        # through real sympy symbols, substituted afterwards
        for _ in range(n_sym):
            cases.append(_gate_case(name, [_rat_point(rng) if rng.random() < 0.85 else rng.choice(AXIS) for _ in range(k)],
                                    mode="symbolic"))
        # axis points (theta = 0, pi, 2pi, -pi), every combination for k <= 2, a sample for U3
        combos = [[a] for a in AXIS] if k == 1 else (
            [[a, b] for a in AXIS for b in AXIS] if k == 2 else
            [[rng.choice(AXIS) for _ in range(k)] for _ in range(64 if big else 10)])
        for ang in combos:
            cases.append(_gate_case(name, ang))
        # multiples of pi/2: exact in Q(zeta8); float theta and exact sympy theta
        k8s = [[i] for i in range(8)] if k == 1 else [[rng.randrange(8) for _ in range(k)] for _ in range(24 if big else 8)]
        for ks in k8s:
            mode = rng.choice(["float", "sympy"]) if k > 1 else None
            for m in ([mode] if mode else ["float", "sympy"]):
                c = _gate_case(name, [K8[i] for i in ks], mode=m, k8=ks)
                if rng.random() < 0.25:
                    c["wrap"] = [rng.choice([-2, -1, 1, 3]) for _ in range(k)]
                cases.append(c)
        # other representations of a real parameter (sympy.Float, exact sympy number, bound expression, partially
        # symbolic, replace_params) and other shapes (tiny, next to pi, many turns)
        for j in range(n_repr // 3 if name == "U3" else n_repr):
            modes = ["spfloat", "exact", "bound", "replace", "float"] + (["mixed", "mixed"] if k >= 2 else [])
            cases.append(dict(_rand_spec(rng, name, mode=modes[j % len(modes)]), kind="gate"))
        for n, tiny in ([(rng.choice(EDGE_N), t) for t in (True, False, True, False)] if name == "U3" else
                        [(n, t) for n in EDGE_N for t in (True, False)]):
            cases.append(_gate_case(name, [_edge_point(rng, n, tiny) if i == 0 else _edge_point(rng) for i in range(k)]))
        # repeated equal elements: the same value / the very same symbol in every parameter slot
        if k >= 2:
            for m in ["float", "samesym", "spfloat", "samesym"] * (3 if big else 1):
                cases.append(_gate_case(name, [_rat_point(rng)] * k, mode=m))
    for name in ONE_PARAM_GROUP:
        for _ in range(n_pair):
            a = _rat_point(rng) if rng.random() < 0.9 else rng.choice(AXIS)
            b = _rat_point(rng) if rng.random() < 0.9 else rng.choice(AXIS)
            cases.append({"kind": "pair", "gate": name, "a": a, "b": b})
        # the same law with each angle in its own representation (float, sympy.Float, exact sympy number), tiny
        # angles, several turns; a + b is formed by Python / sympy
        for _ in range(n_pair // 2):
            c = {"kind": "pair", "gate": name}
            for x in ("a", "b"):
                m = rng.choice(["float", "spfloat", "exact", "sympy"])
                c["m" + x] = m
                if m == "sympy":
                    c["k" + x] = rng.randrange(8)
                    c[x] = K8[c["k" + x]]
                else:
                    c[x] = _any_point(rng)
                if rng.random() < 0.3:
                    c["w" + x] = rng.choice([1, -1, 2, -5])
            cases.append(c)
        # a tiny angle of every magnitude / an angle next to a full turn, on either side (G(a+b) is then built right
        # after its near-duplicate G(b) or G(a))
        for n in EDGE_N:
            for tiny in (True, False):
                pq = [_rat_point(rng), _edge_point(rng, n, tiny)]
                if rng.random() < 0.5:
                    pq.reverse()
                cases.append({"kind": "pair", "gate": name, "a": pq[0], "b": pq[1]})
        # exact multiples of pi/2 (sympy numbers): every multiple on one of the sides, sums that are whole turns
        kk = [(ka, rng.randrange(-8, 9)) if rng.random() < 0.5 else (rng.randrange(-8, 9), ka) for ka in range(8)]
        kk += [(ka, t - ka) for t in (0, 4, 8, -4, 12, 16) for ka in [rng.randrange(-8, 9)]]
        for ka, kb in kk:
            cases.append({"kind": "pair", "gate": name, "ma": "sympy", "mb": "sympy", "ka": ka, "kb": kb,
                          "a": K8[ka % 8], "b": K8[kb % 8]})
    # every kind of literal zero for every parametric gate
    for name in PARAMETRIC + ["Delay"]:
        k = _nparams(name)
        for lit in LITS:
            cases.append({"kind": "zero", "gate": name, "lit": [lit] * k})
        if k >= 2:
            for _ in range(4):
                cases.append({"kind": "zero", "gate": name, "lit": [rng.choice(LITS) for _ in range(k)]})
    # malformed stream
    for name in names:
        k = _nparams(name)
        if k == 0:
            continue
        for n in sorted({0, k - 1, k + 1} - {k}):
            cases.append({"kind": "malformed", "gate": name, "nargs": n})
    for bad in ["FOO", "rx", "CNOT2", "", "Rx"]:
        cases.append({"kind": "malformed", "gate": bad, "nargs": rng.randrange(0, 3)})
    # histories on long-lived objects
    cases.extend(_sessions(rng, big))
    # oracle-only: angles in radians that are ints / sympy Integers / Rationals / dyadic floats
    for name in PARAMETRIC + ["Delay"]:
        for _ in range((3 if name == "U3" else 6) * (4 if big else 1)):
            cases.append({"kind": "rawgate", "gate": name, "raw": [_raw_value(rng) for _ in range(_nparams(name))]})
    for name in ONE_PARAM_GROUP:
        for _rep in range(5 if big else 1):
            # Python ints on both sides (both odd, mixed parity, negative); every number type against a zero of
            # another type ( G(3)*G(0.0) = G(3.0) ties the int path to the float path ); random types
            odd = lambda: 2 * rng.randrange(-6, 6) + 1  # noqa: E731
            for a, b in [(odd(), odd()), (odd(), odd()), (odd(), 2 * rng.randrange(-5, 6)), (rng.randrange(-12, 13), odd()),
                         (rng.choice([25, 100, -1000, 77]), odd()), (rng.randrange(-9, 10), rng.randrange(-9, 10))]:
                t1, t2 = rng.choice([("int", "int"), ("int", "int"), ("int", "spint"), ("spint", "spint")])
                cases.append({"kind": "rawpair", "gate": name, "a": [t1, a], "b": [t2, b]})
            for t in ["int", "spint", "rat", "float", "spfloat"]:
                a = _raw_value(rng, t=t)
                if t in ("int", "spint") and a[1] % 2 == 0:
                    a[1] += 1
                cases.append({"kind": "rawpair", "gate": name, "a": a,
                              "b": [rng.choice([x for x in ["int", "spint", "rat", "float", "spfloat"] if x != t]), 0]})
            for _ in range(6):
                cases.append({"kind": "rawpair", "gate": name, "a": _raw_value(rng), "b": _raw_value(rng)})
    # oracle-only: exact real constants (symbol-free sympy expressions) through every route of a parameter value
    cases.extend(_const_cases(rng, big))
    return cases


def _on_axis(a):
    return a in AXIS or a in K8


def nontrivial(c):
    k = c["kind"]
    if k == "gate":
        return c["gate"] != "Delay" and any(not _on_axis(a) for a in c["angles"])
    if k == "pair":
        return not _on_axis(c["a"]) and not _on_axis(c["b"])
    if k == "session":
        return len(c["objs"]) >= 2 or any(st[0] in ("poke", "law") for st in c["steps"])
    if k == "rawgate":
        return any(v[1] != 0 for v in c["raw"])
    if k == "rawpair":
        return c["a"][1] != 0 and c["b"][1] != 0
    if k == "constgate":
        return c["gate"] != "Delay"
    if k == "constpair":
        return True
    return k == "relations"


# ---------------------------------------------------------------------------------------------- implementation
def _coord(x):
    """a coordinate of an angle point: rational or Q(zeta8) 4-list -> float"""
    if isinstance(x, list):
        z = common.cyc_to_complex(x)
        return z.real
    return float(unrat(x))


def _theta(angle, wrap=0, k8=None):
    if k8 is not None:
        return k8 * math.pi / 2 + 4.0 * math.pi * wrap
    return 2.0 * math.atan2(_coord(angle[1]), _coord(angle[0])) + 4.0 * math.pi * wrap


def _num(m):
    """sympy matrix with numeric entries -> nested [re, im] floats"""
    import numpy as np
    if getattr(m, "free_symbols", None):
        raise ValueError(f"the matrix still contains the symbols {sorted(map(str, m.free_symbols))} although every "
                         f"parameter was given a real value")
    a = np.array(m.evalf().tolist(), dtype=complex)
    if a.ndim != 2:
        a = a.reshape(m.shape)
    return [[[float(z.real), float(z.imag)] for z in row] for row in a]


def _np(m):
    import numpy as np
    a = np.array([[complex(e[0], e[1]) for e in row] for row in m])
    return a if a.ndim == 2 else a.reshape((len(m), 0))


def _describe2(g, sub=None):
    """everything the property observes of one gate object; also hands back the two matrix OBJECTS the library
    returned (they belong to the caller, who may edit them)"""
    m = g.matrix
    d = g.dagger
    dm = d.matrix
    ms, ds = (m.subs(sub, simultaneous=True), dm.subs(sub, simultaneous=True)) if sub else (m, dm)
    return {"m": _num(ms), "nq": int(g.num_qubits), "herm": bool(g.is_hermitian),
            "dagger_self": d is g, "dagger": _num(ds)}, m, dm


def _describe(g, sub=None):
    return _describe2(g, sub)[0]


def _build(name, params):
    oqc, bg, _ = _lib()
    ref = bg.builtin_gate_by_name(name)
    return ref if _nparams(name) == 0 else ref(*params)


def _syms(n, prefix="t", real=True):
    import sympy
    return list(sympy.symbols(f"{prefix}0:{n}", real=True) if real else sympy.symbols(f"{prefix}0:{n}"))


def _sprat(x):
    import sympy
    f = unrat(x)
    return sympy.Rational(f.numerator, f.denominator)


def _thetas(spec):
    """the real parameter values of a gate description: Python floats, or exact sympy numbers (modes sympy/exact)"""
    import sympy
    name, mode = spec["gate"], spec.get("mode", "float")
    n = _nparams(name)
    if name == "Delay":
        d = unrat(spec["angles"][0][0])
        return [sympy.Rational(d.numerator, d.denominator)] if mode in ("exact", "sympy") else [float(d)]
    if "sum" in spec:
        return [_theta(spec["sum"][0]) + _theta(spec["sum"][1])]
    wraps = spec.get("wrap") or [0] * n
    k8 = spec.get("k8") or [None] * n
    if mode == "sympy":
        return [sympy.pi * sympy.Rational(q, 2) + 4 * sympy.pi * w for q, w in zip(k8, wraps)]
    if mode == "exact":
        return [2 * sympy.atan2(_sprat(a[1]), _sprat(a[0])) + 4 * sympy.pi * w for a, w in zip(spec["angles"], wraps)]
    return [_theta(a, w, q) for a, w, q in zip(spec["angles"], wraps, k8)]


def _realise(spec, pool=None):
    """build the gate object a description stands for -> (gate, substitution still to be applied to its matrices)"""
    import sympy
    name, mode = spec["gate"], spec.get("mode", "float")
    n = _nparams(name)
    if n == 0:
        return _build(name, []), None
    ts, us = _syms(n), _syms(n, "u")
    if spec.get("assume") == "plain":  # same NAMES as the real symbols, different symbols
        ts = _syms(n, real=False)
    if mode == "lit":
        params, bind = [], {}
        for i, kind in enumerate(spec["lit"]):
            if kind == "int0":
                params.append(0)
            elif kind == "float0":
                params.append(0.0)
            elif kind == "negfloat0":
                params.append(-0.0)
            elif kind == "spint0":
                params.append(sympy.Integer(0))
            elif kind == "spfloat0":
                params.append(sympy.Float(0))
            elif kind == "sub0":
                params.append(ts[i] - ts[i])
            elif kind == "bind0":
                params.append(2 * ts[i])
                bind[ts[i]] = 0
            elif kind == "bindsum0":
                params.append(ts[i] + us[i])
                bind[ts[i]] = 0.25
                bind[us[i]] = -0.25
            else:
                raise AssertionError("unknown literal " + kind)
        g = _build(name, params)
        return (g.bind(bind) if bind else g), None
    th = _thetas(spec)
    if mode in ("float", "sympy", "exact"):
        return _build(name, th), None
    if mode == "spfloat":
        return _build(name, [sympy.Float(x) for x in th]), None
    if mode == "replace":
        return _build(name, [0.125 * (i + 1) for i in range(n)]).replace_params(tuple(th)), None
    if mode == "bound":
        params, binds = [], []
        for i, (e, x) in enumerate(zip(spec["expr"], th)):
            t, u = ts[i], us[i]
            if e == "t":
                params.append(t)
                binds.append((t, x))
            elif e == "2t":
                params.append(2 * t)
                binds.append((t, x / 2))
            elif e == "t+u":
                params.append(t + u)
                binds += [(t, x - 0.25), (u, 0.25)]
            elif e == "t/3":
                params.append(t / 3)
                binds.append((t, 3 * x))
            elif e == "-t":
                params.append(-t)
                binds.append((t, -x))
            else:
                raise AssertionError("unknown expression " + e)
        g = _build(name, params)
        binds.append((sympy.Symbol("z9", real=True), 1.0))  # a symbol the gate does not contain
        if spec.get("bind_steps") == 2:
            h = (len(binds) + 1) // 2
            return g.bind(dict(binds[:h])).bind(dict(binds[h:])), None
        d = dict(binds)
        if spec.get("rebind"):  # the caller's map is used for a first bind, then again
            g.bind(d)
        return g.bind(d), None
    if mode == "mixed":
        params = [ts[i] if mk else th[i] for i, mk in enumerate(spec["mask"])]
        rest = {ts[i]: th[i] for i, mk in enumerate(spec["mask"]) if mk}
        g = _build(name, params)
        return (g.bind(rest), None) if spec.get("via") == "bind" else (g, rest)
    if mode == "samesym":  # the SAME symbol in every parameter slot (all angles of the description are equal)
        return _build(name, [ts[0]] * n), {ts[0]: th[0]}
    if mode == "symobj":
        return _build(name, ts), dict(zip(ts, th))
    if mode == "bindof":
        g0, _ = pool(spec["of"])
        return g0.bind(dict(zip(ts, th))), None
    if mode == "replaceof":  # derived from a long-lived CONCRETE gate object (whose matrix may have been read before)
        g0, _ = pool(spec["of"])
        return g0.replace_params(tuple(th)), None
    raise AssertionError("unknown mode " + str(mode))


def _poke(m, how):
    """edit IN PLACE a matrix the caller obtained from the library; False if the object does not allow it"""
    try:
        r, c = m.shape
        if how == "setitem":
            m[0, 0] = 3
        elif how == "setlast":
            m[r - 1, c - 1] = -2
        elif how == "row_swap":
            m.row_swap(0, r - 1)
        elif how == "fill":
            m.fill(0)
        elif how == "col_del":
            m.col_del(0)
        elif how == "row_op":
            m.row_op(r - 1, lambda v, j: 2 * v + 1)
        else:
            raise AssertionError("unknown edit " + how)
        return True
    except AssertionError:
        raise
    except Exception:
        return False


def _read_relations(durations=()):
    oqc, _, _ = _lib()
    out = {nm: _num(getattr(oqc, nm).matrix) for nm in RELATION_GATES}
    out["Delay"] = [_num(oqc.Delay(float(unrat(d))).matrix) for d in durations]
    return out


def _run_session(c):
    objs, last, outs = {}, {}, []

    def pool(i):
        if i not in objs:
            objs[i] = _realise(c["objs"][i], pool)
        return objs[i]

    for st in c["steps"]:
        op = st[0]
        try:
            if op == "read":
                g, sub = pool(st[1])
                o, m, dm = _describe2(g, sub)
                last[(st[1], "matrix")], last[(st[1], "dagger")] = m, dm
            elif op == "poke":
                o = {"poked": _poke(last[(st[1], st[2])], st[3])}
            elif op == "rebuild":
                objs.pop(st[1], None)
                o = {}
            elif op == "law":
                o = {key: _num(pool(i)[0].matrix) for key, i in zip(("a", "b", "ab"), st[1:4])}
            elif op == "relations":
                o = _read_relations(["-3/2", 0, 11])
            else:
                raise AssertionError("unknown step")
        except AssertionError:
            raise
        except Exception as e:  # a read that fails is an observation, the history goes on
            o = {"exc": type(e).__name__, "msg": str(e)[:200]}
        outs.append(o)
    return {"steps": outs}


def _raw(v):
    import sympy
    t, x = v
    if t == "int":
        return int(x)
    if t == "spint":
        return sympy.Integer(int(x))
    if t == "rat":
        return _sprat(x)
    if t == "float":
        return float(unrat(x))
    if t == "spfloat":
        return sympy.Float(float(unrat(x)))
    raise AssertionError("unknown number type")


def _pair_params(c):
    """the two parameter objects of a group-law case, each in its own representation; the caller forms a + b"""
    import sympy
    out = []
    for x in ("a", "b"):
        mode = c.get("m" + x, "float")
        spec = {"gate": c["gate"], "angles": [c[x]], "mode": "float" if mode == "spfloat" else mode,
                "wrap": [c.get("w" + x, 0)]}
        if "k" + x in c:
            spec["k8"] = [c["k" + x]]
        v = _thetas(spec)[0]
        out.append(sympy.Float(v) if mode == "spfloat" else v)
    return out


def _zero_spec(c):
    lit = c.get("lit") or [{"int": "int0", "float": "float0"}[c["zero"]]] * _nparams(c["gate"])
    ang = [[0, 0]] if c["gate"] == "Delay" else [[1, 0]] * len(lit)
    return {"gate": c["gate"], "mode": "lit", "lit": lit, "angles": ang}

def _decided(x):
    """what sympy itself can say about a constant (recorded for the input-distribution evidence only)"""
    return [str(getattr(x, a, "n/a")) for a in ("is_real", "is_zero", "is_positive")]


def _const_gate(name, consts, route, mask=None, values=None):
    """the gate `name` at the given sympy constants, obtained through one route -> (gate, substitution still to apply)"""
    import sympy
    oqc, bg, _ = _lib()
    n = len(consts)
    ts, us = _syms(n), _syms(n, "u")
    if route == "ctor":
        return _build(name, consts), None
    if route == "attr":       # the public name of the package
        return getattr(oqc, name)(*consts), None
    if route == "bind":
        return _build(name, ts).bind(dict(zip(ts, consts))), None
    if route == "bindexpr":   # the constant arrives inside expressions: 2t, t + u, -t, t + (another constant)
        params, binds = [], {}
        for i, x in enumerate(consts):
            t, u = ts[i], us[i]
            if i % 4 == 0:
                params.append(2 * t)
                binds[t] = x / 2
            elif i % 4 == 1:
                params.append(t + u)
                binds[t], binds[u] = x - sympy.Rational(1, 4), sympy.Rational(1, 4)
            elif i % 4 == 2:
                params.append(-t)
                binds[t] = -x
            else:
                params.append(t + x)
                binds[t] = 0
        return _build(name, params).bind(binds), None
    if route == "replace":
        return _build(name, [0.125 * (i + 1) for i in range(n)]).replace_params(tuple(consts)), None
    if route == "symsubs":
        return _build(name, ts), dict(zip(ts, consts))
    if route == "opbind":     # through the gate operation of a circuit
        return _build(name, ts)(*range(circ.BUILTIN_QUBITS[name])).bind(dict(zip(ts, consts))).gate, None
    if route == "opreplace":
        op = _build(name, [0.25 * (i + 1) for i in range(n)])(*range(circ.BUILTIN_QUBITS[name]))
        return op.replace_params(tuple(consts)).gate, None
    if route == "mixed":      # some parameters constants, the others Python floats
        return _build(name, [x if mk else v for x, mk, v in zip(consts, mask, values)]), None
    raise AssertionError("unknown route " + str(route))


def _pair_operand(v):
    """-> (parameter object, its real value computed without sympy)"""
    if v[0] == "const":
        return _const_sympy(v[1]), _const_value(v[1])
    return _raw(v), float(unrat(v[1]))


def _run_constpair(c):
    name, route = c["gate"], c["route"]
    (a, va), (b, vb) = _pair_operand(c["a"]), _pair_operand(c["b"])
    ab = a + b  # formed by sympy / Python
    t = _syms(1)[0]
    if route == "ctor":
        mk = lambda x: _build(name, [x])  # noqa: E731
    elif route == "bind":
        g0 = _build(name, [t])
        mk = lambda x: g0.bind({t: x})  # noqa: E731
    elif route == "replace":
        g0 = _build(name, [0.375])
        g0.matrix
        mk = lambda x: g0.replace_params((x,))  # noqa: E731
    else:
        raise AssertionError("unknown route " + str(route))
    return {"a": _num(mk(a).matrix), "b": _num(mk(b).matrix), "ab": _num(mk(ab).matrix),
            "abf": _num(_build(name, [va + vb]).matrix), "values": [va, vb],
            "decided": [_decided(x) for x in (a, b, ab)]}


def run_impl(c):
    import sympy
    oqc, bg, _gates = _lib()
    k = c["kind"]
    if k == "table":
        rows = []
        for attr, v in vars(bg).items():
            if isinstance(v, _gates.MatrixFactoryGate):
                g = v
            elif inspect.isfunction(v) and v.__qualname__.startswith("make_parametric_gate_prototype.<locals>"):
                g = v()
            else:
                continue
            rows.append([attr, g.name, int(g.num_qubits), len(inspect.signature(g.matrix_factory).parameters),
                         bool(g.is_hermitian)])
        return {"rows": rows}
    if k == "gate":
        name = c["gate"]
        n = _nparams(name)
        if c["mode"] != "symbolic" or name == "Delay":
            g, sub = _realise(dict(c, mode="float") if c["mode"] == "symbolic" else c)
            return _describe(g, sub)
        # symbolic: real symbols, then simultaneous substitution of the floats
        thetas = _thetas(c)
        syms = sympy.symbols(f"t0:{n}", real=True)
        if name not in _SYM_CACHE:
            g = _build(name, list(syms))
            _SYM_CACHE[name] = (g, g.matrix, g.dagger.matrix, sorted(str(s) for s in g.free_symbols))
        g, msym, dsym, free = _SYM_CACHE[name]
        sub = dict(zip(syms, thetas))
        out = {"m": _num(msym.subs(sub, simultaneous=True)), "nq": int(g.num_qubits), "herm": bool(g.is_hermitian),
               "dagger_self": g.dagger is g, "dagger": _num(dsym.subs(sub, simultaneous=True)), "free": free}
        return out
    if k == "zero":
        return _describe(*_realise(_zero_spec(c)))
    if k == "session":
        return _run_session(c)
    if k == "rawgate":
        return _describe(_build(c["gate"], [_raw(v) for v in c["raw"]]))
    if k == "rawpair":
        a, b = _raw(c["a"]), _raw(c["b"])
        return {"a": _num(_build(c["gate"], [a]).matrix), "b": _num(_build(c["gate"], [b]).matrix),
                "ab": _num(_build(c["gate"], [a + b]).matrix)}
    if k == "constgate":
        consts = [_const_sympy(e) for e in c["consts"]]
        values = [_const_value(e) for e in c["consts"]]
        out = _describe(*_const_gate(c["gate"], consts, c["route"], c.get("mask"), values))
        out["ref"] = _num(_build(c["gate"], values).matrix)    # the same gate at the floats of the same real numbers
        out["values"] = values
        out["decided"] = [_decided(x) for x in consts]
        return out
    if k == "constpair":
        return _run_constpair(c)
    if k == "pair":
        pa, pb = _pair_params(c)
        return {"a": _num(_build(c["gate"], [pa]).matrix), "b": _num(_build(c["gate"], [pb]).matrix),
                "ab": _num(_build(c["gate"], [pa + pb]).matrix)}
    if k == "relations":
        return _read_relations(c["durations"])
    if k == "malformed":
        try:
            ref = bg.builtin_gate_by_name(c["gate"])
        except KeyError:
            return {"err": "err:key"}
        if not callable(ref) or isinstance(ref, _gates.MatrixFactoryGate):
            return {"err": "not-a-prototype"}
        g = ref(*[0.5 + i for i in range(c["nargs"])])  # the prototype itself does not check (TODO in the code)
        try:
            g.matrix
        except TypeError:
            return {"err": "err:type"}
        return {"err": None}
    raise AssertionError("unknown kind")


# ---------------------------------------------------------------------------------------------- model requests
def _gate_request(spec):
    angles = spec["angles"] if spec["gate"] != "Delay" else [[spec["angles"][0][0], 0]]
    return ("gate", {"gate": spec["gate"], "angles": angles})


def requests(c, out):
    k = c["kind"]
    if k == "table":
        return [("table", {})]
    if k == "gate":
        return [_gate_request(c)]
    if k == "pair":
        return [("pair", {"gate": c["gate"], "a": c["a"], "b": c["b"]})]
    if k == "zero":
        return [_gate_request(_zero_spec(c))]
    if k == "relations":
        return [("relations", {})]
    if k == "malformed":
        return [("gate", {"gate": c["gate"], "angles": [["3/5", "4/5"]] * c["nargs"]})]
    if k == "session":
        rs = []
        for st in c["steps"]:
            if st[0] == "read":
                rs.append(_gate_request(c["objs"][st[1]]))
            elif st[0] == "law":
                a, b = c["objs"][st[1]], c["objs"][st[2]]
                rs.append(("pair", {"gate": a["gate"], "a": a["angles"][0], "b": b["angles"][0]}))
            elif st[0] == "relations":
                rs.append(("relations", {}))
        return rs
    return []  # rawgate / rawpair: oracle only


def _close(impl, model_json):
    return circ.close(_np(impl), circ.model_matrix_to_numpy(model_json), TOL)


def _label(spec):
    extra = {k: v for k, v in spec.items() if k not in ("kind", "gate", "angles", "mode")}
    return f"{spec['gate']}{spec.get('angles', '')} [{spec.get('mode', 'float')}{' ' + str(extra) if extra else ''}]"


def _cmp_gate(spec, out, r):
    name = spec["gate"]
    if isinstance(r, dict) and "driver_error" in r:
        return "driver error: " + r["driver_error"]
    if "exc" in out:
        return f"{_label(spec)}: implementation raised {out['exc']}: {out.get('msg')} where the model answers {str(r)[:120]}"
    if isinstance(r["m"], str):
        return f"model could not compute {name}: {r['m']}"
    if not _close(out["m"], r["m"]):
        return f"{_label(spec)}: matrix {out['m']} differs from the model"
    if (out["nq"], out["herm"], out["dagger_self"]) != (r["nq"], r["herm"], r["dagger_self"]):
        return (f"{name}: num_qubits/is_hermitian/dagger-is-self {out['nq'], out['herm'], out['dagger_self']} "
                f"differ from the model {r['nq'], r['herm'], r['dagger_self']}")
    if not _close(out["dagger"], r["dagger"]):
        return f"{_label(spec)}: .dagger.matrix differs from the model"
    if name != "Delay" and not r.get("unitary"):
        return f"model self-test: {name}{spec['angles']} not exactly unitary in Q(zeta8)"
    if r["herm"] and not r.get("selfadjoint"):
        return f"model self-test: flagged {name} not exactly self-adjoint in Q(zeta8)"
    return None


def _cmp_pair(name, out, r):
    if isinstance(r, dict) and "driver_error" in r:
        return "driver error: " + r["driver_error"]
    if "exc" in out:
        return f"{name}: implementation raised {out['exc']}: {out.get('msg')}"
    if isinstance(r, str):
        return f"model: {r}"
    if not r["equal"]:
        return "model self-test: G(a)G(b) != G(a+b) exactly"
    if not _close(out["ab"], r["ab"]):
        return f"{name} at theta_a+theta_b differs from the model at Ang.add a b"
    return None


def _cmp_relations(r):
    if isinstance(r, dict) and "driver_error" in r:
        return "driver error: " + r["driver_error"]
    bad = [kk for kk, v in r.items() if v is not True]
    return f"model self-test: relations {bad} fail exactly" if bad else None


def compare(c, out, resp):
    r = resp[0]
    if isinstance(r, dict) and "driver_error" in r:
        return "driver error: " + r["driver_error"]
    if isinstance(out, dict) and "exc" in out:
        return f"implementation raised {out['exc']}: {out.get('msg')} where the model answers {str(r)[:120]}"
    k = c["kind"]
    if k == "table":
        want = [[a, q, p, h] for a, _n, q, p, h in out["rows"]]
        if want != r:
            return f"gate table of the module {want} differs from the compiled Generated.gateTable {r}"
        if any(a != n for a, n, *_ in out["rows"]):
            return "a built-in gate is bound to a name different from its .name"
    elif k == "gate":
        msg = _cmp_gate(c, out, r)
        if msg:
            return msg
        if c["mode"] == "symbolic" and c["gate"] != "Delay" and out.get("free") != [f"t{i}" for i in range(len(c["angles"]))]:
            return f"{c['gate']}: free symbols {out.get('free')}"
    elif k == "zero":
        return _cmp_gate(_zero_spec(c), out, r)
    elif k == "pair":
        return _cmp_pair(c["gate"], out, r)
    elif k == "relations":
        return _cmp_relations(r)
    elif k == "session":
        it = iter(resp)
        for idx, (st, o) in enumerate(zip(c["steps"], out["steps"])):
            msg = None
            if st[0] == "read":
                msg = _cmp_gate(c["objs"][st[1]], o, next(it))
            elif st[0] == "law":
                msg = _cmp_pair(c["objs"][st[1]]["gate"], o, next(it))
            elif st[0] == "relations":
                msg = _cmp_relations(next(it))
            if msg:
                return f"history {c['steps'][:idx + 1]}: step {idx}: {msg}"
    elif k == "malformed":
        want = r["m"] if isinstance(r["m"], str) else None
        if out["err"] != want:
            return f"{c['gate']} with {c['nargs']} parameters: implementation {out['err']}, model {want}"
    return None


# ---------------------------------------------------------------------------------------------- oracle
def _dev(a, b):
    import numpy as np
    a, b = np.asarray(a), np.asarray(b)
    if a.shape != b.shape:
        return float("inf")
    return float(np.max(np.abs(a - b))) if a.size else 0.0


def _gate_clauses(spec, out):
    """dimension, unitarity, truth of the self-adjoint flag (+ Delay = 1, angle 0 = 1) of one observed gate"""
    import numpy as np
    name = spec["gate"]
    if "exc" in out:
        return (f"matrix-raises:{name}", f"{_label(spec)}: the matrix cannot be computed: {out['exc']}: {out.get('msg')}")
    m = _np(out["m"])
    d = 2 ** out["nq"]
    if m.shape != (d, d):
        return (f"dim:{name}", f"{_label(spec)}: matrix shape {m.shape} but num_qubits = {out['nq']}")
    eye = np.eye(d)
    u = max(_dev(m.conj().T @ m, eye), _dev(m @ m.conj().T, eye))
    if not u < TOL:
        return (f"unitary:{name}", f"{_label(spec)}: |M^H M - 1| = {u:.3g}")
    h = _dev(m, m.conj().T)
    if (out["herm"] or out["dagger_self"]) and not h < TOL:
        return (f"flag-hermitian:{name}", f"{_label(spec)}: flagged self-adjoint (is_hermitian={out['herm']}, "
                                          f"dagger is self={out['dagger_self']}) but |M - M^H| = {h:.3g}")
    if name == "Delay" and not _dev(m, eye) < TOL:
        return ("rel:Delay=I", f"{_label(spec)} is not the identity")
    if spec.get("mode") == "lit" and name in ONE_PARAM_GROUP and not _dev(m, eye) < TOL:
        return (f"group-zero:{name}", f"{name}({spec['lit']}): angle 0 is not the identity")
    if spec.get("zero") and name in ONE_PARAM_GROUP and not _dev(m, eye) < TOL:
        return (f"group-zero:{name}", f"{_label(spec)}: angle 0 (a constant whose value is 0) is not the identity")
    if "ref" in out and not _dev(m, _np(out["ref"])) < TOL:
        return (f"value:{name}", f"{_label(spec)}: the matrix at these real parameter values (= {out.get('values')}) differs "
                                 f"from the matrix of {name} at the same values given as floats by {_dev(m, _np(out['ref'])):.3g}")
    return None


def _law_clause(name, out, what):
    if "exc" in out:
        return (f"matrix-raises:{name}", f"{name} {what}: the matrix cannot be computed: {out['exc']}: {out.get('msg')}")
    a, b, ab = _np(out["a"]), _np(out["b"]), _np(out["ab"])
    r = _dev(a @ b, ab) if a.shape == b.shape and a.shape[0] == a.shape[1] else float("inf")
    if not r < TOL:
        return (f"group-law:{name}", f"{name}(a)·{name}(b) differs from {name}(a+b) by {r:.3g} at {what}")
    if "abf" in out:
        abf = _np(out["abf"])
        r = _dev(a @ b, abf) if a.shape == abf.shape else float("inf")
        if not r < TOL:
            return (f"group-law:{name}", f"{name}(a)·{name}(b) differs from {name}(float of a+b = {sum(out['values'])!r}) by "
                                         f"{r:.3g} at {what}")
    return None


def _relation_clauses(out):
    import numpy as np
    if "exc" in out:
        return ("matrix-raises:fixed", f"a fixed gate's matrix cannot be computed: {out['exc']}: {out.get('msg')}")
    g = {kk: _np(v) for kk, v in out.items() if kk != "Delay"}
    for kk, v in g.items():
        want = 2 ** circ.BUILTIN_QUBITS[kk]
        if v.shape != (want, want):
            return (f"dim:{kk}", f"{kk}: matrix shape {v.shape}")
    x, z = np.array([[0, 1], [1, 0]], dtype=complex), np.array([[1, 0], [0, -1]], dtype=complex)
    if _dev(g["X"], x) >= TOL or _dev(g["Z"], z) >= TOL:
        return ("rel:pauli", "X or Z is not the Pauli matrix")
    checks = [("S*S=Z", g["S"] @ g["S"], g["Z"]), ("T*T=S", g["T"] @ g["T"], g["S"]),
              ("SX*SX=X", g["SX"] @ g["SX"], g["X"]), ("H*Z*H=X", g["H"] @ g["Z"] @ g["H"], g["X"])]
    for nm, u3 in (("CNOT=CX", g["X"]), ("CZ=CZ", g["Z"])):
        blk = np.zeros((4, 4), dtype=complex)
        blk[:2, :2] = np.eye(2)
        blk[2:, 2:] = u3
        checks.append((nm, g[nm.split("=")[0]], blk))
    for nm, lhs, rhs in checks:
        if not _dev(lhs, rhs) < TOL:
            return (f"rel:{nm}", f"fixed relation {nm} fails by {_dev(lhs, rhs):.3g}")
    sw = g["SWAP"]
    for cc in range(2):
        for dd in range(2):
            e = np.zeros(4, dtype=complex)
            e[2 * cc + dd] = 1
            want = np.zeros(4, dtype=complex)
            want[2 * dd + cc] = 1
            if sw.shape != (4, 4) or not _dev(sw @ e, want) < TOL:
                return ("rel:SWAP", f"SWAP|{cc}{dd}> is not |{dd}{cc}>")
    a, b = np.array([[1, 2], [3, 4j]]), np.array([[0, 1j], [5, -1]])
    if not _dev(sw @ np.kron(a, b) @ sw, np.kron(b, a)) < TOL:
        return ("rel:SWAP", "SWAP (A⊗B) SWAP differs from B⊗A")
    for dm in out["Delay"]:
        if not _dev(_np(dm), np.eye(2)) < TOL:
            return ("rel:Delay=I", "the delay gate is not the identity")
    return None


def oracle(c, out):
    """the property's own sentences evaluated with numpy on the implementation's outputs only"""
    k = c["kind"]
    name = c.get("gate", "")
    if k in ("table", "malformed"):
        if k == "table" and isinstance(out, dict) and "exc" in out:
            return ("table-raises", f"the gate table cannot be read: {out}")
        return None
    if isinstance(out, dict) and "exc" in out:
        what = c.get("angles", c.get("raw", c.get("consts", "")))
        if k == "constpair":
            what = f"(a={c['a']}, b={c['b']}, a+b formed by sympy +)"
        if "route" in c:
            what = f"{what} [exact real constants, route {c['route']}{', mask ' + str(c['mask']) if 'mask' in c else ''}]"
        return (f"matrix-raises:{name or 'fixed'}", f"{name}{what}: the matrix cannot be "
                                                     f"computed: {out['exc']}: {out.get('msg')}")
    if k == "gate":
        return _gate_clauses(c, out)
    if k == "zero":
        return _gate_clauses(_zero_spec(c), out)
    if k == "rawgate":
        return _gate_clauses({"gate": name, "angles": c["raw"], "mode": "raw"}, out)
    if k == "pair":
        how = {kk: v for kk, v in c.items() if kk not in ("kind", "gate", "a", "b")}
        return _law_clause(name, out, f"a={c['a']}, b={c['b']}" + (f" given as {how}, a+b formed by +" if how else ""))
    if k == "rawpair":
        return _law_clause(name, out, f"a={c['a']}, b={c['b']} (a+b formed by Python/sympy +)")
    if k == "constgate":
        return _gate_clauses({"gate": name, "angles": c["consts"], "mode": "const", "route": c["route"],
                              **({"mask": c["mask"]} if "mask" in c else {}), **({"zero": True} if c.get("zero") else {})}, out)
    if k == "constpair":
        return _law_clause(name, out, f"a={c['a']}, b={c['b']} (exact constants, a+b formed by sympy +, gates obtained by "
                                      f"route {c['route']})")
    if k == "relations":
        return _relation_clauses(out)
    if k == "session":
        for idx, (st, o) in enumerate(zip(c["steps"], out["steps"])):
            res = None
            if st[0] == "read":
                res = _gate_clauses(c["objs"][st[1]], o)
            elif st[0] == "law":
                a, b, ab = (c["objs"][i] for i in st[1:4])
                res = _law_clause(a["gate"], o, f"a={_label(a)}, b={_label(b)}, a+b={_label(ab)}")
            elif st[0] == "relations":
                res = _relation_clauses(o)
            if res:
                objs = "; ".join(f"#{i}={_label(s)}" for i, s in enumerate(c["objs"]))
                return ("session:" + res[0], f"after the history {c['steps'][:idx]} on the objects {objs}, step {st}: "
                                             + res[1])
    return None


def distribution(cases, outs):
    per_gate, modes, steps, pokes = {}, {}, {}, {}
    for c in cases:
        if c["kind"] == "gate":
            per_gate[c["gate"]] = per_gate.get(c["gate"], 0) + 1
            modes[c["mode"]] = modes.get(c["mode"], 0) + 1
    for c, o in zip(cases, outs):
        if c["kind"] == "session" and isinstance(o, dict) and "steps" in o:
            for st, so in zip(c["steps"], o["steps"]):
                steps[st[0]] = steps.get(st[0], 0) + 1
                if st[0] == "poke":
                    key = f"{st[3]}:{'edited' if so.get('poked') else 'refused'}"
                    pokes[key] = pokes.get(key, 0) + 1
    errs = {}
    for c, o in zip(cases, outs):
        if c["kind"] == "malformed" and isinstance(o, dict):
            errs[str(o.get("err"))] = errs.get(str(o.get("err")), 0) + 1
    croutes, cgates, cdec, cfun = {}, {}, {"is_real=None": 0, "is_zero=None": 0, "is_positive=None": 0, "constants": 0}, {}

    def _funs(e):
        if isinstance(e, list):
            cfun[e[0] if e[0] != "name" else e[1]] = cfun.get(e[0] if e[0] != "name" else e[1], 0) + 1
            for a in e[1:]:
                _funs(a)

    for c, o in zip(cases, outs):
        if c["kind"] in ("constgate", "constpair"):
            key = f"{c['kind']}:{c['route']}"
            croutes[key] = croutes.get(key, 0) + 1
            cgates[c["gate"]] = cgates.get(c["gate"], 0) + 1
            for e in (c["consts"] if c["kind"] == "constgate" else [v[1] for v in (c["a"], c["b"]) if v[0] == "const"]):
                _funs(e)
            for d in (o.get("decided") or []) if isinstance(o, dict) else []:
                cdec["constants"] += 1
                for lab, v in zip(("is_real=None", "is_zero=None", "is_positive=None"), d):
                    cdec[lab] += v == "None"
    return {"cases_per_gate": per_gate, "gate_modes": modes, "malformed_outcomes": errs,
            "gates_covered": len(per_gate), "session_steps": steps, "session_edits": pokes,
            "const_routes": croutes, "const_cases_per_gate": cgates, "const_sympy_undecided": cdec,
            "const_functions": cfun}
