"""C02 — every built-in gate is a valid unitary that keeps its textbook identities.

Cases (all built from the given random.Random):
  table      the live gate table of circuits/_builtin_gates.py vs lean/OQ/Generated/GateTable.lean (as compiled
             into the driver): names, num_qubits, number of factory parameters, is_hermitian
  gate       one built-in gate at one tuple of angles; an angle is the point [cos θ/2, sin θ/2], either a rational
             point of the unit circle (Python gets the float θ = 2·atan2(sh, ch) [+ 4π·wrap]) or a multiple of π/4
             with exact ℚ(ζ₈) coordinates ("k8": θ = k·π/2, given to Python as a float or as an exact sympy number);
             mode "float" | "symbolic" (gate built with real sympy symbols, matrix substituted afterwards) | "sympy"
  pair       group law of a one-parameter family at two angles:  G(a)·G(b) vs G(a+b)
  zero       G(0) with the Python int 0 and the float 0.0
  relations  S·S=Z, T·T=S, SX·SX=X, H·Z·H=X, CNOT/CZ = diag(1, X/Z), SWAP exchanges qubits, Delay = 1
  malformed  wrong number of parameters (TypeError at .matrix) / unknown gate name (KeyError)
"""
import inspect
import math
from fractions import Fraction

from .. import circ, common
from ..common import rat, unrat

PROP = "C02"
TOL = 1e-9
RULE = ("every one of the 27 gates; each parametric gate at 40 (thorough 400) random rational circle points per "
        "parameter + all axis points + the multiples of pi/2 (exact in Q(zeta8)), numerically, through real sympy "
        "symbols and with exact sympy numbers; 10 one-parameter families at 20 (thorough 200) angle pairs; "
        "non-trivial: a parametric gate with at least one angle that is not a multiple of pi/2, an angle pair "
        "with both angles off the axes, or the fixed-relation case; distinct = distinct canonical JSON of the case")
TRUSTED = [
    "sympy numeric evaluation of cos/sin/exp/sqrt, Matrix arithmetic, Matrix.adjoint (Dagger.matrix), evalf and "
    "subs; sympy.simplify is sound (u3_matrix) - theorem u3_is_rz_ry_rz proves the simplified closed form the model "
    "uses equals the unsimplified product, the correspondence compares it at every sampled point",
    "float rounding: entries of modulus <= 1 computed by sympy/numpy from theta = 2*atan2(sh, ch) agree with the "
    "exact model value at the rational point (ch, sh) within 1e-9 (checked at every case, not assumed elsewhere)",
    "a real parameter theta is represented in the model by (cos theta/2, sin theta/2); theorems real_angle_meaning / "
    "real_angle_add prove this representation turns the model formulas into the code's cos, sin, exp(i theta) and "
    "Ang.add into + on the reals; the laws of the constants are PROVED for C (kC_laws) and Q(zeta8) (cyc8_laws)",
    "harness/tables.py:gate_table (reads name, num_qubits, is_hermitian and the factory signature off the live objects)",
]
ASSUMPTIONS = [
    "parameters are Python int/float or sympy numbers/symbols; numpy scalars are outside the domain (sympy 1.9 "
    "cannot sympify np.float64 under numpy 2 - environment limit recorded in DESIGN C02)",
    "Delay's duration is not an angle: the model ignores it, the harness passes an arbitrary rational",
    "'flagged self-adjoint' is observed as is_hermitian == True or `.dagger is gate`",
]

ONE_PARAM_GROUP = ["RX", "RY", "RZ", "RH", "PHASE", "CPHASE", "XX", "YY", "ZZ", "XY"]
AXIS = [[1, 0], [0, 1], [-1, 0], [0, -1]]
_R = [0, "1/2", 0, "-1/2"]      # 1/sqrt(2) in Q(zeta8)
_MR = [0, "-1/2", 0, "1/2"]
# (cos, sin) of k*pi/4, k = 0..7, exact
K8 = [[1, 0], [_R, _R], [0, 1], [_MR, _R], [-1, 0], [_MR, _MR], [0, -1], [_R, _MR]]
_SYM_CACHE = {}


def _lib():
    common.use_repo()
    import orquestra.quantum.circuits as oqc
    from orquestra.quantum.circuits import _builtin_gates as bg
    from orquestra.quantum.circuits import _gates
    return oqc, bg, _gates


# ---------------------------------------------------------------------------------------------- generation
def _nparams(name):
    return circ.BUILTIN_PARAMS[name]


def _rat_point(rng):
    t = Fraction(rng.randrange(-12, 13), rng.randrange(1, 13))
    if t == 0 or abs(t) == 1:
        t = Fraction(rng.randrange(2, 12), rng.randrange(13, 30))
    return [rat((1 - t * t) / (1 + t * t)), rat(2 * t / (1 + t * t))]


def _gate_case(name, angles, mode="float", **kw):
    c = {"kind": "gate", "gate": name, "angles": angles, "mode": mode}
    c.update(kw)
    return c


def corpus():
    return [
        {"kind": "table"},
        {"kind": "relations", "durations": ["7/2", 0, -3]},
        _gate_case("H", []),  # F1 (fixed ba8b491): H.matrix raised under numpy 2
        _gate_case("RX", [["3/5", "4/5"]]),
        _gate_case("U3", [["3/5", "4/5"], ["5/13", "12/13"], ["-4/5", "3/5"]]),
        _gate_case("MS", [["3/5", "4/5"], ["5/13", "-12/13"]], mode="symbolic"),
        _gate_case("GPi", [K8[1]], mode="sympy", k8=[1]),
        {"kind": "pair", "gate": "RH", "a": ["3/5", "4/5"], "b": ["5/13", "12/13"]},
        {"kind": "malformed", "gate": "RX", "nargs": 0},
        {"kind": "malformed", "gate": "FOO", "nargs": 0},
    ]


def generate(rng, tier):
    big = tier == "thorough"
    n_float = 400 if big else 40
    n_sym = 40 if big else 6
    n_pair = 200 if big else 20
    cases = [{"kind": "table"},
             {"kind": "relations", "durations": [rat(Fraction(rng.randrange(-50, 50), rng.randrange(1, 9))) for _ in range(3)]}]
    names = list(circ.BUILTIN_PARAMS)
    for name in names:
        k = _nparams(name)
        if k == 0:
            cases.append(_gate_case(name, []))
            continue
        if name == "Delay":
            for _ in range(6 if not big else 40):
                cases.append(_gate_case(name, [[rat(Fraction(rng.randrange(-99, 100), rng.randrange(1, 7))), 0]]))
            continue
        # random rational circle points, numeric
        for _ in range(n_float):
            c = _gate_case(name, [_rat_point(rng) for _ in range(k)])
            if rng.random() < 0.15:
                c["wrap"] = [rng.choice([-1, 1]) for _ in range(k)]
            cases.append(c)
        # through real sympy symbols, substituted afterwards
        for _ in range(n_sym):
            cases.append(_gate_case(name, [_rat_point(rng) if rng.random() < 0.85 else rng.choice(AXIS) for _ in range(k)],
                                    mode="symbolic"))
        # axis points (theta = 0, pi, 2pi, -pi), every combination for k <= 2, a sample for U3
        combos = [[a] for a in AXIS] if k == 1 else (
            [[a, b] for a in AXIS for b in AXIS] if k == 2 else
            [[rng.choice(AXIS) for _ in range(k)] for _ in range(64 if big else 10)])
        for ang in combos:
            cases.append(_gate_case(name, ang))
        # multiples of pi/2: exact in Q(zeta8); float theta and exact sympy theta
        k8s = [[i] for i in range(8)] if k == 1 else [[rng.randrange(8) for _ in range(k)] for _ in range(24 if big else 8)]
        for ks in k8s:
            mode = rng.choice(["float", "sympy"]) if k > 1 else None
            for m in ([mode] if mode else ["float", "sympy"]):
                cases.append(_gate_case(name, [K8[i] for i in ks], mode=m, k8=ks))
    for name in ONE_PARAM_GROUP:
        for _ in range(n_pair):
            a = _rat_point(rng) if rng.random() < 0.9 else rng.choice(AXIS)
            b = _rat_point(rng) if rng.random() < 0.9 else rng.choice(AXIS)
            cases.append({"kind": "pair", "gate": name, "a": a, "b": b})
        cases.append({"kind": "zero", "gate": name, "zero": "int"})
        cases.append({"kind": "zero", "gate": name, "zero": "float"})
    # malformed stream
    for name in names:
        k = _nparams(name)
        if k == 0:
            continue
        for n in sorted({0, k - 1, k + 1} - {k}):
            cases.append({"kind": "malformed", "gate": name, "nargs": n})
    for bad in ["FOO", "rx", "CNOT2", "", "Rx"]:
        cases.append({"kind": "malformed", "gate": bad, "nargs": rng.randrange(0, 3)})
    return cases


def _on_axis(a):
    return a in AXIS or a in K8


def nontrivial(c):
    k = c["kind"]
    if k == "gate":
        return c["gate"] != "Delay" and any(not _on_axis(a) for a in c["angles"])
    if k == "pair":
        return not _on_axis(c["a"]) and not _on_axis(c["b"])
    return k == "relations"


# ---------------------------------------------------------------------------------------------- implementation
def _coord(x):
    """a coordinate of an angle point: rational or Q(zeta8) 4-list -> float"""
    if isinstance(x, list):
        z = common.cyc_to_complex(x)
        return z.real
    return float(unrat(x))


def _theta(angle, wrap=0, k8=None):
    if k8 is not None:
        return k8 * math.pi / 2
    return 2.0 * math.atan2(_coord(angle[1]), _coord(angle[0])) + 4.0 * math.pi * wrap


def _num(m):
    """sympy matrix with numeric entries -> nested [re, im] floats"""
    import numpy as np
    a = np.array(m.evalf().tolist(), dtype=complex)
    return [[[float(z.real), float(z.imag)] for z in row] for row in a]


def _np(m):
    import numpy as np
    return np.array([[complex(e[0], e[1]) for e in row] for row in m])


def _describe(g):
    d = g.dagger
    return {"m": _num(g.matrix), "nq": int(g.num_qubits), "herm": bool(g.is_hermitian),
            "dagger_self": d is g, "dagger": _num(d.matrix)}


def _build(name, params):
    oqc, bg, _ = _lib()
    ref = bg.builtin_gate_by_name(name)
    return ref if _nparams(name) == 0 else ref(*params)


def run_impl(c):
    import sympy
    oqc, bg, _gates = _lib()
    k = c["kind"]
    if k == "table":
        rows = []
        for attr, v in vars(bg).items():
            if isinstance(v, _gates.MatrixFactoryGate):
                g = v
            elif inspect.isfunction(v) and v.__qualname__.startswith("make_parametric_gate_prototype.<locals>"):
                g = v()
            else:
                continue
            rows.append([attr, g.name, int(g.num_qubits), len(inspect.signature(g.matrix_factory).parameters),
                         bool(g.is_hermitian)])
        return {"rows": rows}
    if k == "gate":
        name = c["gate"]
        n = _nparams(name)
        wraps = c.get("wrap") or [0] * n
        k8 = c.get("k8") or [None] * n
        if name == "Delay":
            g = _build(name, [float(unrat(c["angles"][0][0]))])
            return _describe(g)
        thetas = [_theta(a, w, q) for a, w, q in zip(c["angles"], wraps, k8)]
        if c["mode"] == "float":
            g = _build(name, thetas)
            return _describe(g)
        if c["mode"] == "sympy":
            g = _build(name, [sympy.pi * sympy.Rational(q, 2) for q in k8])
            return _describe(g)
        # symbolic: real symbols, then simultaneous substitution of the floats
        syms = sympy.symbols(f"t0:{n}", real=True)
        if name not in _SYM_CACHE:
            g = _build(name, list(syms))
            _SYM_CACHE[name] = (g, g.matrix, g.dagger.matrix, sorted(str(s) for s in g.free_symbols))
        g, msym, dsym, free = _SYM_CACHE[name]
        sub = dict(zip(syms, thetas))
        out = {"m": _num(msym.subs(sub, simultaneous=True)), "nq": int(g.num_qubits), "herm": bool(g.is_hermitian),
               "dagger_self": g.dagger is g, "dagger": _num(dsym.subs(sub, simultaneous=True)), "free": free}
        return out
    if k == "pair":
        ta, tb = _theta(c["a"]), _theta(c["b"])
        return {"a": _num(_build(c["gate"], [ta]).matrix), "b": _num(_build(c["gate"], [tb]).matrix),
                "ab": _num(_build(c["gate"], [ta + tb]).matrix)}
    if k == "zero":
        z = 0 if c["zero"] == "int" else 0.0
        return {"m": _num(_build(c["gate"], [z]).matrix)}
    if k == "relations":
        out = {nm: _num(getattr(oqc, nm).matrix) for nm in ["S", "T", "SX", "X", "Z", "H", "CNOT", "CZ", "SWAP"]}
        out["Delay"] = [_num(oqc.Delay(float(unrat(d))).matrix) for d in c["durations"]]
        return out
    if k == "malformed":
        try:
            ref = bg.builtin_gate_by_name(c["gate"])
        except KeyError:
            return {"err": "err:key"}
        if not callable(ref) or isinstance(ref, _gates.MatrixFactoryGate):
            return {"err": "not-a-prototype"}
        g = ref(*[0.5 + i for i in range(c["nargs"])])  # the prototype itself does not check (TODO in the code)
        try:
            g.matrix
        except TypeError:
            return {"err": "err:type"}
        return {"err": None}
    raise AssertionError("unknown kind")


# ---------------------------------------------------------------------------------------------- model requests
def requests(c, out):
    k = c["kind"]
    if k == "table":
        return [("table", {})]
    if k == "gate":
        angles = c["angles"] if c["gate"] != "Delay" else [[c["angles"][0][0], 0]]
        return [("gate", {"gate": c["gate"], "angles": angles})]
    if k == "pair":
        return [("pair", {"gate": c["gate"], "a": c["a"], "b": c["b"]})]
    if k == "zero":
        return [("gate", {"gate": c["gate"], "angles": [[1, 0]]})]
    if k == "relations":
        return [("relations", {})]
    if k == "malformed":
        return [("gate", {"gate": c["gate"], "angles": [["3/5", "4/5"]] * c["nargs"]})]
    return []


def _close(impl, model_json):
    return circ.close(_np(impl), circ.model_matrix_to_numpy(model_json), TOL)


def compare(c, out, resp):
    r = resp[0]
    if isinstance(r, dict) and "driver_error" in r:
        return "driver error: " + r["driver_error"]
    if isinstance(out, dict) and "exc" in out:
        return f"implementation raised {out['exc']}: {out.get('msg')} where the model answers {str(r)[:120]}"
    k = c["kind"]
    if k == "table":
        want = [[a, q, p, h] for a, _n, q, p, h in out["rows"]]
        if want != r:
            return f"gate table of the module {want} differs from the compiled Generated.gateTable {r}"
        if any(a != n for a, n, *_ in out["rows"]):
            return "a built-in gate is bound to a name different from its .name"
    elif k == "gate":
        if isinstance(r["m"], str):
            return f"model could not compute {c['gate']}: {r['m']}"
        if not _close(out["m"], r["m"]):
            return f"{c['gate']}{c['angles']} [{c['mode']}]: matrix {out['m']} differs from the model"
        if (out["nq"], out["herm"], out["dagger_self"]) != (r["nq"], r["herm"], r["dagger_self"]):
            return (f"{c['gate']}: num_qubits/is_hermitian/dagger-is-self {out['nq'], out['herm'], out['dagger_self']} "
                    f"differ from the model {r['nq'], r['herm'], r['dagger_self']}")
        if not _close(out["dagger"], r["dagger"]):
            return f"{c['gate']}{c['angles']}: .dagger.matrix differs from the model"
        if c["gate"] != "Delay" and not r.get("unitary"):
            return f"model self-test: {c['gate']}{c['angles']} not exactly unitary in Q(zeta8)"
        if r["herm"] and not r.get("selfadjoint"):
            return f"model self-test: flagged {c['gate']} not exactly self-adjoint in Q(zeta8)"
        if c["mode"] == "symbolic" and out.get("free") != [f"t{i}" for i in range(len(c["angles"]))]:
            return f"{c['gate']}: free symbols {out.get('free')}"
    elif k == "pair":
        if isinstance(r, str):
            return f"model: {r}"
        if not r["equal"]:
            return "model self-test: G(a)G(b) != G(a+b) exactly"
        if not _close(out["ab"], r["ab"]):
            return f"{c['gate']} at theta_a+theta_b differs from the model at Ang.add a b"
    elif k == "zero":
        if isinstance(r["m"], str) or not _close(out["m"], r["m"]):
            return f"{c['gate']}(0) differs from the model"
    elif k == "relations":
        bad = [kk for kk, v in r.items() if v is not True]
        if bad:
            return f"model self-test: relations {bad} fail exactly"
    elif k == "malformed":
        want = r["m"] if isinstance(r["m"], str) else None
        if out["err"] != want:
            return f"{c['gate']} with {c['nargs']} parameters: implementation {out['err']}, model {want}"
    return None


# ---------------------------------------------------------------------------------------------- oracle
def _dev(a, b):
    import numpy as np
    a, b = np.asarray(a), np.asarray(b)
    if a.shape != b.shape:
        return float("inf")
    return float(np.max(np.abs(a - b))) if a.size else 0.0


def oracle(c, out):
    """the property's own sentences evaluated with numpy on the implementation's outputs only"""
    import numpy as np
    k = c["kind"]
    name = c.get("gate", "")
    if k in ("table", "malformed"):
        if k == "table" and isinstance(out, dict) and "exc" in out:
            return ("table-raises", f"the gate table cannot be read: {out}")
        return None
    if isinstance(out, dict) and "exc" in out:
        return (f"matrix-raises:{name or 'fixed'}", f"{name}{c.get('angles', '')}: the matrix cannot be computed: "
                                                     f"{out['exc']}: {out.get('msg')}")
    if k == "gate":
        m = _np(out["m"])
        d = 2 ** out["nq"]
        if m.shape != (d, d):
            return (f"dim:{name}", f"{name}: matrix shape {m.shape} but num_qubits = {out['nq']}")
        eye = np.eye(d)
        u = max(_dev(m.conj().T @ m, eye), _dev(m @ m.conj().T, eye))
        if not u < TOL:
            return (f"unitary:{name}", f"{name}{c['angles']} [{c['mode']}]: |M^H M - 1| = {u:.3g}")
        h = _dev(m, m.conj().T)
        if (out["herm"] or out["dagger_self"]) and not h < TOL:
            return (f"flag-hermitian:{name}", f"{name}{c['angles']}: flagged self-adjoint (is_hermitian={out['herm']}, "
                                              f"dagger is self={out['dagger_self']}) but |M - M^H| = {h:.3g}")
        if name == "Delay" and not _dev(m, eye) < TOL:
            return ("rel:Delay=I", f"Delay({c['angles'][0][0]}) is not the identity")
    elif k == "pair":
        a, b, ab = _np(out["a"]), _np(out["b"]), _np(out["ab"])
        r = _dev(a @ b, ab)
        if not r < TOL:
            return (f"group-law:{name}", f"{name}(a)·{name}(b) differs from {name}(a+b) by {r:.3g} at a={c['a']}, b={c['b']}")
    elif k == "zero":
        m = _np(out["m"])
        if not _dev(m, np.eye(m.shape[0])) < TOL:
            return (f"group-zero:{name}", f"{name}({c['zero']} 0) is not the identity")
    elif k == "relations":
        g = {kk: _np(v) for kk, v in out.items() if kk != "Delay"}
        x, z = np.array([[0, 1], [1, 0]], dtype=complex), np.array([[1, 0], [0, -1]], dtype=complex)
        if _dev(g["X"], x) >= TOL or _dev(g["Z"], z) >= TOL:
            return ("rel:pauli", "X or Z is not the Pauli matrix")
        checks = [("S*S=Z", g["S"] @ g["S"], g["Z"]), ("T*T=S", g["T"] @ g["T"], g["S"]),
                  ("SX*SX=X", g["SX"] @ g["SX"], g["X"]), ("H*Z*H=X", g["H"] @ g["Z"] @ g["H"], g["X"])]
        for nm, u3 in (("CNOT=CX", g["X"]), ("CZ=CZ", g["Z"])):
            blk = np.zeros((4, 4), dtype=complex)
            blk[:2, :2] = np.eye(2)
            blk[2:, 2:] = u3
            checks.append((nm, g[nm.split("=")[0]], blk))
        for nm, lhs, rhs in checks:
            if not _dev(lhs, rhs) < TOL:
                return (f"rel:{nm}", f"fixed relation {nm} fails by {_dev(lhs, rhs):.3g}")
        sw = g["SWAP"]
        for cc in range(2):
            for dd in range(2):
                e = np.zeros(4, dtype=complex)
                e[2 * cc + dd] = 1
                want = np.zeros(4, dtype=complex)
                want[2 * dd + cc] = 1
                if sw.shape != (4, 4) or not _dev(sw @ e, want) < TOL:
                    return ("rel:SWAP", f"SWAP|{cc}{dd}> is not |{dd}{cc}>")
        a, b = np.array([[1, 2], [3, 4j]]), np.array([[0, 1j], [5, -1]])
        if not _dev(sw @ np.kron(a, b) @ sw, np.kron(b, a)) < TOL:
            return ("rel:SWAP", "SWAP (A⊗B) SWAP differs from B⊗A")
        for dm in out["Delay"]:
            if not _dev(_np(dm), np.eye(2)) < TOL:
                return ("rel:Delay=I", "the delay gate is not the identity")
    return None


def distribution(cases, outs):
    per_gate, modes = {}, {}
    for c in cases:
        if c["kind"] == "gate":
            per_gate[c["gate"]] = per_gate.get(c["gate"], 0) + 1
            modes[c["mode"]] = modes.get(c["mode"], 0) + 1
    errs = {}
    for c, o in zip(cases, outs):
        if c["kind"] == "malformed" and isinstance(o, dict):
            errs[str(o.get("err"))] = errs.get(str(o.get("err")), 0) + 1
    return {"cases_per_gate": per_gate, "gate_modes": modes, "malformed_outcomes": errs,
            "gates_covered": len(per_gate)}
