"""C19 — translating symbolic expressions preserves their value; unsupported constructs are refused;
natural sort keys order embedded integers numerically."""
import re
from fractions import Fraction

from .. import common
from ..common import rat, unrat

PROP = "C19"
RULE = ("expression trees built THROUGH sympy from a seeded builder grammar (leaves: symbols, ints, rationals, floats, I; "
        "ops: add/sub/mul/div/pow/sqrt/neg/cos/sin/exp/tan; an unsupported-construct stream; an evaluate=False stream), "
        "hand-made neutral trees for translate_expression, symbol names with digit groups for the sort keys. "
        "non-trivial: builder tree of depth >= 3 containing a subtraction, a division or a root (expr); a neutral tree with "
        ">= 2 nested calls (translate); a name pair whose digit groups differ in length (keys). distinct = canonical JSON")
TRUSTED = [
    "sympy: `e * (-1)` on a Mul with leading coefficient -1 returns the product of the remaining factors "
    "(OQ.C19.negMul; only its laws value-negation / size / grammar-closure are used by the theorems, and they are proved for negMul)",
    "sympy operators (+, *, -, /, **, sqrt, cos, sin, exp, tan) build expressions denoting the corresponding operation on values; "
    "1/y is Pow(y,-1) and sqrt(y) is Pow(y,1/2) (hypotheses hinv / hsqrt of translate_fromSympy_eval); automatic canonicalisation preserves value",
    "sympy 1.9 `==` between a numeric atom and a Python number compares by value (Float(-1.0) == -1, Rational(1,2) == 0.5)",
    "float(sympy.Rational) / float(sympy.Float) are the value itself up to double rounding (the model keeps the exact rational; "
    "the oracle rounds the constants of the original the same way before comparing)",
    "re.split(r'(\\d+)', s) / str.isdigit / int on ASCII names (model: OQ.C19.splitGo, convGroup, valDigits)",
]
ASSUMPTIONS = [
    "symbol names are ASCII for the sort-key model (str.isdigit accepts characters int() rejects, e.g. superscript two)",
    "at points where the original expression has no finite value (division by zero, poles) nothing is claimed; "
    "the Lean statement uses the total field convention 0^-1 = 0 on both sides",
    "evaluate=False (non-canonical) trees are checked by the oracle; they are compared with the model only when no "
    "x + (-1)*y special case occurs (the model's negMul describes sympy's result on canonical products)",
]

SYMS = ["x", "y", "z", "theta_1", "beta_10", "a0"]
ELEM = ["cos", "sin", "exp", "tan"]
KEYS = ["add", "mul", "div", "sub", "pow", "cos", "sin", "exp", "sqrt", "tan"]


def _lib():
    common.use_repo()
    import sympy
    from orquestra.quantum.circuits.symbolic import sympy_expressions as se
    from orquestra.quantum.circuits.symbolic import translations as tr
    from orquestra.quantum.circuits.symbolic import expressions as ex
    from orquestra.quantum.circuits.symbolic import _sorting as so
    return sympy, se, tr, ex, so


# ------------------------------------------------------------------ building sympy expressions
def build(t):
    """builder tree (JSON) -> sympy object, using sympy's own operators so its canonical shapes arise"""
    import sympy
    k = t[0]
    if k == "sym":
        return sympy.Symbol(t[1])
    if k == "int":
        return sympy.Integer(t[1])
    if k == "rat":
        f = Fraction(t[1])
        return sympy.Rational(f.numerator, f.denominator)
    if k == "flt":
        return sympy.Float(float(Fraction(t[1])))
    if k == "I":
        return sympy.I
    if k == "pyint":
        return int(t[1])
    if k == "pyflt":
        return float(Fraction(t[1]))
    if k == "pycplx":
        return complex(float(Fraction(t[1])), float(Fraction(t[2])))
    if k == "add":
        return build(t[1]) + build(t[2])
    if k == "sub":
        return build(t[1]) - build(t[2])
    if k == "mul":
        return build(t[1]) * build(t[2])
    if k == "div":
        return build(t[1]) / build(t[2])
    if k == "pow":
        return build(t[1]) ** build(t[2])
    if k == "sqrt":
        return sympy.sqrt(build(t[1]))
    if k == "neg":
        return -build(t[1])
    if k == "fn":
        return getattr(sympy, t[1])(*[build(a) for a in t[2]])
    if k == "undef":
        return sympy.Function(t[1])(*[build(a) for a in t[2]])
    if k == "const":
        return {"pi": sympy.pi, "E": sympy.E, "oo": sympy.oo, "-oo": -sympy.oo, "nan": sympy.nan, "zoo": sympy.zoo,
                "GoldenRatio": sympy.GoldenRatio, "true": sympy.true}[t[1]]
    if k == "pyobj":
        return {"str": "x", "none": None, "list": [1, 2]}[t[1]]
    if k == "deriv":
        return sympy.Derivative(build(t[1]), sympy.Symbol("x"))
    if k == "add_ne":
        return sympy.Add(*[build(a) for a in t[1]], evaluate=False)
    if k == "mul_ne":
        return sympy.Mul(*[build(a) for a in t[1]], evaluate=False)
    if k == "pow_ne":
        return sympy.Pow(build(t[1]), build(t[2]), evaluate=False)
    raise AssertionError(f"bad builder node {k}")


def ser(e):
    """sympy object -> the model's SExpr JSON, classified by type exactly as Python's dispatch sees it, from `.args`"""
    import sympy
    from sympy.core.numbers import ImaginaryUnit
    if isinstance(e, bool):
        return ["Other", "bool"]
    if isinstance(e, int):
        return ["Py", ["int", e]]
    if isinstance(e, float):
        return ["Py", ["flt", rat(Fraction(e))]]
    if isinstance(e, complex):
        return ["Py", ["cplx", rat(Fraction(e.real)), rat(Fraction(e.imag))]]
    if isinstance(e, sympy.Symbol):
        return ["Sym", str(e)]
    if isinstance(e, sympy.Integer):
        return ["Int", int(e)]
    if isinstance(e, sympy.Float):
        r = sympy.Rational(e)
        return ["Flt", rat(Fraction(int(r.p), int(r.q)))]
    if isinstance(e, sympy.Rational):
        return ["Rat", rat(Fraction(int(e.p), int(e.q)))]
    if isinstance(e, ImaginaryUnit):
        return ["I"]
    if isinstance(e, sympy.Add):
        return ["Add", [ser(a) for a in e.args]]
    if isinstance(e, sympy.Mul):
        return ["Mul", [ser(a) for a in e.args]]
    if isinstance(e, sympy.Pow):
        return ["Pow", ser(e.args[0]), ser(e.args[1])]
    if isinstance(e, sympy.Function):
        from sympy.core.function import AppliedUndef
        return ["UFn" if isinstance(e, AppliedUndef) else "Fn", str(e.func), [ser(a) for a in e.args]]
    if isinstance(e, sympy.Number):
        return ["NumOther", str(e)]
    return ["Other", type(e).__name__]


def neutral(t, ex):
    """the implementation's neutral tree -> canonical JSON"""
    import sympy
    if isinstance(t, ex.FunctionCall):
        return ["call", t.name, [neutral(a, ex) for a in t.args]]
    if isinstance(t, ex.Symbol):
        return ["sym", t.name]
    if isinstance(t, bool):
        return ["bad", "bool"]
    if isinstance(t, int):
        return ["num", ["int", t]]
    if isinstance(t, float):
        return ["num", ["flt", rat(Fraction(t))]]
    if isinstance(t, complex):
        return ["num", ["cplx", rat(Fraction(t.real)), rat(Fraction(t.imag))]]
    if isinstance(t, sympy.Number):
        return ["num", ["ext", str(t)]]
    return ["bad", type(t).__name__]


class T:
    """printed term: records which operation the dialect's callable applied to which operands, in which order"""

    def __init__(self, s):
        self.s = s

    @staticmethod
    def lift(o):
        return o if isinstance(o, T) else T("raw:" + repr(o))

    def __add__(self, o):
        return T(f"({self.s}+{T.lift(o).s})")

    def __radd__(self, o):
        return T(f"({T.lift(o).s}+{self.s})")

    def __sub__(self, o):
        return T(f"({self.s}-{T.lift(o).s})")

    def __rsub__(self, o):
        return T(f"({T.lift(o).s}-{self.s})")

    def __mul__(self, o):
        return T(f"({self.s}*{T.lift(o).s})")

    def __rmul__(self, o):
        return T(f"({T.lift(o).s}*{self.s})")

    def __truediv__(self, o):
        return T(f"({self.s}/{T.lift(o).s})")

    def __rtruediv__(self, o):
        return T(f"({T.lift(o).s}/{self.s})")

    def __pow__(self, o):
        return T(f"({self.s}^{T.lift(o).s})")

    def __rpow__(self, o):
        return T(f"({T.lift(o).s}^{self.s})")


def _numstr(n):
    import sympy
    if isinstance(n, bool):
        return "bad:bool"
    if isinstance(n, int):
        return f"i:{n}"
    if isinstance(n, float):
        return "f:" + str(rat(Fraction(n)))
    if isinstance(n, complex):
        return f"c:{rat(Fraction(n.real))},{rat(Fraction(n.imag))}"
    if isinstance(n, sympy.Number):
        return f"e:{n}"
    return "bad:" + type(n).__name__


def t_dialect(se, ex):
    """the REAL SYMPY_DIALECT with its leaves wrapped into printed terms: operator-based entries run unchanged on T
    objects; sympy callables (which cannot take a T) are replaced by a printer named after the callable itself"""
    real = se.SYMPY_DIALECT
    known = {}
    for name, fn in real.known_functions.items():
        mod = getattr(fn, "__module__", "") or ""
        if mod.startswith("sympy"):
            cname = getattr(fn, "__name__", str(fn))
            known[name] = (lambda cname: lambda *a: _sympy_call(cname, a))(cname)
        else:
            known[name] = fn
    return ex.ExpressionDialect(
        symbol_factory=lambda s: T("s:" + str(real.symbol_factory(s))),
        number_factory=lambda n: T(_numstr(real.number_factory(n))),
        known_functions=known,
    )


def _sympy_call(cname, a):
    if len(a) != 1:
        raise TypeError(f"{cname} takes exactly 1 argument ({len(a)} given)")
    return T(f"{cname}({a[0].s})")


# ------------------------------------------------------------------ python-side grammar classification (oracle)
def py_class(e):
    """('supported'|'collision'|'passthrough'|'unsupported', construct) by an independent walk of the sympy tree"""
    import sympy
    from sympy.core.function import AppliedUndef
    from sympy.core.numbers import ImaginaryUnit
    worst = ["supported", ""]
    rank = {"supported": 0, "passthrough": 1, "collision": 2, "unsupported": 3}

    def note(c, what):
        if rank[c] > rank[worst[0]]:
            worst[0], worst[1] = c, what

    def walk(n):
        if isinstance(n, bool) or n is None or isinstance(n, (str, list, tuple, dict)):
            note("unsupported", type(n).__name__)
            return
        if isinstance(n, (int, float, complex)):
            return
        if not isinstance(n, sympy.Basic):
            note("unsupported", type(n).__name__)
            return
        if isinstance(n, (sympy.Symbol, sympy.Integer, sympy.Float, sympy.Rational, ImaginaryUnit)):
            if isinstance(n, (sympy.Dummy, sympy.Wild)):
                note("unsupported", type(n).__name__)
            return
        if isinstance(n, (sympy.Add, sympy.Mul, sympy.Pow)):
            if len(n.args) == 0:
                note("unsupported", "empty")
            for a in n.args:
                walk(a)
            return
        if isinstance(n, AppliedUndef):
            note("collision" if str(n.func) in KEYS else "unsupported", "undef:" + str(n.func))
            for a in n.args:
                walk(a)
            return
        if isinstance(n, sympy.Function):
            nm = str(n.func)
            if nm in ELEM and n.func is getattr(sympy, nm) and len(n.args) == 1:
                walk(n.args[0])
            else:
                note("collision" if nm in KEYS else "unsupported", "fn:" + nm)
                for a in n.args:
                    walk(a)
            return
        if isinstance(n, sympy.Number):
            note("passthrough", "number:" + str(n))
            return
        note("unsupported", type(n).__name__)

    walk(e)
    return worst[0], worst[1]


def shape_class(e):
    """which special case of the dispatcher the tree exercises (used for the signature of a value mismatch)"""
    import sympy
    feats = set()

    def walk(n):
        if not isinstance(n, sympy.Basic):
            return
        if isinstance(n, sympy.Add) and len(n.args) == 2 and isinstance(n.args[1], sympy.Mul) and n.args[1].args[0] == -1:
            feats.add("sub")
        if isinstance(n, sympy.Mul) and len(n.args) == 2 and isinstance(n.args[1], sympy.Pow) and n.args[1].args[1] == -1:
            feats.add("div")
        if isinstance(n, sympy.Pow):
            if n.args[1] == -1:
                feats.add("recip")
            elif n.args[1] == 0.5:
                feats.add("sqrt")
            else:
                feats.add("pow")
        if isinstance(n, sympy.Function):
            feats.add("fn")
        if isinstance(n, sympy.Add):
            feats.add("add")
        if isinstance(n, sympy.Mul):
            feats.add("mul")
        for a in n.args:
            walk(a)

    walk(e)
    for f in ["sub", "div", "recip", "sqrt", "pow", "fn", "add", "mul"]:
        if f in feats:
            return f
    return "leaf"


def has_add_of_negation(e):
    import sympy
    if not isinstance(e, sympy.Basic):
        return False
    if isinstance(e, sympy.Add) and len(e.args) == 2 and isinstance(e.args[1], sympy.Mul) and e.args[1].args[0] == -1:
        return True
    return any(has_add_of_negation(a) for a in e.args)


def round_constants(e):
    """the original with its constants rounded to doubles exactly as float(number) does (documented conversion)"""
    import sympy
    if not isinstance(e, sympy.Basic):
        return e
    rep = {}
    for a in e.atoms(sympy.Rational):
        if not isinstance(a, sympy.Integer):
            f = sympy.Float(float(a))
            if sympy.Rational(f) != a:
                rep[a] = f
    for a in e.atoms(sympy.Float):
        f = sympy.Float(float(a))
        if sympy.Rational(f) != sympy.Rational(a):
            rep[a] = f
    return e.xreplace(rep) if rep else e


def _point(symbols, vals):
    import sympy
    m = {}
    for s, v in zip(symbols, vals):
        re_, im_ = Fraction(v[0]), Fraction(v[1])
        m[s] = sympy.Rational(re_.numerator, re_.denominator) + sympy.I * sympy.Rational(im_.numerator, im_.denominator)
    return m


def _num(e, m):
    """evaluate at the assignment; returns a sympy number (finite complex) or None when there is no finite value"""
    import sympy
    try:
        v = e.subs(m) if isinstance(e, sympy.Basic) else sympy.sympify(e)
        v = sympy.N(v.doit(), 30)  # doit: evalf is unreliable on evaluate=False nodes (N(Pow(0,-1,evaluate=False)) = 0)
    except (ZeroDivisionError, OverflowError, ValueError, TypeError):
        return None
    if not isinstance(v, sympy.Basic) or not v.is_number or v.has(sympy.nan, sympy.zoo, sympy.oo, -sympy.oo):
        return None
    if v.free_symbols or not (v.is_complex or v.is_real):
        return None
    try:
        complex(v)
    except (TypeError, OverflowError):
        return None
    return v


# ------------------------------------------------------------------ cases
def corpus():
    x, y, z = ["sym", "x"], ["sym", "y"], ["sym", "z"]
    pts = [[["3/4", "0"], ["-5/8", "0"], ["7/4", "1/2"], ["5/4", "0"], ["-3/8", "0"], ["9/8", "0"]],
           [["-11/8", "0"], ["2", "0"], ["1/8", "0"], ["3/8", "-1/4"], ["7/8", "0"], ["-2", "0"]]]
    return [
        {"kind": "expr", "b": ["sub", x, y], "pts": pts},
        {"kind": "expr", "b": ["sub", x, ["mul", ["int", 2], y]], "pts": pts},
        {"kind": "expr", "b": ["sub", ["add", ["neg", x], y], z], "pts": pts},
        {"kind": "expr", "b": ["div", ["add", x, y], ["sub", x, y]], "pts": pts},
        {"kind": "expr", "b": ["div", ["int", 1], ["sqrt", ["add", x, ["rat", "1/3"]]]], "pts": pts},
        {"kind": "expr", "b": ["add", ["mul", ["flt", "-1"], x], y], "pts": pts},
        {"kind": "expr", "b": ["pow", x, ["flt", "-1"]], "pts": pts},
        {"kind": "expr", "b": ["pow", x, ["flt", "1/2"]], "pts": pts},
        {"kind": "expr", "b": ["sub", ["fn", "cos", [["mul", ["I"], x]]], ["fn", "exp", [["div", y, ["int", 3]]]]], "pts": pts},
        {"kind": "expr", "b": ["fn", "sinh", [x]], "pts": pts},
        {"kind": "expr", "b": ["add", x, ["const", "pi"]], "pts": pts},
        {"kind": "expr", "b": ["mul", x, ["const", "oo"]], "pts": pts},
        {"kind": "expr", "b": ["fn", "exp", [["int", 1]]], "pts": pts},
        {"kind": "expr", "b": ["undef", "f", [x]], "pts": pts},
        {"kind": "expr", "b": ["undef", "add", [x, y]], "pts": pts},   # name collision: NOT refused (known finding)
        {"kind": "expr", "b": ["undef", "sub", [x]], "pts": pts},
        {"kind": "expr", "b": ["add_ne", [z, ["mul_ne", [["int", -1], ["add", x, y]]]]], "pts": pts},
        {"kind": "expr", "b": ["pyint", 3], "pts": []},
        {"kind": "expr", "b": ["pycplx", "1/2", "-2"], "pts": []},
        {"kind": "expr", "b": ["pyobj", "str"], "pts": []},
        {"kind": "translate", "t": ["call", "add", [["sym", "a"], ["num", ["int", 2]], ["sym", "c"]]]},
        {"kind": "translate", "t": ["call", "sub", [["sym", "a"]]]},
        {"kind": "translate", "t": ["call", "add", []]},
        {"kind": "translate", "t": ["call", "arctan", [["sym", "a"]]]},
        {"kind": "translate", "t": ["call", "cos", [["call", "nope", []]]]},
        {"kind": "keypair", "pfx": "beta_", "d1": "2", "d2": "10", "sfx": ""},
        {"kind": "keypair", "pfx": "x", "d1": "007", "d2": "7", "sfx": "_b"},
        {"kind": "sort", "names": ["beta_10", "theta_2", "beta_2", "theta_1"]},
        {"kind": "key", "name": ""},
        {"kind": "key", "name": "12ab034"},
    ]


def _leaf(rng, allow_I=True):
    r = rng.random()
    if r < 0.45:
        return ["sym", rng.choice(SYMS)]
    if r < 0.65:
        return ["int", rng.choice([0, 1, -1, 2, -2, 3, 5, -7, 10])]
    if r < 0.8:
        return ["rat", rng.choice(["1/2", "-1/2", "3/4", "-5/8", "1/3", "2/3", "-7/5", "3/2"])]
    if r < 0.93:
        return ["flt", rng.choice(["1/2", "-1", "1", "3/2", "1/4", "-5/2", "2", "1/10", "3602879701896397/36028797018963968"])]
    return ["I"] if allow_I else ["sym", "x"]


def _gen_expr(rng, depth, bad=0.0, heavy=0):
    """`heavy` counts exp / large-power nodes on the path from the root: at most two are nested, and a power with a
    non-constant exponent stands alone, so that no tower (10**10**10, exp(exp(exp(x)))) is ever built or evaluated"""
    if depth <= 0 or rng.random() < 0.12:
        if bad and rng.random() < bad:
            return ["const", rng.choice(["pi", "E", "oo", "nan", "zoo", "-oo", "GoldenRatio"])]
        return _leaf(rng)
    if bad and rng.random() < bad:
        k = rng.random()
        if k < 0.45:
            return ["fn", rng.choice(["sinh", "log", "Abs", "atan", "cosh", "sign", "conjugate"]),
                    [_gen_expr(rng, depth - 1, bad, heavy + 1)]]
        if k < 0.7:
            return ["undef", rng.choice(["f", "g", "h"]),
                    [_gen_expr(rng, depth - 1, bad, heavy) for _ in range(rng.randrange(1, 3))]]
        if k < 0.8:
            return ["deriv", _gen_expr(rng, depth - 1, 0.0, heavy)]
        if k < 0.9:
            return ["fn", "atan2", [_gen_expr(rng, depth - 1, bad, heavy), _gen_expr(rng, depth - 1, bad, heavy)]]
        nm = rng.choice(["add", "mul", "div", "sub", "pow", "sqrt", "cos", "sin"])
        n = rng.choice([1, 2, 2, 3]) if nm in ("add", "mul") else (rng.choice([2, 2, 1]) if nm in ("div", "sub", "pow") else rng.choice([1, 1, 2]))
        if nm == "sqrt":
            n = 1
        return ["undef", nm, [_gen_expr(rng, depth - 1, 0.0, 2) for _ in range(n)]]
    op = rng.choice(["add", "sub", "mul", "div", "pow", "sqrt", "neg", "fn", "sub", "div", "add", "mul"])
    if op in ("add", "sub", "mul", "div"):
        return [op, _gen_expr(rng, depth - 1, bad, heavy), _gen_expr(rng, depth - 1, bad, heavy)]
    if op == "pow":
        if heavy > 0 or rng.random() < 0.75:
            e = rng.choice([["int", 2], ["int", -1], ["int", -2], ["int", 3], ["rat", "1/2"], ["rat", "-1/2"], ["flt", "1/2"],
                            ["flt", "-1"], ["rat", "1/3"], ["int", 0], ["int", 1], ["flt", "2"], ["rat", "3/2"]])
            return ["pow", _gen_expr(rng, depth - 1, bad, heavy), e]
        return ["pow", _gen_expr(rng, depth - 1, bad, 2), _gen_expr(rng, min(depth - 1, 1), 0.0, 2)]
    if op == "sqrt":
        return ["sqrt", _gen_expr(rng, depth - 1, bad, heavy)]
    if op == "neg":
        return ["neg", _gen_expr(rng, depth - 1, bad, heavy)]
    f = rng.choice(ELEM)
    if f == "exp":
        if heavy >= 2:
            f = rng.choice(["cos", "sin", "tan"])
        else:
            return ["fn", "exp", [_gen_expr(rng, depth - 1, bad, heavy + 1)]]
    return ["fn", f, [_gen_expr(rng, depth - 1, bad, heavy)]]


def _gen_noncanon(rng, depth):
    if depth <= 0 or rng.random() < 0.2:
        return _leaf(rng, allow_I=False)
    k = rng.random()
    if k < 0.3:
        return ["add_ne", [_gen_noncanon(rng, depth - 1) for _ in range(rng.randrange(1, 4))]]
    if k < 0.6:
        return ["mul_ne", [_gen_noncanon(rng, depth - 1) for _ in range(rng.randrange(1, 4))]]
    if k < 0.8:
        e = rng.choice([["int", -1], ["rat", "1/2"], ["int", 2], ["flt", "-1"], ["flt", "1/2"], ["sym", "y"]])
        b = _gen_noncanon(rng, depth - 1)
        if b in (["int", 0], ["flt", "0"]):
            b = ["sym", "x"]
        return ["pow_ne", b, e]
    return _gen_expr(rng, depth - 1)


def _pts(rng, n):
    out = []
    for _ in range(n):
        pt = []
        for _s in SYMS:
            re_ = Fraction(rng.choice([-1, 1]) * rng.randrange(1, 24), 8)
            im_ = Fraction(rng.randrange(-8, 9), 8) if rng.random() < 0.25 else Fraction(0)
            pt.append([str(re_), str(im_)])
        out.append(pt)
    return out


def _gen_neutral(rng, depth):
    if depth <= 0 or rng.random() < 0.25:
        r = rng.random()
        if r < 0.5:
            return ["sym", rng.choice(SYMS)]
        if r < 0.7:
            return ["num", ["int", rng.randrange(-5, 6)]]
        if r < 0.9:
            return ["num", ["flt", rng.choice(["1/2", "-3/4", "5/2", "1/8"])]]
        return ["num", ["cplx", "0", "1"]]
    name = rng.choice(KEYS + KEYS + ["arctan", "log", "Add", "COS", "", "sqrt ", "neg"])
    want = {"add": None, "mul": None, "div": 2, "sub": 2, "pow": 2}.get(name, 1)
    if want is None:
        n = rng.choice([0, 1, 2, 3, 4])
    else:
        n = want if rng.random() < 0.85 else rng.choice([0, 1, 2, 3])
    if name == "sqrt" and n != 1:
        n = 1  # sympy.sqrt has a second positional parameter (evaluate); not part of the modelled table
    return ["call", name, [_gen_neutral(rng, depth - 1) for _ in range(n)]]


def _gen_name(rng):
    parts = []
    for _ in range(rng.randrange(0, 5)):
        if rng.random() < 0.5:
            parts.append("".join(rng.choice("abxyzBT_-.") for _ in range(rng.randrange(0, 4))))
        else:
            parts.append(rng.choice(["0", "1", "2", "10", "007", "12", "9", "100", "00", str(rng.randrange(0, 10 ** rng.randrange(1, 25)))]))
    return "".join(parts)


def generate(rng, tier):
    big = tier == "thorough"
    cases = []
    for _ in range(1500 if big else 230):
        d = rng.choice([2, 3, 3, 4, 5] if big else [2, 3, 3, 4])
        cases.append({"kind": "expr", "b": _gen_expr(rng, d), "pts": _pts(rng, 2)})
    for _ in range(500 if big else 70):
        d = rng.choice([1, 2, 3, 4] if big else [1, 2, 3])
        cases.append({"kind": "expr", "b": _gen_expr(rng, d, bad=0.25), "pts": _pts(rng, 1)})
    for _ in range(300 if big else 40):
        cases.append({"kind": "expr", "b": _gen_noncanon(rng, rng.choice([2, 3])), "pts": _pts(rng, 2), "noncanon": True})
    for _ in range(20 if big else 8):
        cases.append({"kind": "expr", "b": rng.choice([["pyint", rng.randrange(-9, 10)], ["pyflt", "5/4"], ["pycplx", "0", "1"],
                                                      ["pyobj", "str"], ["pyobj", "none"], ["pyobj", "list"], ["const", "true"]]),
                      "pts": []})
    for _ in range(600 if big else 80):
        cases.append({"kind": "translate", "t": _gen_neutral(rng, rng.choice([1, 2, 3]))})
    for _ in range(600 if big else 80):
        cases.append({"kind": "key", "name": _gen_name(rng)})
    for _ in range(600 if big else 80):
        pfx = _gen_name(rng)
        while pfx and pfx[-1].isdigit():
            pfx = pfx[:-1]
        sfx = _gen_name(rng)
        while sfx and sfx[0].isdigit():
            sfx = sfx[1:]
        a = rng.randrange(0, 10 ** rng.randrange(1, 22))
        b = rng.choice([a, a + 1, a * 10, rng.randrange(0, 10 ** rng.randrange(1, 22)), a + 9])
        d1 = "0" * rng.choice([0, 0, 0, 1, 3]) + str(a)
        d2 = "0" * rng.choice([0, 0, 0, 2]) + str(b)
        cases.append({"kind": "keypair", "pfx": pfx, "d1": d1, "d2": d2, "sfx": sfx})
    for _ in range(200 if big else 30):
        if rng.random() < 0.6:
            stems = rng.sample(["beta", "theta", "gamma", "a", "b_c"], rng.randrange(1, 4))
            names = [f"{s}_{rng.choice([0, 1, 2, 9, 10, 11, 20, 100])}" for s in stems for _ in range(rng.randrange(1, 4))]
            rng.shuffle(names)
        else:
            names = [_gen_name(rng) for _ in range(rng.randrange(0, 7))]
        cases.append({"kind": "sort", "names": names})
    return cases


def _bdepth(t):
    if not isinstance(t, list) or not t or not isinstance(t[0], str):
        return 0
    subs = [_bdepth(a) for a in t[1:] if isinstance(a, list)] + \
           [_bdepth(b) for a in t[1:] if isinstance(a, list) and a and isinstance(a[0], list) for b in a]
    return 1 + max(subs, default=0)


def _bhas(t, names):
    if not isinstance(t, list):
        return False
    if t and isinstance(t[0], str) and t[0] in names:
        return True
    if t and t[0] == "pow" and t[2] in (["rat", "1/2"], ["flt", "1/2"], ["int", -1], ["flt", "-1"]):
        return True
    return any(_bhas(a, names) for a in t[1:] if isinstance(a, list)) or \
        any(_bhas(b, names) for a in t[1:] if isinstance(a, list) and a and isinstance(a[0], list) for b in a)


def nontrivial(c):
    k = c["kind"]
    if k == "expr":
        return _bdepth(c["b"]) >= 3 and _bhas(c["b"], ("sub", "div", "sqrt", "neg"))
    if k == "translate":
        return _bdepth(c["t"]) >= 3
    if k == "keypair":
        return len(c["d1"]) != len(c["d2"])
    if k == "sort":
        return len(set(c["names"])) >= 3
    if k == "key":
        return len(re.findall(r"\d+", c["name"])) >= 2
    return False


# ------------------------------------------------------------------ implementation
def _errkind(e):
    if isinstance(e, NotImplementedError):
        return "err:notimpl"
    if isinstance(e, ValueError):
        return "err:value"
    if isinstance(e, TypeError):
        return "err:type"
    raise e


class _Budget(Exception):
    pass


def _vt_alarm(signum, frame):
    raise _Budget()


def run_impl(c):
    """CPU-time watchdog (SIGVTALRM, independent of the runner's SIGALRM): a case whose construction or numeric
    evaluation inside sympy/mpmath exceeds the budget is skipped (counted in the evidence), never judged"""
    import signal
    old = signal.signal(signal.SIGVTALRM, _vt_alarm)
    signal.setitimer(signal.ITIMER_VIRTUAL, 10.0)
    try:
        return _run_impl(c)
    except _Budget:
        return {"skipped": "cpu-budget"}
    finally:
        signal.setitimer(signal.ITIMER_VIRTUAL, 0)
        signal.signal(signal.SIGVTALRM, old)


def _run_impl(c):
    sympy, se, tr, ex, so = _lib()
    k = c["kind"]
    if k == "expr":
        e = build(c["b"])
        out = {"ser": ser(e), "cls": list(py_class(e)), "shape": shape_class(e), "addneg": has_add_of_negation(e)}
        try:
            tree = se.expression_from_sympy(e)
        except (NotImplementedError, ValueError, TypeError) as err:
            out["tree"] = _errkind(err)
            out["err"] = out["tree"]
            out["tout"] = out["tree"]
            return out
        out["tree"] = neutral(tree, ex)
        try:
            out["tout"] = tr.translate_expression(tree, t_dialect(se, ex)).s
        except (ValueError, TypeError) as err:
            out["tout"] = _errkind(err)
        try:
            back = tr.translate_expression(tree, se.SYMPY_DIALECT)
        except (ValueError, TypeError) as err:
            out["err"] = _errkind(err)
            return out
        except (ZeroDivisionError, OverflowError):
            # Python folds constants of the neutral tree (1/0): the original has no value either (checked by the oracle)
            syms = [sympy.Symbol(s) for s in SYMS]
            out["err"] = "err:zerodiv"
            out["orig_has_value"] = any(_num(e, _point(syms, pt)) is not None for pt in c["pts"])
            return out
        out["err"] = None
        out["back"] = str(back)[:200]
        out["back_is_expr"] = isinstance(back, (sympy.Basic, int, float, complex)) and not isinstance(back, bool)
        ref = round_constants(e)
        syms = [sympy.Symbol(s) for s in SYMS]
        vals = []
        for pt in c["pts"]:
            m = _point(syms, pt)
            o = _num(ref, m)
            if o is None:
                vals.append(None)
                continue
            b = _num(back, {sympy.Symbol(str(s)): v for s, v in m.items()})
            if b is None:
                vals.append({"orig": str(o), "back": None, "ok": False})
                continue
            d = sympy.N(sympy.Abs(o - b), 20)
            scale = max(1.0, float(sympy.Abs(o)))
            vals.append({"orig": str(sympy.N(o, 15)), "back": str(sympy.N(b, 15)), "ok": bool(d <= 1e-9 * scale)})
        out["vals"] = vals
        # same free symbols by name (a translation may not invent or lose a symbol that matters)
        return out
    if k == "translate":
        tree = _to_neutral(c["t"], ex)
        out = {}
        try:
            out["tout"] = tr.translate_expression(tree, t_dialect(se, ex)).s
        except (ValueError, TypeError) as err:
            out["tout"] = _errkind(err)
        try:
            back = tr.translate_expression(tree, se.SYMPY_DIALECT)
            out["err"] = None
            out["back"] = str(back)[:200]
        except (ValueError, TypeError) as err:
            out["err"] = _errkind(err)
        except (ZeroDivisionError, OverflowError):
            out["err"] = "err:zerodiv"  # Python folded the constants of a hand-made tree (1j/0): not a translation
        out["known"] = sorted(se.SYMPY_DIALECT.known_functions)
        return out
    if k == "key":
        s = ex.Symbol(c["name"])
        return {"key": _key_json(so.natural_key(s)), "revlex": _key_json(so.natural_key_revlex(sympy.Symbol(c["name"]) if c["name"] else s))}
    if k == "keypair":
        a, b = c["pfx"] + c["d1"] + c["sfx"], c["pfx"] + c["d2"] + c["sfx"]
        return {"nat": _cmp(so.natural_key(ex.Symbol(a)), so.natural_key(ex.Symbol(b))),
                "rev": _cmp(so.natural_key_revlex(ex.Symbol(a)), so.natural_key_revlex(ex.Symbol(b)))}
    if k == "sort":
        syms = [ex.Symbol(n) for n in c["names"]]
        return {"nat": [s.name for s in sorted(syms, key=so.natural_key)],
                "rev": [s.name for s in sorted(syms, key=so.natural_key_revlex)]}
    raise AssertionError("unknown kind")


def _to_neutral(t, ex):
    if t[0] == "sym":
        return ex.Symbol(t[1])
    if t[0] == "num":
        n = t[1]
        if n[0] == "int":
            return int(n[1])
        if n[0] == "flt":
            return float(Fraction(n[1]))
        return complex(float(Fraction(n[1])), float(Fraction(n[2])))
    return ex.FunctionCall(t[1], tuple(_to_neutral(a, ex) for a in t[2]))


def _key_json(key):
    return [["n", x] if isinstance(x, int) else ["s", x] for x in key]


def _cmp(a, b):
    try:
        return "lt" if a < b else ("gt" if b < a else "eq")
    except TypeError:
        return "err:type"


# ------------------------------------------------------------------ model side
def requests(c, out):
    k = c["kind"]
    if k == "expr":
        if not isinstance(out, dict) or "ser" not in out:
            return []
        if c.get("noncanon") and out.get("addneg"):
            return []
        return [("pipeline", {"e": out["ser"]})]
    if k == "translate":
        return [("translate", {"t": c["t"]}), ("known", {})]
    if k == "key":
        return [("key", {"name": c["name"]})]
    if k == "keypair":
        return [("cmp", {"a": c["pfx"] + c["d1"] + c["sfx"], "b": c["pfx"] + c["d2"] + c["sfx"]})]
    if k == "sort":
        reqs = []
        for which in ("nat", "rev"):
            names = out.get(which, []) if isinstance(out, dict) else []
            for a, b in zip(names, names[1:]):
                reqs.append(("cmp", {"a": a, "b": b}))
        return reqs or [("known", {})]
    return []


def _close(a, b):
    fa, fb = float(unrat(a)), float(unrat(b))
    return abs(fa - fb) <= 4e-16 * max(abs(fa), abs(fb))


def _tree_eq(m, i):
    """model tree vs implementation tree; float leaves up to double rounding of the exact value"""
    if isinstance(m, str) or isinstance(i, str):
        return m == i
    if m[0] != i[0]:
        return False
    if m[0] == "num":
        a, b = m[1], i[1]
        if a[0] != b[0]:
            return False
        if a[0] in ("int", "ext"):
            return a[1] == b[1]
        return all(_close(x, y) for x, y in zip(a[1:], b[1:]))
    if m[0] == "sym":
        return m[1] == i[1]
    if m[0] == "call":
        return m[1] == i[1] and len(m[2]) == len(i[2]) and all(_tree_eq(x, y) for x, y in zip(m[2], i[2]))
    return False


_FLT = re.compile(r"f:-?\d+(?:/\d+)?")


def compare(c, out, resp):
    if isinstance(out, dict) and out.get("skipped"):
        return None
    for r in resp:
        if isinstance(r, dict) and "driver_error" in r:
            return "driver error: " + r["driver_error"]
    k = c["kind"]
    if k == "expr":
        r = resp[0]
        if not _tree_eq(r["tree"], out["tree"]):
            return f"expression_from_sympy: impl {out['tree']} model {r['tree']} on {out['ser']}"
        mo, io = r["out"], out["tout"]
        if mo != io and _FLT.sub("f:#", mo) != _FLT.sub("f:#", io):
            return f"translate_expression with the dialect table: impl {io} model {mo}"
        if not c.get("noncanon"):
            cls = out["cls"][0]
            if r["supported"] != (cls == "supported"):
                return f"grammar classification: model supported={r['supported']} python class {out['cls']}"
            if r["supported"] and mo.startswith("err:"):
                return f"model refuses a supported expression: {mo}"
        return None
    if k == "translate":
        if resp[0] != out["tout"]:
            return f"translate_expression: impl {out['tout']} model {resp[0]} on {c['t']}"
        if sorted(resp[1]) != out["known"]:
            return f"dialect keys: impl {out['known']} model {sorted(resp[1])}"
        return None
    if k == "key":
        r = resp[0]
        if r["key"] != out["key"] or r["revlex"] != out["revlex"]:
            return f"natural_key({c['name']!r}): impl {out} model {r}"
        return None
    if k == "keypair":
        r = resp[0]
        if r["nat"] != out["nat"] or r["rev"] != out["rev"]:
            return f"key comparison: impl {out} model {r}"
        return None
    if k == "sort":
        n1 = max(len(out.get("nat", [])) - 1, 0)
        for j, r in enumerate(resp):
            if not isinstance(r, dict):
                continue
            which = "nat" if j < n1 else "rev"
            if r[which] not in ("lt", "eq"):
                return f"sorted() by the {which} key produced an order the model calls {r[which]} at position {j if j < n1 else j - n1}"
        return None
    return None


# ------------------------------------------------------------------ oracle (the property's own sentences)
def _tokens(name):
    """independent tokenisation: maximal ASCII digit runs become integers"""
    out, cur, dig = [], "", False
    for ch in name:
        d = ch in "0123456789"
        if cur and d != dig:
            out.append((1, int(cur)) if dig else (0, cur))
            cur = ""
        cur += ch
        dig = d
    if cur:
        out.append((1, int(cur)) if dig else (0, cur))
    return out


def _nat_sort_key(name):
    # names are compared group by group; groups alternate text / number starting with (possibly empty) text
    toks = _tokens(name)
    if not toks or toks[0][0] == 1:
        toks = [(0, "")] + toks
    if toks[-1][0] == 1:
        toks = toks + [(0, "")]
    return [t[1] for t in toks]


def oracle(c, out):
    k = c["kind"]
    if not isinstance(out, dict):
        return ("impl-crash", f"unexpected output {out!r}")
    if out.get("skipped"):
        return None
    if "exc" in out:
        return ("impl-raise:" + out["exc"], f"implementation raised {out['exc']}: {out.get('msg')}")
    if k == "expr":
        cls, what = out["cls"]
        err = out.get("err")
        if cls == "supported":
            if err == "err:zerodiv" and not out.get("orig_has_value"):
                return None  # constant division by zero: the original denotes no number, nothing is claimed
            if err is not None:
                return ("supported-refused:" + out["shape"], f"supported expression {out['ser']} refused with {err}")
            if not out.get("back_is_expr"):
                return ("supported-not-expression", f"translation of {out['ser']} is not an expression: {out.get('back')}")
            for pt, v in zip(c["pts"], out.get("vals", [])):
                if v is not None and not v["ok"]:
                    return ("value:" + out["shape"],
                            f"{out['ser']} evaluates to {v['orig']} but its translation {out.get('back')} to {v['back']} at {dict(zip(SYMS, pt))}")
            return None
        if cls == "passthrough":
            return None  # oo / nan are handed through unchanged (identity): nothing is translated to something else
        if err is None:
            if cls == "collision":
                return ("function-name-collides-with-dialect-key",
                        f"{what} in {out['ser']} is outside the supported set but was translated to {out.get('back')}")
            return ("unsupported-accepted:" + what.split(":")[0], f"{what} in {out['ser']} was not refused: {out.get('back')}")
        return None
    if k == "translate":
        names = []

        def walk(t):
            if t[0] == "call":
                names.append(t[1])
                for a in t[2]:
                    walk(a)

        walk(c["t"])
        if any(n not in KEYS for n in names) and out.get("err") is None:
            return ("unknown-function-translated", f"neutral tree {c['t']} with a function outside the dialect gave {out.get('back')}")
        return None
    if k == "key":
        want = _nat_sort_key(c["name"])
        got = [x[1] for x in out["key"]]
        if got != want:
            return ("natural-key", f"natural_key({c['name']!r}) = {got}, digit groups are {want}")
        if [x[1] for x in out["revlex"]] != want[::-1]:
            return ("natural-key-revlex", f"natural_key_revlex({c['name']!r}) = {out['revlex']} is not the reversed key")
        return None
    if k == "keypair":
        a, b = int(c["d1"]), int(c["d2"])
        want = "lt" if a < b else ("gt" if a > b else "eq")
        if out["nat"] != want:
            return ("natural-key-order", f"{c['pfx'] + c['d1'] + c['sfx']!r} vs {c['pfx'] + c['d2'] + c['sfx']!r}: keys compare {out['nat']}, integers {want}")
        return None
    if k == "sort":
        want = sorted(c["names"], key=_nat_sort_key)
        if out["nat"] != want:
            return ("natural-sort", f"sorted by natural_key {out['nat']} expected {want}")
        wantr = sorted(c["names"], key=lambda n: _nat_sort_key(n)[::-1])
        if out["rev"] != wantr:
            return ("natural-sort-revlex", f"sorted by natural_key_revlex {out['rev']} expected {wantr}")
        return None
    return None


def distribution(cases, outs):
    d = {"expr_supported": 0, "expr_refused": 0, "expr_collision": 0, "expr_passthrough": 0, "points_compared": 0,
         "points_without_value": 0, "shapes": {}, "refusal_kinds": {},
         "skipped_cpu_budget": sum(1 for o in outs if isinstance(o, dict) and o.get("skipped"))}
    for c, o in zip(cases, outs):
        if c["kind"] != "expr" or not isinstance(o, dict) or "cls" not in o:
            continue
        cls = o["cls"][0]
        if cls == "supported":
            d["expr_supported"] += 1
        elif cls == "collision":
            d["expr_collision"] += 1
        elif cls == "passthrough":
            d["expr_passthrough"] += 1
        if o.get("err"):
            d["expr_refused"] += 1
            d["refusal_kinds"][o["err"]] = d["refusal_kinds"].get(o["err"], 0) + 1
        d["shapes"][o["shape"]] = d["shapes"].get(o["shape"], 0) + 1
        for v in o.get("vals", []):
            if v is None:
                d["points_without_value"] += 1
            else:
                d["points_compared"] += 1
    return d
