"""C19 — translating symbolic expressions preserves their value; unsupported constructs are refused;
natural sort keys order embedded integers numerically."""
import re
from fractions import Fraction

from .. import common
from ..common import rat, unrat

PROP = "C19"
RULE = ("expression trees built THROUGH sympy from a seeded builder grammar (leaves: symbols - plain, Dummy, with "
        "assumptions, exotic names, names that print like another expression -, ints, rationals, floats, I, huge/tiny "
        "constants; ops: add/sub/mul/div/pow/sqrt/neg/cos/sin/exp/tan; an unsupported-construct stream; an evaluate=False "
        "stream); every expression is converted and translated TWICE with another dialect in between; sessions = "
        "base / one-component sibling / base again run on the same module state (expr and neutral-tree sessions); "
        "hand-made neutral trees (tuple or list argument containers) for translate_expression; symbol names with digit "
        "groups for the sort keys, and key histories (call, edit the returned list, call again, on equal-but-not-identical "
        "symbol objects and sibling names). "
        "non-trivial: builder tree of depth >= 3 containing a subtraction, a division or a root (expr / session steps); a "
        "neutral tree with >= 2 nested calls (translate / tsession); a name pair whose digit groups differ in length "
        "(keys); a key history over >= 2 names with a digit group. distinct = canonical JSON")
TRUSTED = [
    "sympy: `e * (-1)` on a Mul with leading coefficient -1 returns the product of the remaining factors "
    "(OQ.C19.negMul; only its laws value-negation / size / grammar-closure are used by the theorems, and they are proved for negMul)",
    "sympy operators (+, *, -, /, **, sqrt, cos, sin, exp, tan) build expressions denoting the corresponding operation on values; "
    "1/y is Pow(y,-1) and sqrt(y) is Pow(y,1/2) (hypotheses hinv / hsqrt of translate_fromSympy_eval); automatic canonicalisation preserves value",
    "sympy 1.9 `==` between a numeric atom and a Python number compares by value (Float(-1.0) == -1, Rational(1,2) == 0.5)",
    "float(sympy.Rational) / float(sympy.Float) are the value itself up to double rounding (the model keeps the exact rational; "
    "the oracle rounds the constants of the original the same way before comparing)",
    "re.split(r'(\\d+)', s) / str.isdigit / int on ASCII names (model: OQ.C19.splitGo, convGroup, valDigits)",
    "the identity of a sympy symbol is its printed name str(s) (model: SExpr.symbol carries str(s); Dummy('x') is '_x'); "
    "the harness assigns values to the SYMBOL OBJECTS of the original and to Symbol(str(s)) of the translation",
]
ASSUMPTIONS = [
    "symbol names are ASCII for the sort-key MODEL; names beyond ASCII (decimal digits of other scripts, superscript / circled digits, letters) are judged by the oracle (kind ukey): every name has a key whose integer groups are its maximal runs of Unicode decimal digits",
    "at points where the original expression has no finite value (division by zero, poles) nothing is claimed; "
    "the Lean statement uses the total field convention 0^-1 = 0 on both sides",
    "evaluate=False (non-canonical) trees are checked by the oracle; they are compared with the model only when no "
    "x + (-1)*y special case occurs (the model's negMul describes sympy's result on canonical products)",
    "symbols carrying assumptions (real / positive / integer) are assigned values satisfying them; "
    "two DIFFERENT symbols that print identically (same name with different assumptions, two Dummies of one name, "
    "Dummy('x') next to Symbol('_x')) cannot be kept apart by a neutral tree whose symbols are names: the unchanged "
    "library merges them (known finding sig=distinct-symbols-printing-identically-are-merged); the oracle fails such a "
    "case only when NO choice of value for the merged symbol reproduces the original's value",
    "sympy.Wild placeholders are neither required to be translated nor to be refused (if translated, the value must be preserved)",
]

SYMS = ["x", "y", "z", "theta_1", "beta_10", "a0"]
# exotic but legal symbol names: names of sympy constants / dialect keys / python keywords, names with separators that
# sympy.symbols() or sympify() would interpret, names that PRINT like another expression, non-ASCII, case variants
EXOTIC = ["I", "E", "pi", "oo", "S", "lambda", "add", "cos", "sqrt", "x y", "x,y", "a:3", "beta_{10}", "x'", "1", "2x",
          "x + y", "2*x", "cos(x)", "x**2", "-x", "1/2", "\u03b8", "X", "x_", "_x", "None", "True", "theta_01", "beta_2"]
ASSUME = ["real", "positive", "integer"]
ELEM = ["cos", "sin", "exp", "tan"]
KEYS = ["add", "mul", "div", "sub", "pow", "cos", "sin", "exp", "sqrt", "tan"]


def _lib():
    common.use_repo()
    import sympy
    from orquestra.quantum.circuits.symbolic import sympy_expressions as se
    from orquestra.quantum.circuits.symbolic import translations as tr
    from orquestra.quantum.circuits.symbolic import expressions as ex
    from orquestra.quantum.circuits.symbolic import _sorting as so
    return sympy, se, tr, ex, so


# ------------------------------------------------------------------ building sympy expressions
def build(t):
    """builder tree (JSON) -> sympy object, using sympy's own operators so its canonical shapes arise"""
    import sympy
    k = t[0]
    if k == "sym":
        return sympy.Symbol(t[1])
    if k == "dummy":  # distinct index = distinct symbol with the same bare name; prints as "_" + name
        return sympy.Dummy(t[1], dummy_index=900000 + int(t[2]))
    if k == "asym":   # same name, different content: a symbol carrying an assumption
        return sympy.Symbol(t[1], **{t[2]: True})
    if k == "wild":
        return sympy.Wild(t[1])
    if k == "symstr":  # ONE symbol whose name is the printed form of another expression
        return sympy.Symbol(str(build(t[1])))
    if k == "int":
        return sympy.Integer(t[1])
    if k == "rat":
        f = Fraction(t[1])
        return sympy.Rational(f.numerator, f.denominator)
    if k == "flt":
        return sympy.Float(float(Fraction(t[1])))
    if k == "I":
        return sympy.I
    if k == "pyint":
        return int(t[1])
    if k == "pyflt":
        return float(Fraction(t[1]))
    if k == "pycplx":
        return complex(float(Fraction(t[1])), float(Fraction(t[2])))
    if k == "add":
        return build(t[1]) + build(t[2])
    if k == "sub":
        return build(t[1]) - build(t[2])
    if k == "mul":
        return build(t[1]) * build(t[2])
    if k == "div":
        return build(t[1]) / build(t[2])
    if k == "pow":
        return build(t[1]) ** build(t[2])
    if k == "sqrt":
        return sympy.sqrt(build(t[1]))
    if k == "neg":
        return -build(t[1])
    if k == "fn":
        return getattr(sympy, t[1])(*[build(a) for a in t[2]])
    if k == "undef":
        return sympy.Function(t[1])(*[build(a) for a in t[2]])
    if k == "const":
        return {"pi": sympy.pi, "E": sympy.E, "oo": sympy.oo, "-oo": -sympy.oo, "nan": sympy.nan, "zoo": sympy.zoo,
                "GoldenRatio": sympy.GoldenRatio, "true": sympy.true}[t[1]]
    if k == "pyobj":
        return {"str": "x", "none": None, "list": [1, 2]}[t[1]]
    if k == "deriv":
        return sympy.Derivative(build(t[1]), sympy.Symbol("x"))
    if k == "add_ne":
        return sympy.Add(*[build(a) for a in t[1]], evaluate=False)
    if k == "mul_ne":
        return sympy.Mul(*[build(a) for a in t[1]], evaluate=False)
    if k == "pow_ne":
        return sympy.Pow(build(t[1]), build(t[2]), evaluate=False)
    raise AssertionError(f"bad builder node {k}")


def ser(e):
    """sympy object -> the model's SExpr JSON, classified by type exactly as Python's dispatch sees it, from `.args`"""
    import sympy
    from sympy.core.numbers import ImaginaryUnit
    if isinstance(e, bool):
        return ["Other", "bool"]
    if isinstance(e, int):
        return ["Py", ["int", e]]
    if isinstance(e, float):
        return ["Py", ["flt", rat(Fraction(e))]]
    if isinstance(e, complex):
        return ["Py", ["cplx", rat(Fraction(e.real)), rat(Fraction(e.imag))]]
    if isinstance(e, sympy.Symbol):
        return ["Sym", str(e)]
    if isinstance(e, sympy.Integer):
        return ["Int", int(e)]
    if isinstance(e, sympy.Float):
        r = sympy.Rational(e)
        return ["Flt", rat(Fraction(int(r.p), int(r.q)))]
    if isinstance(e, sympy.Rational):
        return ["Rat", rat(Fraction(int(e.p), int(e.q)))]
    if isinstance(e, ImaginaryUnit):
        return ["I"]
    if isinstance(e, sympy.Add):
        return ["Add", [ser(a) for a in e.args]]
    if isinstance(e, sympy.Mul):
        return ["Mul", [ser(a) for a in e.args]]
    if isinstance(e, sympy.Pow):
        return ["Pow", ser(e.args[0]), ser(e.args[1])]
    if isinstance(e, sympy.Function):
        from sympy.core.function import AppliedUndef
        return ["UFn" if isinstance(e, AppliedUndef) else "Fn", str(e.func), [ser(a) for a in e.args]]
    if isinstance(e, sympy.Number):
        return ["NumOther", str(e)]
    return ["Other", type(e).__name__]


def neutral(t, ex):
    """the implementation's neutral tree -> canonical JSON"""
    import sympy
    if isinstance(t, ex.FunctionCall):
        return ["call", t.name, [neutral(a, ex) for a in t.args]]
    if isinstance(t, ex.Symbol):
        return ["sym", t.name]
    if isinstance(t, bool):
        return ["bad", "bool"]
    if isinstance(t, int):
        return ["num", ["int", t]]
    if isinstance(t, float):
        return ["num", ["flt", rat(Fraction(t))]]
    if isinstance(t, complex):
        return ["num", ["cplx", rat(Fraction(t.real)), rat(Fraction(t.imag))]]
    if isinstance(t, sympy.Number):
        return ["num", ["ext", str(t)]]
    return ["bad", type(t).__name__]


class T:
    """printed term: records which operation the dialect's callable applied to which operands, in which order"""

    def __init__(self, s):
        self.s = s

    @staticmethod
    def lift(o):
        return o if isinstance(o, T) else T("raw:" + repr(o))

    def __add__(self, o):
        return T(f"({self.s}+{T.lift(o).s})")

    def __radd__(self, o):
        return T(f"({T.lift(o).s}+{self.s})")

    def __sub__(self, o):
        return T(f"({self.s}-{T.lift(o).s})")

    def __rsub__(self, o):
        return T(f"({T.lift(o).s}-{self.s})")

    def __mul__(self, o):
        return T(f"({self.s}*{T.lift(o).s})")

    def __rmul__(self, o):
        return T(f"({T.lift(o).s}*{self.s})")

    def __truediv__(self, o):
        return T(f"({self.s}/{T.lift(o).s})")

    def __rtruediv__(self, o):
        return T(f"({T.lift(o).s}/{self.s})")

    def __pow__(self, o):
        return T(f"({self.s}^{T.lift(o).s})")

    def __rpow__(self, o):
        return T(f"({T.lift(o).s}^{self.s})")


def _numstr(n):
    import sympy
    if isinstance(n, bool):
        return "bad:bool"
    if isinstance(n, int):
        return f"i:{n}"
    if isinstance(n, float):
        return "f:" + str(rat(Fraction(n)))
    if isinstance(n, complex):
        return f"c:{rat(Fraction(n.real))},{rat(Fraction(n.imag))}"
    if isinstance(n, sympy.Number):
        return f"e:{n}"
    return "bad:" + type(n).__name__


def t_dialect(se, ex):
    """the REAL SYMPY_DIALECT with its leaves wrapped into printed terms: operator-based entries run unchanged on T
    objects; sympy callables (which cannot take a T) are replaced by a printer named after the callable itself"""
    real = se.SYMPY_DIALECT
    known = {}
    for name, fn in real.known_functions.items():
        mod = getattr(fn, "__module__", "") or ""
        if mod.startswith("sympy"):
            cname = getattr(fn, "__name__", str(fn))
            known[name] = (lambda cname: lambda *a: _sympy_call(cname, a))(cname)
        else:
            known[name] = fn
    return ex.ExpressionDialect(
        symbol_factory=lambda s: T("s:" + str(real.symbol_factory(s))),
        number_factory=lambda n: T(_numstr(real.number_factory(n))),
        known_functions=known,
    )


def _sympy_call(cname, a):
    if len(a) != 1:
        raise TypeError(f"{cname} takes exactly 1 argument ({len(a)} given)")
    return T(f"{cname}({a[0].s})")


# ------------------------------------------------------------------ python-side grammar classification (oracle)
def py_class(e):
    """('supported'|'lenient'|'collision'|'passthrough'|'unsupported', construct) by an independent walk of the sympy
    tree.  'lenient' (a Wild placeholder occurs): neither translation nor refusal is demanded, only that a translation,
    if given, preserves the value"""
    import sympy
    from sympy.core.function import AppliedUndef
    from sympy.core.numbers import ImaginaryUnit
    worst = ["supported", ""]
    rank = {"supported": 0, "lenient": 1, "passthrough": 2, "collision": 3, "unsupported": 4}

    def note(c, what):
        if rank[c] > rank[worst[0]]:
            worst[0], worst[1] = c, what

    def walk(n):
        if isinstance(n, bool) or n is None or isinstance(n, (str, list, tuple, dict)):
            note("unsupported", type(n).__name__)
            return
        if isinstance(n, (int, float, complex)):
            return
        if not isinstance(n, sympy.Basic):
            note("unsupported", type(n).__name__)
            return
        if isinstance(n, (sympy.Symbol, sympy.Integer, sympy.Float, sympy.Rational, ImaginaryUnit)):
            if isinstance(n, sympy.Wild):  # a Dummy IS a symbol of the supported grammar
                note("lenient", type(n).__name__)
            return
        if isinstance(n, (sympy.Add, sympy.Mul, sympy.Pow)):
            if len(n.args) == 0:
                note("unsupported", "empty")
            for a in n.args:
                walk(a)
            return
        if isinstance(n, AppliedUndef):
            note("collision" if str(n.func) in KEYS else "unsupported", "undef:" + str(n.func))
            for a in n.args:
                walk(a)
            return
        if isinstance(n, sympy.Function):
            nm = str(n.func)
            if nm in ELEM and n.func is getattr(sympy, nm) and len(n.args) == 1:
                walk(n.args[0])
            else:
                note("collision" if nm in KEYS else "unsupported", "fn:" + nm)
                for a in n.args:
                    walk(a)
            return
        if isinstance(n, sympy.Number):
            note("passthrough", "number:" + str(n))
            return
        note("unsupported", type(n).__name__)

    walk(e)
    return worst[0], worst[1]


def shape_class(e):
    """which special case of the dispatcher the tree exercises (used for the signature of a value mismatch)"""
    import sympy
    feats = set()

    def walk(n):
        if not isinstance(n, sympy.Basic):
            return
        if isinstance(n, sympy.Add) and len(n.args) == 2 and isinstance(n.args[1], sympy.Mul) and n.args[1].args[0] == -1:
            feats.add("sub")
        if isinstance(n, sympy.Mul) and len(n.args) == 2 and isinstance(n.args[1], sympy.Pow) and n.args[1].args[1] == -1:
            feats.add("div")
        if isinstance(n, sympy.Pow):
            if n.args[1] == -1:
                feats.add("recip")
            elif n.args[1] == 0.5:
                feats.add("sqrt")
            else:
                feats.add("pow")
        if isinstance(n, sympy.Function):
            feats.add("fn")
        if isinstance(n, sympy.Add):
            feats.add("add")
        if isinstance(n, sympy.Mul):
            feats.add("mul")
        for a in n.args:
            walk(a)

    walk(e)
    for f in ["sub", "div", "recip", "sqrt", "pow", "fn", "add", "mul"]:
        if f in feats:
            return f
    return "leaf"


def has_add_of_negation(e):
    import sympy
    if not isinstance(e, sympy.Basic):
        return False
    if isinstance(e, sympy.Add) and len(e.args) == 2 and isinstance(e.args[1], sympy.Mul) and e.args[1].args[0] == -1:
        return True
    return any(has_add_of_negation(a) for a in e.args)


def round_constants(e):
    """the original with its constants rounded to doubles exactly as float(number) does (documented conversion)"""
    import sympy
    if not isinstance(e, sympy.Basic):
        return e
    rep = {}
    for a in e.atoms(sympy.Rational):
        if not isinstance(a, sympy.Integer):
            f = sympy.Float(float(a))
            if sympy.Rational(f) != a:
                rep[a] = f
    for a in e.atoms(sympy.Float):
        f = sympy.Float(float(a))
        if sympy.Rational(f) != sympy.Rational(a):
            rep[a] = f
    return e.xreplace(rep) if rep else e


def _symkey(s):
    return (str(s), type(s).__name__, int(getattr(s, "dummy_index", 0) or 0), sorted((k, bool(v)) for k, v in s.assumptions0.items()))


def _assign(e, pt):
    """an assignment of THE SYMBOL OBJECTS of e: the i-th free symbol (deterministic order) gets the i-th value of the
    point, adjusted so that it satisfies the symbol's own assumptions.  Returns [(symbol, value)]"""
    import sympy
    if not isinstance(e, sympy.Basic) or not pt:
        return []
    out = []
    for i, s in enumerate(sorted(e.free_symbols, key=_symkey)):
        re_, im_ = Fraction(pt[i % len(pt)][0]), Fraction(pt[i % len(pt)][1])
        if s.is_integer:
            re_, im_ = Fraction((1 if re_ > 0 else -1) * (abs(re_.numerator) % 5 + 1)), Fraction(0)
            if s.is_positive or s.is_nonnegative:
                re_ = abs(re_)
        elif s.is_positive or s.is_nonnegative:
            re_, im_ = abs(re_), Fraction(0)
        elif s.is_negative or s.is_nonpositive:
            re_, im_ = -abs(re_), Fraction(0)
        elif s.is_real:
            im_ = Fraction(0)
        out.append((s, sympy.Rational(re_.numerator, re_.denominator) + sympy.I * sympy.Rational(im_.numerator, im_.denominator)))
    return out


def _back_maps(asg):
    """assignments of the translation's symbols.  A translated symbol is recognised by the PRINTED name of the original
    symbol (Dummy('x') prints '_x'), or by its bare `.name` where that is not the printed name of a symbol of the
    expression - either naming is a faithful translation as long as different symbols stay different.
    Normally that gives one map.  When different symbols of the original print identically the neutral tree cannot keep
    them apart; then every choice of one member's value for the shared name is returned (at most 32 maps)"""
    import itertools
    import sympy
    groups = {}
    for s, v in asg:
        groups.setdefault(str(s), []).append(v)
    alias = any(len(v) > 1 for v in groups.values())
    printed = set(groups)
    for s, v in asg:
        if s.name not in printed and v not in groups.get(s.name, []):
            groups.setdefault(s.name, []).append(v)
    names = sorted(groups)
    maps = []
    for choice in itertools.islice(itertools.product(*[groups[n] for n in names]), 32):
        maps.append({sympy.Symbol(n): v for n, v in zip(names, choice)})
    return maps, alias


def _at(asg):
    return {f"{type(s).__name__}({s.name!r}" + "".join(f", {k}" for k in ASSUME if s.assumptions0.get(k))
            + (f", #{s.dummy_index - 900000}" if isinstance(s, __import__("sympy").Dummy) else "") + ")": str(v) for s, v in asg}


def _num(e, m):
    """evaluate at the assignment; returns a sympy number (finite complex) or None when there is no finite value"""
    import sympy
    try:
        v = e.subs(m) if isinstance(e, sympy.Basic) else sympy.sympify(e)
        v = sympy.N(v.doit(), 30)  # doit: evalf is unreliable on evaluate=False nodes (N(Pow(0,-1,evaluate=False)) = 0)
    except (ZeroDivisionError, OverflowError, ValueError, TypeError):
        return None
    if not isinstance(v, sympy.Basic) or not v.is_number or v.has(sympy.nan, sympy.zoo, sympy.oo, -sympy.oo):
        return None
    if v.free_symbols or not (v.is_complex or v.is_real):
        return None
    try:
        complex(v)
    except (TypeError, OverflowError):
        return None
    return v


# ------------------------------------------------------------------ cases
def corpus():
    x, y, z = ["sym", "x"], ["sym", "y"], ["sym", "z"]
    pts = [[["3/4", "0"], ["-5/8", "0"], ["7/4", "1/2"], ["5/4", "0"], ["-3/8", "0"], ["9/8", "0"]],
           [["-11/8", "0"], ["2", "0"], ["1/8", "0"], ["3/8", "-1/4"], ["7/8", "0"], ["-2", "0"]]]
    # every one-hole context of the dispatcher around (i) a symbol and the Dummy of the same bare name, (ii) an
    # expression and the single symbol that prints like it
    contexts = []
    for a_, b_ in ((x, ["dummy", "x", 0]), (["add", x, y], ["symstr", ["add", x, y]])):
        for j, t in enumerate(_context_templates(a_, b_, z)[0::2]):
            contexts.append({"kind": "expr", "b": t, "pts": pts[:1], "ord": j % 2})
    return contexts + [
        {"kind": "expr", "b": ["sub", x, y], "pts": pts},
        {"kind": "expr", "b": ["sub", x, ["mul", ["int", 2], y]], "pts": pts},
        {"kind": "expr", "b": ["sub", ["add", ["neg", x], y], z], "pts": pts},
        {"kind": "expr", "b": ["div", ["add", x, y], ["sub", x, y]], "pts": pts},
        {"kind": "expr", "b": ["div", ["int", 1], ["sqrt", ["add", x, ["rat", "1/3"]]]], "pts": pts},
        {"kind": "expr", "b": ["add", ["mul", ["flt", "-1"], x], y], "pts": pts},
        {"kind": "expr", "b": ["pow", x, ["flt", "-1"]], "pts": pts},
        {"kind": "expr", "b": ["pow", x, ["flt", "1/2"]], "pts": pts},
        {"kind": "expr", "b": ["sub", ["fn", "cos", [["mul", ["I"], x]]], ["fn", "exp", [["div", y, ["int", 3]]]]], "pts": pts},
        {"kind": "expr", "b": ["fn", "sinh", [x]], "pts": pts},
        {"kind": "expr", "b": ["add", x, ["const", "pi"]], "pts": pts},
        {"kind": "expr", "b": ["mul", x, ["const", "oo"]], "pts": pts},
        {"kind": "expr", "b": ["fn", "exp", [["int", 1]]], "pts": pts},
        {"kind": "expr", "b": ["undef", "f", [x]], "pts": pts},
        {"kind": "expr", "b": ["undef", "add", [x, y]], "pts": pts},   # name collision: NOT refused (known finding)
        {"kind": "expr", "b": ["undef", "sub", [x]], "pts": pts},
        {"kind": "expr", "b": ["add_ne", [z, ["mul_ne", [["int", -1], ["add", x, y]]]]], "pts": pts},
        {"kind": "expr", "b": ["pyint", 3], "pts": []},
        {"kind": "expr", "b": ["pycplx", "1/2", "-2"], "pts": []},
        {"kind": "expr", "b": ["pyobj", "str"], "pts": []},
        # different symbols sharing a bare name but printing differently must stay different
        {"kind": "expr", "b": ["sub", x, ["dummy", "x", 0]], "pts": pts},
        {"kind": "expr", "b": ["add", ["mul", x, ["dummy", "x", 0]], ["int", 1]], "pts": pts, "ord": 1},
        {"kind": "expr", "b": ["div", ["fn", "sin", [["sym", "theta_3"]]], ["add", ["int", 2], ["pow", ["dummy", "theta_3", 0], ["int", 2]]]], "pts": pts},
        {"kind": "expr", "b": ["sub", ["dummy", "x", 0], ["dummy", "y", 1]], "pts": pts},
        {"kind": "expr", "b": ["fn", "cos", [["dummy", "x", 0]]], "pts": pts},
        {"kind": "expr", "b": ["sub", ["sym", "x"], ["sym", "X"]], "pts": pts},
        # exotic but legal names
        {"kind": "expr", "b": ["add", ["mul", ["sym", "I"], ["I"]], ["sym", "pi"]], "pts": pts},
        {"kind": "expr", "b": ["sub", ["sym", "x,y"], ["div", ["sym", "a:3"], ["sym", "x y"]]], "pts": pts},
        {"kind": "expr", "b": ["sub", ["symstr", ["add", x, y]], ["add", x, y]], "pts": pts},
        {"kind": "expr", "b": ["mul", ["sym", "\u03b8"], ["sym", "lambda"]], "pts": pts},
        # assumptions (values satisfy them)
        {"kind": "expr", "b": ["sqrt", ["mul", ["asym", "p", "positive"], y]], "pts": pts},
        {"kind": "expr", "b": ["pow", ["int", -1], ["asym", "n", "integer"]], "pts": pts},
        # different symbols that PRINT identically: merged by the unchanged library (known finding)
        {"kind": "expr", "b": ["sub", ["asym", "x", "real"], x], "pts": pts},
        {"kind": "expr", "b": ["sub", ["dummy", "x", 0], ["dummy", "x", 1]], "pts": pts},
        {"kind": "expr", "b": ["add", ["dummy", "x", 0], ["mul", ["int", 2], ["sym", "_x"]]], "pts": pts},
        # huge integers
        {"kind": "expr", "b": ["sub", ["mul", ["int", 2 ** 64], x], ["div", ["int", 10 ** 30 + 7], y]], "pts": pts},
        # histories
        {"kind": "session", "steps": [{"b": ["sub", x, y], "pts": pts}, {"b": ["sub", x, ["dummy", "y", 0]], "pts": pts, "ord": 1},
                                      {"b": ["sub", x, y], "pts": pts}]},
        {"kind": "session", "steps": [{"b": ["add", x, ["int", 1]], "pts": pts, "ord": 1}, {"b": ["symstr", ["add", x, ["int", 1]]], "pts": pts},
                                      {"b": ["add", x, ["flt", "1"]], "pts": pts}, {"b": ["add", x, ["int", 1]], "pts": pts}]},
        {"kind": "session", "steps": [{"b": ["pow", x, ["rat", "1/2"]], "pts": pts}, {"b": ["pow", x, ["flt", "1/2"]], "pts": pts},
                                      {"b": ["pow", x, ["rat", "1/3"]], "pts": pts}, {"b": ["pow", x, ["rat", "1/2"]], "pts": pts}]},
        {"kind": "tsession", "steps": [{"t": ["call", "pow", [["sym", "a"], ["num", ["int", 1]]]]},
                                       {"t": ["call", "pow", [["sym", "a"], ["num", ["flt", "1"]]]], "list": True, "ord": 1},
                                       {"t": ["call", "pow", [["sym", "a"], ["num", ["cplx", "1", "0"]]]]},
                                       {"t": ["call", "pow", [["sym", "a"], ["num", ["int", 1]]]]}]},
        {"kind": "tsession", "steps": [{"t": ["call", "cos", [["sym", "a"]]]}, {"t": ["call", "cosh", [["sym", "a"]]], "ord": 1},
                                       {"t": ["call", "cos", [["sym", "b"]]], "list": True}, {"t": ["call", "cosh", [["sym", "a"]]]}]},
        {"kind": "translate", "t": ["call", "add", [["sym", "a"], ["sym", "a"], ["call", "mul", [["sym", "a"], ["sym", "a"]]]]], "list": True, "ord": 1},
        {"kind": "keyhist", "names": ["beta_2", "beta_10", "Beta_2", "beta_02"],
         "ops": [["nat", 0, "ex", "reverse"], ["rev", 0, "ex", "reverse"], ["nat", 0, "ex2", "append"], ["nat", 0, "sp", "clear"],
                 ["sortnat", 0, "ex", "none"], ["nat", 2, "ex", "set0"], ["nat", 3, "du", "none"], ["rev", 1, "sp", "append"],
                 ["sortrev", 0, "sp", "none"], ["nat", 0, "ex", "none"], ["sortnat", 0, "du", "none"]]},
        {"kind": "translate", "t": ["call", "add", [["sym", "a"], ["num", ["int", 2]], ["sym", "c"]]]},
        {"kind": "translate", "t": ["call", "sub", [["sym", "a"]]]},
        {"kind": "translate", "t": ["call", "add", []]},
        {"kind": "translate", "t": ["call", "arctan", [["sym", "a"]]]},
        {"kind": "translate", "t": ["call", "cos", [["call", "nope", []]]]},
        {"kind": "keypair", "pfx": "beta_", "d1": "2", "d2": "10", "sfx": ""},
        {"kind": "keypair", "pfx": "x", "d1": "007", "d2": "7", "sfx": "_b"},
        {"kind": "sort", "names": ["beta_10", "theta_2", "beta_2", "theta_1"]},
        {"kind": "key", "name": ""},
        {"kind": "key", "name": "12ab034"},
    ]


_CTX = {"syms": None}   # the symbol palette of the case being generated (None: the six plain names)


def _palette(rng):
    """symbol leaves of one case.  Kinds: exotic names; a CONFUSABLE group (different symbols sharing a bare name but
    printing differently: Symbol x / Dummy x, case variants, trailing underscore); symbols with assumptions; an ALIAS
    group (different symbols printing identically - the known finding); a Wild"""
    names = SYMS + EXOTIC
    n, m = rng.sample(names, 2)
    k = rng.random()
    if k < 0.30:
        pal = [["sym", n], ["dummy", n, 0], rng.choice([["sym", m], ["dummy", m, 1], ["sym", n + "_"], ["sym", n.swapcase()]])]
    elif k < 0.65:
        pal = [["sym", x] for x in rng.sample(names, rng.randrange(2, 5))]
    elif k < 0.80:
        pal = [["asym", n, rng.choice(ASSUME)], ["sym", m], ["asym", rng.choice(SYMS) + "q", rng.choice(ASSUME)]]
    elif k < 0.92:
        a = rng.choice(ASSUME)
        pal = rng.choice([[["sym", n], ["asym", n, a]], [["dummy", n, 0], ["dummy", n, 1]], [["dummy", n, 0], ["sym", "_" + n]],
                          [["asym", n, a], ["asym", n, rng.choice([b for b in ASSUME if b != a])]]]) + [["sym", m]]
    else:
        pal = [["wild", n], ["sym", m]]
    return pal


def _leaf(rng, allow_I=True):
    r = rng.random()
    if r < 0.45:
        if _CTX["syms"]:
            return list(rng.choice(_CTX["syms"]))
        return ["sym", rng.choice(SYMS)]
    if r < 0.65:
        return ["int", rng.choice([0, 1, -1, 2, -2, 3, 5, -7, 10])]
    if r < 0.8:
        return ["rat", rng.choice(["1/2", "-1/2", "3/4", "-5/8", "1/3", "2/3", "-7/5", "3/2"])]
    if r < 0.93:
        return ["flt", rng.choice(["1/2", "-1", "1", "3/2", "1/4", "-5/2", "2", "1/10", "3602879701896397/36028797018963968"])]
    return ["I"] if allow_I else ["sym", "x"]


def _gen_expr(rng, depth, bad=0.0, heavy=0):
    """`heavy` counts exp / large-power nodes on the path from the root: at most two are nested, and a power with a
    non-constant exponent stands alone, so that no tower (10**10**10, exp(exp(exp(x)))) is ever built or evaluated"""
    if depth <= 0 or rng.random() < 0.12:
        if bad and rng.random() < bad:
            return ["const", rng.choice(["pi", "E", "oo", "nan", "zoo", "-oo", "GoldenRatio"])]
        return _leaf(rng)
    if bad and rng.random() < bad:
        k = rng.random()
        if k < 0.45:
            return ["fn", rng.choice(["sinh", "log", "Abs", "atan", "cosh", "sign", "conjugate"]),
                    [_gen_expr(rng, depth - 1, bad, heavy + 1)]]
        if k < 0.7:
            return ["undef", rng.choice(["f", "g", "h"]),
                    [_gen_expr(rng, depth - 1, bad, heavy) for _ in range(rng.randrange(1, 3))]]
        if k < 0.8:
            return ["deriv", _gen_expr(rng, depth - 1, 0.0, heavy)]
        if k < 0.9:
            return ["fn", "atan2", [_gen_expr(rng, depth - 1, bad, heavy), _gen_expr(rng, depth - 1, bad, heavy)]]
        nm = rng.choice(["add", "mul", "div", "sub", "pow", "sqrt", "cos", "sin"])
        n = rng.choice([1, 2, 2, 3]) if nm in ("add", "mul") else (rng.choice([2, 2, 1]) if nm in ("div", "sub", "pow") else rng.choice([1, 1, 2]))
        if nm == "sqrt":
            n = 1
        return ["undef", nm, [_gen_expr(rng, depth - 1, 0.0, 2) for _ in range(n)]]
    op = rng.choice(["add", "sub", "mul", "div", "pow", "sqrt", "neg", "fn", "sub", "div", "add", "mul"])
    if op in ("add", "sub", "mul", "div"):
        return [op, _gen_expr(rng, depth - 1, bad, heavy), _gen_expr(rng, depth - 1, bad, heavy)]
    if op == "pow":
        if heavy > 0 or rng.random() < 0.75:
            e = rng.choice([["int", 2], ["int", -1], ["int", -2], ["int", 3], ["rat", "1/2"], ["rat", "-1/2"], ["flt", "1/2"],
                            ["flt", "-1"], ["rat", "1/3"], ["int", 0], ["int", 1], ["flt", "2"], ["rat", "3/2"]])
            return ["pow", _gen_expr(rng, depth - 1, bad, heavy), e]
        return ["pow", _gen_expr(rng, depth - 1, bad, 2), _gen_expr(rng, min(depth - 1, 1), 0.0, 2)]
    if op == "sqrt":
        return ["sqrt", _gen_expr(rng, depth - 1, bad, heavy)]
    if op == "neg":
        return ["neg", _gen_expr(rng, depth - 1, bad, heavy)]
    f = rng.choice(ELEM)
    if f == "exp":
        if heavy >= 2:
            f = rng.choice(["cos", "sin", "tan"])
        else:
            return ["fn", "exp", [_gen_expr(rng, depth - 1, bad, heavy + 1)]]
    return ["fn", f, [_gen_expr(rng, depth - 1, bad, heavy)]]


NARY_LADDER = [9, 15, 16, 17, 18, 31, 32, 33, 34, 48, 63, 64, 65, 100, 129]


def _gen_wide_nary(rng):
    """ONE sum / product with many operands (sympy flattens the chain into a single n-ary Add / Mul): the property has no
    bound on the number of operands, so n crosses the round numbers where a chunked / pairwise / recursive reduction sits"""
    n = rng.choice(NARY_LADDER)
    x = ["sym", rng.choice(["x", "y"])]
    y = ["sym", "z"]
    style = rng.choice(["cos", "shift", "pow", "mixed"])
    def operand(k):
        if style == "cos":
            return ["fn", rng.choice(["cos", "sin"]) if k % 7 else "cos", [["mul", ["int", k + 1], x]]]
        if style == "shift":
            return ["add", x, ["int", k + 1]] if k % 2 else ["sub", y, ["rat", f"{k + 1}/2"]]
        if style == "pow":
            return ["mul", ["rat", f"1/{k + 1}"], ["pow", x, ["int", k % 9 + 1]]] if k % 3 else ["fn", "cos", [["mul", ["int", k + 1], y]]]
        return rng.choice([["fn", "sin", [["add", x, ["int", k]]]], ["mul", ["int", k + 2], ["pow", y, ["int", 2]]],
                           ["div", x, ["int", k + 3]], ["sqrt", ["add", ["pow", x, ["int", 2]], ["int", k + 1]]]])
    op = rng.choice(["add", "mul"]) if style != "pow" else "add"
    if op == "mul" and style == "cos":
        style = "shift"
    t = operand(0)
    for k in range(1, n):
        t = [op, t, operand(k)]
    if rng.random() < 0.4:   # the wide node below another node
        t = rng.choice([["neg", t], ["mul", ["int", 3], t] if op == "add" else ["add", ["int", 1], t], ["fn", "cos", [t]] if op == "add" else ["sub", t, x]])
    return t


def _gen_noncanon(rng, depth):
    if depth <= 0 or rng.random() < 0.2:
        return _leaf(rng, allow_I=False)
    k = rng.random()
    if k < 0.3:
        return ["add_ne", [_gen_noncanon(rng, depth - 1) for _ in range(rng.randrange(1, 4))]]
    if k < 0.6:
        return ["mul_ne", [_gen_noncanon(rng, depth - 1) for _ in range(rng.randrange(1, 4))]]
    if k < 0.8:
        e = rng.choice([["int", -1], ["rat", "1/2"], ["int", 2], ["flt", "-1"], ["flt", "1/2"], ["sym", "y"]])
        b = _gen_noncanon(rng, depth - 1)
        if b in (["int", 0], ["flt", "0"]):
            b = ["sym", "x"]
        return ["pow_ne", b, e]
    return _gen_expr(rng, depth - 1)


def _pts(rng, n):
    """n points; a point is a list of 8 values (re, im) with pairwise different non-zero real parts: the i-th free symbol
    of the expression (in a fixed order) takes the i-th value, so different symbols get different values"""
    out = []
    for _ in range(n):
        res = rng.sample([s_ * k for s_ in (-1, 1) for k in range(1, 24)], 8)
        pt = []
        for r_ in res:
            im_ = Fraction(rng.randrange(-8, 9), 8) if rng.random() < 0.25 else Fraction(0)
            pt.append([str(Fraction(r_, 8)), str(im_)])
        out.append(pt)
    return out


def _paths(t, pre=()):
    """paths of all builder nodes"""
    out = [pre]
    if t[0] in ("add", "sub", "mul", "div", "pow"):
        out += _paths(t[1], pre + (1,)) + _paths(t[2], pre + (2,))
    elif t[0] in ("sqrt", "neg", "symstr", "deriv"):
        out += _paths(t[1], pre + (1,))
    elif t[0] in ("fn", "undef"):
        for j, a in enumerate(t[2]):
            out += _paths(a, pre + (2, j))
    elif t[0] in ("add_ne", "mul_ne"):
        for j, a in enumerate(t[1]):
            out += _paths(a, pre + (1, j))
    elif t[0] == "pow_ne":
        out += _paths(t[1], pre + (1,)) + _paths(t[2], pre + (2,))
    return out


def _get(t, path):
    for j in path:
        t = t[j]
    return t


def _put(t, path, new):
    if not path:
        return new
    t = list(t)
    t[path[0]] = _put(t[path[0]], path[1:], new)
    return t


_EXPS = [["int", 2], ["int", -1], ["int", -2], ["int", 3], ["rat", "1/2"], ["rat", "-1/2"], ["flt", "1/2"],
         ["flt", "-1"], ["rat", "1/3"], ["int", 1], ["flt", "2"], ["rat", "3/2"]]


def _sibling(rng, t):
    """the builder tree with EXACTLY ONE component changed (a leaf replaced by an equal-looking / equal-valued /
    neighbouring one, an operator by its partner, two operands swapped)"""
    paths = _paths(t)
    for _ in range(40):
        p = rng.choice(paths)
        n = _get(t, p)
        k = n[0]
        in_exponent = any(_get(t, p[:j])[0] in ("pow", "pow_ne") and p[j] == 2 for j in range(len(p)))
        new = None
        if k == "sym":
            new = rng.choice([["dummy", n[1], 0], ["sym", rng.choice([x for x in SYMS if x != n[1]])],
                              ["asym", n[1], rng.choice(ASSUME)], ["sym", n[1] + "_"], ["sym", "_" + n[1]]])
        elif k == "dummy":
            new = rng.choice([["sym", n[1]], ["dummy", n[1], int(n[2]) + 1], ["sym", "_" + n[1]]])
        elif k == "asym":
            new = ["sym", n[1]]
        elif k == "int":
            new = rng.choice([["flt", str(n[1])], ["int", n[1] + 1], ["int", -n[1]]])
        elif k == "rat":
            f = Fraction(n[1])
            new = ["flt", n[1]] if f.denominator & (f.denominator - 1) == 0 else ["rat", str(-f)]
        elif k == "flt":
            f = Fraction(n[1])
            new = ["int", int(f)] if f.denominator == 1 and rng.random() < 0.6 else ["rat", n[1]]
        elif k in ("add", "sub", "mul", "div") and not in_exponent:
            r = rng.random()
            if r < 0.5:
                new = [{"add": "sub", "sub": "add", "mul": "div", "div": "mul"}[k], n[1], n[2]]
            elif k in ("sub", "div"):
                new = [k, n[2], n[1]]
        elif k == "pow" and n[2] in _EXPS:
            new = ["pow", n[1], rng.choice([e for e in _EXPS if e != n[2]])]
        elif k == "fn" and n[1] in ("cos", "sin", "tan"):
            new = ["fn", rng.choice([f for f in ("cos", "sin", "tan") if f != n[1]]), n[2]]
        elif k == "neg":
            new = n[1]
        elif k == "sqrt":
            new = ["pow", n[1], rng.choice([["rat", "1/2"], ["flt", "1/2"], ["rat", "1/3"]])]
        if new is not None and new != n:
            return _put(t, p, new)
    return ["add", t, ["int", 1]]


def _pair_templates(a, b, c):
    """small expressions that put two symbols (and a bystander c) into EVERY branch of the dispatcher: plain sum, the
    x + (-1)*y special case, products, the x * y**-1 special case, reciprocal, square root, general power, elementary
    functions, argument tuples, evaluate=False nodes"""
    two, half = ["int", 2], ["rat", "1/2"]
    return [
        ["add", a, b], ["sub", a, b], ["sub", b, a], ["mul", a, b], ["div", a, b], ["div", b, a], ["pow", a, b], ["pow", b, a],
        ["add", ["add", a, b], c], ["sub", ["mul", two, a], ["mul", ["int", 3], b]], ["add", ["div", ["int", 1], a], b],
        ["sub", ["sqrt", a], ["sqrt", b]], ["mul", ["sqrt", a], b], ["add", ["pow", a, two], ["pow", b, two]],
        ["add", ["pow", a, ["rat", "1/3"]], ["pow", b, ["flt", "1/2"]]], ["sub", ["fn", "cos", [a]], ["fn", "cos", [b]]],
        ["mul", ["fn", "sin", [a]], ["fn", "exp", [b]]], ["fn", "tan", [["sub", a, b]]], ["fn", "exp", [["mul", a, b]]],
        ["div", ["add", a, c], ["sub", b, c]], ["div", a, ["mul", b, c]], ["neg", ["add", a, b]], ["sub", ["neg", a], b],
        ["pow", ["add", a, b], ["int", -1]], ["pow", ["mul", a, b], half], ["mul", ["mul", a, b], ["pow", c, ["int", -1]]],
        ["add_ne", [a, b]], ["add_ne", [a, ["mul_ne", [["int", -1], b]]]], ["mul_ne", [a, b]], ["mul_ne", [a, ["pow_ne", b, ["int", -1]]]],
        ["pow_ne", a, b], ["add_ne", [a, b, a]], ["mul_ne", [b, a, b]],
    ]


def _context_templates(a, b, c):
    """the SAME one-hole context around each of the two: f(a) - f(b) and f(a) + 2*f(b) for every unary context f the
    dispatcher distinguishes (a handler that remembers its answer under too coarse a description of its operand
    answers f(b) with f(a))"""
    two = ["int", 2]
    ctx = [lambda t: ["pow", t, two], lambda t: ["pow", t, ["rat", "1/3"]], lambda t: ["pow", two, t], lambda t: ["pow", t, c],
           lambda t: ["fn", "cos", [t]], lambda t: ["fn", "exp", [t]], lambda t: ["sqrt", t], lambda t: ["div", ["int", 1], t],
           lambda t: ["mul", t, c], lambda t: ["add", t, c], lambda t: ["sub", c, t], lambda t: ["sub", t, c], lambda t: ["div", t, c],
           lambda t: ["div", c, t], lambda t: ["neg", t], lambda t: ["pow", t, ["int", -2]], lambda t: ["fn", "tan", [["mul", two, t]]]]
    out = []
    for f in ctx:
        out.append(["sub", f(a), f(b)])
        out.append(["add", f(a), ["mul", two, f(b)]])
    return out


def _confusable_pair(rng):
    """two DIFFERENT symbols that a shortcut (bare name, case folding, stripping, a cache key) would identify, but whose
    printed names differ"""
    n = rng.choice(SYMS + EXOTIC)
    if rng.random() < 0.2:
        # an expression and ONE symbol that prints exactly like it
        x, y = ["sym", rng.choice(SYMS)], ["sym", rng.choice(SYMS + EXOTIC)]
        e = rng.choice([["add", x, y], ["mul", ["int", 2], x], ["fn", "cos", [x]], ["pow", x, ["int", 2]], ["div", x, ["add", y, ["int", 1]]],
                        ["neg", x], ["sub", x, ["int", 1]], ["sqrt", x], ["mul", x, ["I"]], ["rat", "1/2"], ["int", 7], ["flt", "3/2"]])
        return e, ["symstr", e]
    k = rng.random()
    if k < 0.4:
        return ["sym", n], ["dummy", n, 0]
    if k < 0.5:
        return ["dummy", n, 0], ["dummy", rng.choice([x for x in SYMS if x != n]), 0]
    if k < 0.6 and n.swapcase() != n:
        return ["sym", n], ["sym", n.swapcase()]
    if k < 0.7:
        return ["sym", n], ["sym", n + rng.choice(["_", " ", "'", "0"])]
    if k < 0.8:
        return ["sym", n], ["sym", rng.choice(["_", " "]) + n]
    if k < 0.9:
        return ["asym", n, rng.choice(ASSUME)], ["dummy", n, 0]
    return ["sym", n], ["symstr", ["sym", n + n]]


def _gen_exact(rng, depth):
    """rational functions over symbols and (huge, negative, zero) integers only: every value is exact on both sides"""
    if depth <= 0 or rng.random() < 0.15:
        if rng.random() < 0.5:
            return ["sym", rng.choice(SYMS)]
        return ["int", rng.choice([0, 1, -1, 2, 3, -7, 10 ** 12, -(10 ** 15) + 1, 2 ** 53 + 1, 2 ** 64, -(2 ** 63) - 1,
                                   10 ** 30 + 7, 99999999999999999999])]
    op = rng.choice(["add", "sub", "mul", "div", "neg", "pow", "sub", "div"])
    if op == "neg":
        return ["neg", _gen_exact(rng, depth - 1)]
    if op == "pow":
        return ["pow", _gen_exact(rng, depth - 1), ["int", rng.choice([2, -1, 3, -2])]]
    return [op, _gen_exact(rng, depth - 1), _gen_exact(rng, depth - 1)]


def _nsibling(rng, t):
    """a neutral tree with exactly one component changed: a number by an EQUAL number of another Python type
    (1 == 1.0 == 1+0j, also as dict keys), a symbol renamed, a function name replaced, an argument dropped or doubled"""
    paths = []

    def walk(n, pre):
        paths.append(pre)
        if n[0] == "call":
            for j, a in enumerate(n[2]):
                walk(a, pre + (2, j))

    walk(t, ())
    for _ in range(30):
        p = rng.choice(paths)
        n = _get(t, p)
        new = None
        if n[0] == "num":
            kind = n[1][0]
            if kind == "int":
                new = rng.choice([["num", ["flt", str(n[1][1])]], ["num", ["cplx", str(n[1][1]), "0"]], ["num", ["int", n[1][1] + 1]]])
            elif kind == "flt":
                f = Fraction(n[1][1])
                new = ["num", ["int", int(f)]] if f.denominator == 1 else ["num", ["cplx", n[1][1], "0"]]
            else:
                new = ["num", ["flt", n[1][1]]] if Fraction(n[1][2]) == 0 else ["num", ["cplx", n[1][2], n[1][1]]]
        elif n[0] == "sym":
            new = ["sym", rng.choice([x for x in SYMS + EXOTIC if x != n[1]])]
        elif n[0] == "call":
            r = rng.random()
            if r < 0.5:
                partner = {"add": "mul", "mul": "add", "sub": "div", "div": "sub", "cos": "sin", "sin": "cos", "exp": "tan",
                           "tan": "exp", "pow": "sub", "sqrt": "cos"}
                new = ["call", rng.choice([partner.get(n[1], "add"), "cosh", n[1].upper() or "f", n[1] + " "]), n[2]]
            elif r < 0.75 and n[1] in ("add", "mul") and n[2]:
                new = ["call", n[1], n[2] + [n[2][-1]]]        # a repeated equal argument
            elif n[1] in ("add", "mul") and len(n[2]) > 1:
                new = ["call", n[1], n[2][:-1]]
        if new is not None and new != n:
            return _put(t, p, new)
    return ["call", "add", [t, ["num", ["int", 1]]]]


def _name_siblings(rng, name):
    """names that an incomplete cache key / a shortcut would confuse with `name`"""
    out = [name.swapcase(), name + "0", name + "_", "0" + name, name[:-1], name[1:], name + name]
    toks = re.split(r"(\d+)", name)
    for j in range(1, len(toks), 2):
        for rep in ("0" + toks[j], "00" + toks[j], str(int(toks[j]) + 1), str(int(toks[j]) * 10), toks[j].lstrip("0") or "0", toks[j] + "9"):
            out.append("".join(toks[:j] + [rep] + toks[j + 1:]))
        out.append("".join(toks[:j] + toks[j + 1:]))
    return [n for n in out if n != name]


def _gen_keyhist(rng):
    if rng.random() < 0.6:
        base = f"{rng.choice(['beta', 'theta', 'gamma', 'a', 'b_c', 'x2y'])}_{rng.choice([0, 1, 2, 7, 9, 10, 11, 20, 100, '007', '010'])}"
        if rng.random() < 0.4:
            base += rng.choice(["_1", "_10", "a", "_02", "x3"])
    else:
        base = _gen_name(rng)
    names = [base]
    sib = _name_siblings(rng, base)
    for _ in range(rng.randrange(1, 5)):
        names.append(rng.choice(sib) if sib and rng.random() < 0.8 else _gen_name(rng))
    if rng.random() < 0.3:
        names.append(base)   # the same name twice (two equal symbols in one sort)
    ops = []
    for _ in range(rng.randrange(5, 12)):
        op = rng.choice(["nat", "nat", "nat", "nat", "rev", "rev", "rev", "sortnat", "sortrev"])
        i = rng.randrange(len(names)) if rng.random() < 0.6 else 0
        ops.append([op, i, rng.choice(["ex", "ex", "ex2", "sp", "du"]), rng.choice(["none", "append", "reverse", "reverse", "clear", "set0"])])
    return {"kind": "keyhist", "names": names, "ops": ops}


def _gen_neutral(rng, depth):
    if depth <= 0 or rng.random() < 0.25:
        r = rng.random()
        if r < 0.5:
            return ["sym", rng.choice(SYMS)]
        if r < 0.7:
            return ["num", ["int", rng.randrange(-5, 6)]]
        if r < 0.9:
            return ["num", ["flt", rng.choice(["1/2", "-3/4", "5/2", "1/8"])]]
        return ["num", ["cplx", "0", "1"]]
    name = rng.choice(KEYS + KEYS + ["arctan", "log", "Add", "COS", "", "sqrt ", "neg"])
    want = {"add": None, "mul": None, "div": 2, "sub": 2, "pow": 2}.get(name, 1)
    if want is None:
        n = rng.choice([0, 1, 2, 3, 4])
    else:
        n = want if rng.random() < 0.85 else rng.choice([0, 1, 2, 3])
    if name == "sqrt" and n != 1:
        n = 1  # sympy.sqrt has a second positional parameter (evaluate); not part of the modelled table
    return ["call", name, [_gen_neutral(rng, depth - 1) for _ in range(n)]]


def _gen_name(rng):
    parts = []
    for _ in range(rng.randrange(0, 5)):
        if rng.random() < 0.5:
            parts.append("".join(rng.choice("abxyzBT_-.") for _ in range(rng.randrange(0, 4))))
        else:
            parts.append(rng.choice(["0", "1", "2", "10", "007", "12", "9", "100", "00", str(rng.randrange(0, 10 ** rng.randrange(1, 25)))]))
    return "".join(parts)


def _exact_ok(b):
    """the built expression contains integers only (no Rational / Float atom): evaluation is exact on both sides"""
    import sympy
    try:
        e = build(b)
    except Exception:
        return False
    return isinstance(e, sympy.Basic) and all(isinstance(a, sympy.Integer) for a in e.atoms(sympy.Number)) and bool(e.free_symbols)


def _gen_session(rng, big):
    """base expression, a sibling differing in exactly one component, the base again - all on the same module state"""
    _CTX["syms"] = _palette(rng) if rng.random() < 0.3 else None
    try:
        base = _gen_expr(rng, rng.choice([2, 3, 3, 4] if big else [2, 2, 3]))
    finally:
        _CTX["syms"] = None
    r = rng.random()
    if r < 0.5:
        sib = _sibling(rng, base)
    elif r < 0.9:
        # a sub-expression replaced by ONE symbol that prints exactly like it (same printed form, different content)
        pth = rng.choice(_paths(base))
        sib = rng.choice([_put(base, pth, ["symstr", _get(base, pth)]), _put(base, pth, ["symstr", _get(base, pth)]),
                          ["symstr", base], ["mul", ["symstr", base], base]])
    else:
        sib = _sibling(rng, _sibling(rng, base))
    steps = [{"b": b, "pts": _pts(rng, 1), "ord": rng.randrange(2)} for b in (base, sib, base)]
    if rng.random() < 0.3:
        steps.append({"b": sib, "pts": _pts(rng, 1), "ord": rng.randrange(2)})
    return {"kind": "session", "steps": steps}


def _gen_tsession(rng):
    base = _gen_neutral(rng, rng.choice([1, 2, 3]))
    if base[0] != "call":
        base = ["call", rng.choice(["cos", "sqrt", "exp"]), [base]]
    sib = _nsibling(rng, base)
    steps = [{"t": t, "list": rng.random() < 0.4, "ord": rng.randrange(2)} for t in (base, sib, base)]
    return {"kind": "tsession", "steps": steps}


def generate(rng, tier):
    big = tier == "thorough"
    cases = []
    for _ in range(1500 if big else 230):
        d = rng.choice([2, 3, 3, 4, 5] if big else [2, 3, 3, 4])
        _CTX["syms"] = _palette(rng) if rng.random() < 0.35 else None
        try:
            cases.append({"kind": "expr", "b": _gen_expr(rng, d), "pts": _pts(rng, 2), "ord": rng.randrange(2)})
        finally:
            _CTX["syms"] = None
    for _ in range(500 if big else 70):
        d = rng.choice([1, 2, 3, 4] if big else [1, 2, 3])
        cases.append({"kind": "expr", "b": _gen_expr(rng, d, bad=0.25), "pts": _pts(rng, 1), "ord": rng.randrange(2)})
    for _ in range(300 if big else 40):
        _CTX["syms"] = _palette(rng) if rng.random() < 0.25 else None
        try:
            cases.append({"kind": "expr", "b": _gen_noncanon(rng, rng.choice([2, 3])), "pts": _pts(rng, 2), "noncanon": True,
                          "ord": rng.randrange(2)})
        finally:
            _CTX["syms"] = None
    for _ in range(500 if big else 80):   # confusable symbol pairs in every branch of the dispatcher
        a_, b_ = _confusable_pair(rng)
        c_ = ["sym", rng.choice(["w", "y", "z"])]
        b = rng.choice(_context_templates(a_, b_, c_) if rng.random() < (0.7 if b_[0] == "symstr" else 0.3) else _pair_templates(a_, b_, c_))
        cases.append({"kind": "expr", "b": b, "pts": _pts(rng, 1), "ord": rng.randrange(2),
                      **({"noncanon": True} if any(_get(b, p)[0] in ("add_ne", "mul_ne", "pow_ne") for p in _paths(b)) else {})})
    for _ in range(60 if big else 12):   # operand-count ladder of the n-ary nodes
        cases.append({"kind": "expr", "b": _gen_wide_nary(rng), "pts": _pts(rng, 1), "ord": rng.randrange(2)})
    n_exact = 0
    for _ in range(2000 if big else 300):   # exotic numbers: huge / negative / zero integers in rational functions
        if n_exact >= (100 if big else 16):
            break
        b = _gen_exact(rng, rng.choice([2, 3]))
        if _exact_ok(b):
            n_exact += 1
            cases.append({"kind": "expr", "b": b, "pts": _pts(rng, 1), "ord": rng.randrange(2)})
    for _ in range(20 if big else 8):
        cases.append({"kind": "expr", "b": rng.choice([["pyint", rng.randrange(-9, 10)], ["pyflt", "5/4"], ["pycplx", "0", "1"],
                                                      ["pyobj", "str"], ["pyobj", "none"], ["pyobj", "list"], ["const", "true"]]),
                      "pts": []})
    for _ in range(400 if big else 60):
        cases.append(_gen_session(rng, big))
    for _ in range(600 if big else 80):
        cases.append({"kind": "translate", "t": _gen_neutral(rng, rng.choice([1, 2, 3])), "list": rng.random() < 0.3,
                      "ord": rng.randrange(2)})
    for _ in range(200 if big else 30):
        cases.append(_gen_tsession(rng))
    for _ in range(600 if big else 80):
        cases.append({"kind": "key", "name": _gen_name(rng)})
    for _ in range(300 if big else 40):
        cases.append(_gen_keyhist(rng))
    # names beyond ASCII (oracle only: the sort-key model is ASCII): characters that are digits for str.isdigit() but not decimal
    # digits (superscripts, circled numbers), decimal digits of other scripts, letters of other scripts
    for _ in range(120 if big else 24):
        pool = ["a", "x_", "beta", "θ", "é", "_", "²", "³", "①", "¹", "٣", "७", "５", "1", "10", "2", "007", "-"]
        cases.append({"kind": "ukey", "name": "".join(rng.choice(pool) for _ in range(rng.randrange(1, 6)))})
    for _ in range(600 if big else 80):
        pfx = _gen_name(rng)
        while pfx and pfx[-1].isdigit():
            pfx = pfx[:-1]
        sfx = _gen_name(rng)
        while sfx and sfx[0].isdigit():
            sfx = sfx[1:]
        a = rng.randrange(0, 10 ** rng.randrange(1, 22))
        b = rng.choice([a, a + 1, a * 10, rng.randrange(0, 10 ** rng.randrange(1, 22)), a + 9])
        d1 = "0" * rng.choice([0, 0, 0, 1, 3]) + str(a)
        d2 = "0" * rng.choice([0, 0, 0, 2]) + str(b)
        cases.append({"kind": "keypair", "pfx": pfx, "d1": d1, "d2": d2, "sfx": sfx})
    for _ in range(200 if big else 30):
        if rng.random() < 0.6:
            stems = rng.sample(["beta", "theta", "gamma", "a", "b_c"], rng.randrange(1, 4))
            names = [f"{s}_{rng.choice([0, 1, 2, 9, 10, 11, 20, 100])}" for s in stems for _ in range(rng.randrange(1, 4))]
            rng.shuffle(names)
        else:
            names = [_gen_name(rng) for _ in range(rng.randrange(0, 7))]
        cases.append({"kind": "sort", "names": names})
    rng.shuffle(cases)   # the kinds are interleaved: every case runs after a varied history of calls of all the APIs
    return cases


def _bdepth(t):
    if not isinstance(t, list) or not t or not isinstance(t[0], str):
        return 0
    subs = [_bdepth(a) for a in t[1:] if isinstance(a, list)] + \
           [_bdepth(b) for a in t[1:] if isinstance(a, list) and a and isinstance(a[0], list) for b in a]
    return 1 + max(subs, default=0)


def _bhas(t, names):
    if not isinstance(t, list):
        return False
    if t and isinstance(t[0], str) and t[0] in names:
        return True
    if t and t[0] == "pow" and t[2] in (["rat", "1/2"], ["flt", "1/2"], ["int", -1], ["flt", "-1"]):
        return True
    return any(_bhas(a, names) for a in t[1:] if isinstance(a, list)) or \
        any(_bhas(b, names) for a in t[1:] if isinstance(a, list) and a and isinstance(a[0], list) for b in a)


def nontrivial(c):
    k = c["kind"]
    if k == "expr":
        return _bdepth(c["b"]) >= 3 and _bhas(c["b"], ("sub", "div", "sqrt", "neg"))
    if k == "session":
        return any(_bdepth(st["b"]) >= 3 and _bhas(st["b"], ("sub", "div", "sqrt", "neg")) for st in c["steps"])
    if k == "translate":
        return _bdepth(c["t"]) >= 3
    if k == "tsession":
        return any(_bdepth(st["t"]) >= 3 for st in c["steps"])
    if k == "keyhist":
        return len({n for n in c["names"] if re.search(r"\d", n)}) >= 2 and len(c["ops"]) >= 3
    if k == "keypair":
        return len(c["d1"]) != len(c["d2"])
    if k == "sort":
        return len(set(c["names"])) >= 3
    if k == "key":
        return len(re.findall(r"\d+", c["name"])) >= 2
    if k == "ukey":
        return any(ord(ch) > 127 for ch in c["name"])
    return False


# ------------------------------------------------------------------ implementation
def _errkind(e):
    if isinstance(e, NotImplementedError):
        return "err:notimpl"
    if isinstance(e, ValueError):
        return "err:value"
    if isinstance(e, TypeError):
        return "err:type"
    raise e


class _Budget(Exception):
    pass


def _vt_alarm(signum, frame):
    raise _Budget()


def run_impl(c):
    """CPU-time watchdog (SIGVTALRM, independent of the runner's SIGALRM): a case whose construction or numeric
    evaluation inside sympy/mpmath exceeds the budget is skipped (counted in the evidence), never judged"""
    import signal
    old = signal.signal(signal.SIGVTALRM, _vt_alarm)
    signal.setitimer(signal.ITIMER_VIRTUAL, 10.0)
    try:
        return _run_impl(c)
    except _Budget:
        return {"skipped": "cpu-budget"}
    finally:
        signal.setitimer(signal.ITIMER_VIRTUAL, 0)
        signal.signal(signal.SIGVTALRM, old)


def _values(sympy, ref, backs, pts, tol=1e-9):
    """value of the original at each assignment of its symbol objects against the value of each translation in `backs`
    (the first and the repeated one) at the corresponding assignment by printed name"""
    vals, alias = [], False
    for pt in pts:
        asg = _assign(ref, pt)
        o = _num(ref, dict(asg))
        if o is None:
            vals.append(None)
            continue
        maps, al = _back_maps(asg)
        alias = alias or al
        scale = max(1.0, float(sympy.Abs(o)))
        entry = {"orig": str(sympy.N(o, 15)), "at": _at(asg), "ok": True, "back": None, "which": None}
        for which, back in backs:
            best = None
            for m in maps:
                b = _num(back, m)
                if b is not None and bool(sympy.N(sympy.Abs(o - b), 20) <= tol * scale):
                    best = ("ok", b)
                    break
                if best is None:
                    best = ("bad", b)
            if best[0] != "ok":
                entry.update(ok=False, back=None if best[1] is None else str(sympy.N(best[1], 15)), which=which)
                break
            if entry["back"] is None:
                entry["back"] = str(sympy.N(best[1], 15))
        vals.append(entry)
    return vals, alias


def _run_expr(c):
    """one expression through the whole round trip, the way a long-running program would use the API:
    convert, translate (SYMPY_DIALECT and another dialect, in the order given by c['ord']), then convert the SAME
    expression again and translate again - both translations are judged against the original"""
    sympy, se, tr, ex, so = _lib()
    e = build(c["b"])
    out = {"ser": ser(e), "cls": list(py_class(e)), "shape": shape_class(e), "addneg": has_add_of_negation(e)}
    try:
        tree = se.expression_from_sympy(e)
    except (NotImplementedError, ValueError, TypeError) as err:
        out["tree"] = _errkind(err)
        out["err"] = out["tree"]
        out["tout"] = out["tree"]
        return out
    out["tree"] = neutral(tree, ex)

    def other_dialect(t):
        try:
            r = tr.translate_expression(t, t_dialect(se, ex))
            return r.s if isinstance(r, T) else "bad:not-a-term-of-the-dialect:" + type(r).__name__
        except (ValueError, TypeError) as err:
            return _errkind(err)

    def sympy_dialect(t):
        try:
            return None, tr.translate_expression(t, se.SYMPY_DIALECT)
        except (ValueError, TypeError) as err:
            return _errkind(err), None
        except (ZeroDivisionError, OverflowError):
            # Python folds constants of the neutral tree (1/0): the original has no value either (checked by the oracle)
            return "err:zerodiv", None

    if c.get("ord", 0) == 0:
        out["tout"] = other_dialect(tree)
        err, back = sympy_dialect(tree)
    else:
        err, back = sympy_dialect(tree)
        out["tout"] = other_dialect(tree)
    out["known"] = sorted(se.SYMPY_DIALECT.known_functions)
    ref = round_constants(e)
    if err is not None:
        out["err"] = err
        if err == "err:zerodiv":
            out["orig_has_value"] = any(_num(ref, dict(_assign(ref, pt))) is not None for pt in c["pts"])
        return out
    out["err"] = None
    out["back"] = str(back)[:200]
    out["back_is_expr"] = isinstance(back, (sympy.Basic, int, float, complex)) and not isinstance(back, bool)
    backs = [("first", back)]
    # ---- the same request again (history: everything above has happened on the same module state)
    try:
        tree2 = se.expression_from_sympy(e)
        t2 = neutral(tree2, ex)
    except (NotImplementedError, ValueError, TypeError) as err2:
        tree2, t2 = None, _errkind(err2)
    if t2 != out["tree"]:
        out["tree2"] = t2
    if tree2 is None:
        out["err2"] = t2
    else:
        err2, back2 = sympy_dialect(tree2)
        if err2 is not None:
            out["err2"] = err2
        elif not (isinstance(back2, (sympy.Basic, int, float, complex)) and not isinstance(back2, bool)):
            out["err2"] = "not-an-expression:" + type(back2).__name__
        elif type(back2) is not type(back) or back2 != back or sympy.srepr(back2) != sympy.srepr(back):
            out["back2"] = str(back2)[:200]
            backs.append(("repeated", back2))
    # an expression over symbols and INTEGERS only has an exact value on both sides: no rounding is conceded
    exact = isinstance(e, sympy.Basic) and all(isinstance(a, sympy.Integer) for a in e.atoms(sympy.Number)) and not e.has(sympy.I) \
        and not e.atoms(sympy.Function) and all(p.exp.is_Integer for p in e.atoms(sympy.Pow)) \
        and not any(n.args and all(a.is_Number for a in n.args) for n in sympy.preorder_traversal(e))
    # (a node of an evaluate=False tree whose operands are all numbers is folded by PYTHON arithmetic, 1/3 -> a double)
    out["exact"] = bool(exact)
    out["vals"], out["alias"] = _values(sympy, ref, backs if out["back_is_expr"] else [], c["pts"], 1e-25 if exact else 1e-9)
    return out


def _run_impl(c):
    sympy, se, tr, ex, so = _lib()
    k = c["kind"]
    if k == "expr":
        return _run_expr(c)
    if k == "session":
        return {"steps": [_run_expr(st) for st in c["steps"]]}
    if k == "tsession":
        return {"steps": [_run_impl({"kind": "translate", **st}) for st in c["steps"]]}
    if k == "keyhist":
        return _run_keyhist(c)
    if k == "translate":
        tree = _to_neutral(c["t"], ex, list if c.get("list") else tuple)
        out = {}

        def other_dialect():
            try:
                r = tr.translate_expression(tree, t_dialect(se, ex))
                return r.s if isinstance(r, T) else "bad:not-a-term-of-the-dialect:" + type(r).__name__
            except (ValueError, TypeError) as err:
                return _errkind(err)

        def sympy_dialect():
            try:
                return None, str(tr.translate_expression(tree, se.SYMPY_DIALECT))[:200]
            except (ValueError, TypeError) as err:
                return _errkind(err), None
            except (ZeroDivisionError, OverflowError):
                return "err:zerodiv", None  # Python folded the constants of a hand-made tree (1j/0): not a translation

        if c.get("ord", 0) == 0:
            out["tout"] = other_dialect()
            out["err"], out["back"] = sympy_dialect()
        else:
            out["err"], out["back"] = sympy_dialect()
            out["tout"] = other_dialect()
        # the same tree OBJECT once more with both dialects (an argument container edited in place, or an answer
        # remembered under an incomplete key, shows here)
        out["err2"], out["back2"] = sympy_dialect()
        out["tout2"] = other_dialect()
        out["tree_after"] = neutral(tree, ex)
        out["known"] = sorted(se.SYMPY_DIALECT.known_functions)
        return out
    if k == "key":
        s = ex.Symbol(c["name"])
        return {"key": _key_json(so.natural_key(s)), "revlex": _key_json(so.natural_key_revlex(sympy.Symbol(c["name"]) if c["name"] else s))}
    if k == "ukey":
        try:
            return {"key": _key_json(so.natural_key(ex.Symbol(c["name"]))), "revlex": _key_json(so.natural_key_revlex(ex.Symbol(c["name"])))}
        except Exception as e:
            return {"raised": f"{type(e).__name__}: {e}"}
    if k == "keypair":
        a, b = c["pfx"] + c["d1"] + c["sfx"], c["pfx"] + c["d2"] + c["sfx"]
        return {"nat": _cmp(so.natural_key(ex.Symbol(a)), so.natural_key(ex.Symbol(b))),
                "rev": _cmp(so.natural_key_revlex(ex.Symbol(a)), so.natural_key_revlex(ex.Symbol(b)))}
    if k == "sort":
        syms = [ex.Symbol(n) for n in c["names"]]
        return {"nat": [s.name for s in sorted(syms, key=so.natural_key)],
                "rev": [s.name for s in sorted(syms, key=so.natural_key_revlex)]}
    raise AssertionError("unknown kind")


def _run_keyhist(c):
    """a HISTORY of key requests on one module state: the same / equal-but-not-identical / sibling symbols are keyed
    repeatedly, and the caller edits every list it was handed (a key list is the caller's to keep) before asking again"""
    sympy, se, tr, ex, so = _lib()
    names = c["names"]
    kept = [ex.Symbol(n) for n in names]

    def obj(i, variant):
        n = names[i]
        if variant == "ex" or not n:
            return kept[i]
        if variant == "ex2":
            return ex.Symbol("".join(list(n)))  # equal, not identical (a fresh str object as well)
        if variant == "sp":
            return sympy.Symbol(n)
        if variant == "du":
            return sympy.Dummy(n)
        raise AssertionError(variant)

    def edit(lst, how):
        if how == "append":
            lst.append("~poison~")
        elif how == "reverse":
            lst.reverse()
        elif how == "clear":
            lst.clear()
        elif how == "set0" and lst:
            lst[0] = 10 ** 6
            lst[-1] = "~"

    res = []
    for op, i, variant, how in c["ops"]:
        if op in ("nat", "rev"):
            got = (so.natural_key if op == "nat" else so.natural_key_revlex)(obj(i, variant))
            res.append(_key_json(list(got)))
            if isinstance(got, list):
                edit(got, how)
        else:
            fn = so.natural_key if op == "sortnat" else so.natural_key_revlex
            objs = [obj(j, variant) for j in range(len(names))]
            res.append([o.name for o in sorted(objs, key=fn)])
    return {"res": res}


def _to_neutral(t, ex, container=tuple):
    if t[0] == "sym":
        return ex.Symbol(t[1])
    if t[0] == "num":
        n = t[1]
        if n[0] == "int":
            return int(n[1])
        if n[0] == "flt":
            return float(Fraction(n[1]))
        return complex(float(Fraction(n[1])), float(Fraction(n[2])))
    return ex.FunctionCall(t[1], container(_to_neutral(a, ex, container) for a in t[2]))


def _key_json(key):
    return [["n", x] if isinstance(x, int) else ["s", x] for x in key]


def _cmp(a, b):
    try:
        return "lt" if a < b else ("gt" if b < a else "eq")
    except TypeError:
        return "err:type"


# ------------------------------------------------------------------ model side
def _req_expr(c, out):
    if not isinstance(out, dict) or "ser" not in out:
        return []
    if c.get("noncanon") and out.get("addneg"):
        return []
    return [("pipeline", {"e": out["ser"]})]


def requests(c, out):
    k = c["kind"]
    if k == "expr":
        return _req_expr(c, out)
    if k == "session":
        if not isinstance(out, dict) or "steps" not in out:
            return []
        return [r for st, o in zip(c["steps"], out["steps"]) for r in (_req_expr(st, o) or [("known", {})])]
    if k == "translate":
        return [("translate", {"t": c["t"]}), ("known", {})]
    if k == "tsession":
        return [r for st in c["steps"] for r in (("translate", {"t": st["t"]}), ("known", {}))]
    if k == "keyhist":
        return [("key", {"name": n}) for n in c["names"]]
    if k == "key":
        return [("key", {"name": c["name"]})]
    if k == "keypair":
        return [("cmp", {"a": c["pfx"] + c["d1"] + c["sfx"], "b": c["pfx"] + c["d2"] + c["sfx"]})]
    if k == "sort":
        reqs = []
        for which in ("nat", "rev"):
            names = out.get(which, []) if isinstance(out, dict) else []
            for a, b in zip(names, names[1:]):
                reqs.append(("cmp", {"a": a, "b": b}))
        return reqs or [("known", {})]
    return []


def _close(a, b):
    fa, fb = float(unrat(a)), float(unrat(b))
    return abs(fa - fb) <= 4e-16 * max(abs(fa), abs(fb))


def _tree_eq(m, i):
    """model tree vs implementation tree; float leaves up to double rounding of the exact value"""
    if isinstance(m, str) or isinstance(i, str):
        return m == i
    if m[0] != i[0]:
        return False
    if m[0] == "num":
        a, b = m[1], i[1]
        if a[0] != b[0]:
            return False
        if a[0] in ("int", "ext"):
            return a[1] == b[1]
        return all(_close(x, y) for x, y in zip(a[1:], b[1:]))
    if m[0] == "sym":
        return m[1] == i[1]
    if m[0] == "call":
        return m[1] == i[1] and len(m[2]) == len(i[2]) and all(_tree_eq(x, y) for x, y in zip(m[2], i[2]))
    return False


_FLT = re.compile(r"f:-?\d+(?:/\d+)?")


def _cmp_expr(c, out, r):
    if not isinstance(r, dict):   # the step had no model request (placeholder answer)
        return None
    if not _tree_eq(r["tree"], out["tree"]):
        return f"expression_from_sympy: impl {out['tree']} model {r['tree']} on {out['ser']}"
    if "tree2" in out:
        return f"expression_from_sympy called again on the same expression: impl {out['tree2']} model {r['tree']} on {out['ser']}"
    mo, io = r["out"], out["tout"]
    if mo != io and _FLT.sub("f:#", mo) != _FLT.sub("f:#", io):
        return f"translate_expression with the dialect table: impl {io} model {mo}"
    if not c.get("noncanon"):
        cls = out["cls"][0]
        if r["supported"] != (cls in ("supported", "lenient")):
            return f"grammar classification: model supported={r['supported']} python class {out['cls']}"
        if r["supported"] and mo.startswith("err:"):
            return f"model refuses a supported expression: {mo}"
    return None


def _cmp_translate(c, out, r_t, r_known):
    for which in ("tout", "tout2"):
        if r_t != out[which]:
            return f"translate_expression ({'first' if which == 'tout' else 'second'} call on the same tree): impl {out[which]} model {r_t} on {c['t']}"
    if sorted(r_known) != out["known"]:
        return f"dialect keys: impl {out['known']} model {sorted(r_known)}"
    if not _tree_eq(c["t"], out["tree_after"]):
        return f"translate_expression changed its argument tree {c['t']} into {out['tree_after']}"
    return None


def _model_sortable(key):
    return [x[1] for x in key]


def compare(c, out, resp):
    if isinstance(out, dict) and out.get("skipped"):
        return None
    for r in resp:
        if isinstance(r, dict) and "driver_error" in r:
            return "driver error: " + r["driver_error"]
    k = c["kind"]
    if k == "expr":
        return _cmp_expr(c, out, resp[0])
    if k == "session":
        for j, (st, o, r) in enumerate(zip(c["steps"], out["steps"], resp)):
            m = _cmp_expr(st, o, r) if "tree" in o else None
            if m:
                return f"step {j}: {m}"
        return None
    if k == "translate":
        return _cmp_translate(c, out, resp[0], resp[1])
    if k == "tsession":
        for j, (st, o) in enumerate(zip(c["steps"], out["steps"])):
            m = _cmp_translate(st, o, resp[2 * j], resp[2 * j + 1])
            if m:
                return f"step {j}: {m}"
        return None
    if k == "keyhist":
        mk = {n: r for n, r in zip(c["names"], resp)}
        for j, ((op, i, variant, how), got) in enumerate(zip(c["ops"], out["res"])):
            if op in ("nat", "rev"):
                want = mk[c["names"][i]]["key" if op == "nat" else "revlex"]
                if got != want:
                    return f"step {j} {op}({c['names'][i]!r}, {variant}) after {c['ops'][:j]}: impl {got} model {want}"
            else:
                which = "key" if op == "sortnat" else "revlex"
                try:
                    want = sorted(c["names"], key=lambda n: _model_sortable(mk[n][which]))
                except TypeError:
                    continue  # keys the model calls incomparable (never for keys of this generator)
                if got != want:
                    return f"step {j} sorted by {op}: impl {got} model {want}"
        return None
    if k == "key":
        r = resp[0]
        if r["key"] != out["key"] or r["revlex"] != out["revlex"]:
            return f"natural_key({c['name']!r}): impl {out} model {r}"
        return None
    if k == "keypair":
        r = resp[0]
        if r["nat"] != out["nat"] or r["rev"] != out["rev"]:
            return f"key comparison: impl {out} model {r}"
        return None
    if k == "sort":
        n1 = max(len(out.get("nat", [])) - 1, 0)
        for j, r in enumerate(resp):
            if not isinstance(r, dict):
                continue
            which = "nat" if j < n1 else "rev"
            if r[which] not in ("lt", "eq"):
                return f"sorted() by the {which} key produced an order the model calls {r[which]} at position {j if j < n1 else j - n1}"
        return None
    return None


# ------------------------------------------------------------------ oracle (the property's own sentences)
def _tokens(name):
    """independent tokenisation: maximal ASCII digit runs become integers"""
    out, cur, dig = [], "", False
    for ch in name:
        d = ch in "0123456789"
        if cur and d != dig:
            out.append((1, int(cur)) if dig else (0, cur))
            cur = ""
        cur += ch
        dig = d
    if cur:
        out.append((1, int(cur)) if dig else (0, cur))
    return out


def _nat_sort_key(name):
    # names are compared group by group; groups alternate text / number starting with (possibly empty) text
    toks = _tokens(name)
    if not toks or toks[0][0] == 1:
        toks = [(0, "")] + toks
    if toks[-1][0] == 1:
        toks = toks + [(0, "")]
    return [t[1] for t in toks]


ALIAS_SIG = "distinct-symbols-printing-identically-are-merged"


def _oracle_expr(c, out):
    """sentences 1 and 2 on one round trip (and on its repetition)"""
    cls, what = out["cls"]
    err = out.get("err")
    if cls in ("supported", "lenient"):
        if err == "err:zerodiv" and not out.get("orig_has_value"):
            return None  # constant division by zero: the original denotes no number, nothing is claimed
        if err is not None:
            if cls == "lenient":
                return None
            return ("supported-refused:" + out["shape"], f"supported expression {out['ser']} refused with {err}")
        if not out.get("back_is_expr"):
            return ("supported-not-expression", f"translation of {out['ser']} is not an expression: {out.get('back')}")
        for v in out.get("vals", []):
            if v is not None and not v["ok"]:
                rep = v.get("which") == "repeated"
                tr_ = out.get("back2") if rep else out.get("back")
                if out.get("alias"):
                    return (ALIAS_SIG,
                            f"{out['ser']} contains different symbols that print identically; it evaluates to {v['orig']} at "
                            f"{v['at']} but its translation {tr_} to {v['back']} whichever of their values the merged symbol is given")
                return (("value-on-repeat:" if rep else "value:") + out["shape"],
                        f"{out['ser']} evaluates to {v['orig']} but its {'REPEATED ' if rep else ''}translation {tr_} to {v['back']} at {v['at']}"
                        + (f" (the first translation was {out.get('back')})" if rep else ""))
        if out.get("err2") is not None and not (out["err2"] == "err:zerodiv"):
            return ("supported-refused-on-repeat:" + out["shape"],
                    f"supported expression {out['ser']} was translated to {out.get('back')} the first time and refused with {out['err2']} when the same request was repeated")
        return None
    if cls == "passthrough":
        return None  # oo / nan are handed through unchanged (identity): nothing is translated to something else
    if err is None:
        if cls == "collision":
            return ("function-name-collides-with-dialect-key",
                    f"{what} in {out['ser']} is outside the supported set but was translated to {out.get('back')}")
        return ("unsupported-accepted:" + what.split(":")[0], f"{what} in {out['ser']} was not refused: {out.get('back')}")
    return None


def _oracle_translate(c, out):
    names = []

    def walk(t):
        if t[0] == "call":
            names.append(t[1])
            for a in t[2]:
                walk(a)

    walk(c["t"])
    if any(n not in KEYS for n in names):
        if out.get("err") is None:
            return ("unknown-function-translated", f"neutral tree {c['t']} with a function outside the dialect gave {out.get('back')}")
        if out.get("err2") is None:
            return ("unknown-function-translated", f"neutral tree {c['t']} with a function outside the dialect was refused "
                                                   f"the first time and gave {out.get('back2')} when translated again")
    return None


def oracle(c, out):
    k = c["kind"]
    if not isinstance(out, dict):
        return ("impl-crash", f"unexpected output {out!r}")
    if out.get("skipped"):
        return None
    if "exc" in out:
        return ("impl-raise:" + out["exc"], f"implementation raised {out['exc']}: {out.get('msg')}")
    if k == "expr":
        return _oracle_expr(c, out)
    if k == "session":
        for j, (st, o) in enumerate(zip(c["steps"], out["steps"])):
            r = _oracle_expr(st, o)
            if r is not None:
                return (r[0], f"step {j} of {len(c['steps'])} (after the round trips of the preceding steps): {r[1]}")
        return None
    if k == "translate":
        return _oracle_translate(c, out)
    if k == "tsession":
        for j, (st, o) in enumerate(zip(c["steps"], out["steps"])):
            r = _oracle_translate(st, o)
            if r is not None:
                return (r[0], f"step {j} of {len(c['steps'])}: {r[1]}")
        return None
    if k == "keyhist":
        for j, ((op, i, variant, how), got) in enumerate(zip(c["ops"], out["res"])):
            hist = f"after the calls {c['ops'][:j]} on names {c['names']}" if j else "as the first call"
            if op in ("nat", "rev"):
                want = _nat_sort_key(c["names"][i])
                if op == "rev":
                    want = want[::-1]
                if [x[1] for x in got] != want:
                    return ("natural-key-history" if j else ("natural-key" if op == "nat" else "natural-key-revlex"),
                            f"natural_key{'_revlex' if op == 'rev' else ''}({c['names'][i]!r} as {variant}) = {[x[1] for x in got]}, "
                            f"digit groups are {want} ({hist})")
            else:
                want = sorted(c["names"], key=(_nat_sort_key if op == "sortnat" else (lambda n: _nat_sort_key(n)[::-1])))
                if got != want:
                    return ("natural-sort-history" if j else ("natural-sort" if op == "sortnat" else "natural-sort-revlex"),
                            f"sorted by natural_key{'_revlex' if op == 'sortrev' else ''} {got} expected {want} ({hist})")
        return None
    if k == "key":
        want = _nat_sort_key(c["name"])
        got = [x[1] for x in out["key"]]
        if got != want:
            return ("natural-key", f"natural_key({c['name']!r}) = {got}, digit groups are {want}")
        if [x[1] for x in out["revlex"]] != want[::-1]:
            return ("natural-key-revlex", f"natural_key_revlex({c['name']!r}) = {out['revlex']} is not the reversed key")
        return None
    if k == "ukey":
        import unicodedata
        if "raised" in out:
            return ("natural-key-raises", f"natural_key({c['name']!r}) raised {out['raised']}: every symbol name has a sort key")
        toks, cur, dig = [], "", False   # maximal runs of Unicode DECIMAL digits are the embedded integers
        for ch in c["name"]:
            d = unicodedata.category(ch) == "Nd"
            if cur and d != dig:
                toks.append(int(cur) if dig else cur)
                cur = ""
            cur += ch
            dig = d
        if cur:
            toks.append(int(cur) if dig else cur)
        if not toks or isinstance(toks[0], int):
            toks = [""] + toks
        if isinstance(toks[-1], int):
            toks = toks + [""]
        got = [x[1] for x in out["key"]]
        if got != toks:
            return ("natural-key", f"natural_key({c['name']!r}) = {got}, decimal-digit groups are {toks}")
        if [x[1] for x in out["revlex"]] != toks[::-1]:
            return ("natural-key-revlex", f"natural_key_revlex({c['name']!r}) = {out['revlex']} is not the reversed key")
        return None
    if k == "keypair":
        a, b = int(c["d1"]), int(c["d2"])
        want = "lt" if a < b else ("gt" if a > b else "eq")
        if out["nat"] != want:
            return ("natural-key-order", f"{c['pfx'] + c['d1'] + c['sfx']!r} vs {c['pfx'] + c['d2'] + c['sfx']!r}: keys compare {out['nat']}, integers {want}")
        return None
    if k == "sort":
        want = sorted(c["names"], key=_nat_sort_key)
        if out["nat"] != want:
            return ("natural-sort", f"sorted by natural_key {out['nat']} expected {want}")
        wantr = sorted(c["names"], key=lambda n: _nat_sort_key(n)[::-1])
        if out["rev"] != wantr:
            return ("natural-sort-revlex", f"sorted by natural_key_revlex {out['rev']} expected {wantr}")
        return None
    return None


def distribution(cases, outs):
    d = {"expr_supported": 0, "expr_refused": 0, "expr_collision": 0, "expr_passthrough": 0, "points_compared": 0,
         "points_without_value": 0, "shapes": {}, "refusal_kinds": {},
         "round_trips": 0, "round_trips_in_sessions": 0, "with_dummy": 0, "with_assumption_symbol": 0, "with_exotic_name": 0,
         "symbols_printing_identically": 0, "exact_integer_arithmetic": 0, "repeated_translation_differs_in_form": 0,
         "neutral_trees_with_list_arguments": 0, "key_history_calls": 0,
         "skipped_cpu_budget": sum(1 for o in outs if isinstance(o, dict) and o.get("skipped"))}
    flat = []
    for c, o in zip(cases, outs):
        if not isinstance(o, dict):
            continue
        if c["kind"] == "expr":
            flat.append((c, o, False))
        elif c["kind"] == "session" and "steps" in o:
            flat.extend((st, so_, True) for st, so_ in zip(c["steps"], o["steps"]))
        elif c["kind"] == "translate":
            d["neutral_trees_with_list_arguments"] += bool(c.get("list"))
        elif c["kind"] == "tsession":
            d["neutral_trees_with_list_arguments"] += sum(bool(st.get("list")) for st in c["steps"])
        elif c["kind"] == "keyhist" and "res" in o:
            d["key_history_calls"] += len(o["res"])
    for c, o, in_session in flat:
        if not isinstance(o, dict) or "cls" not in o:
            continue
        d["round_trips"] += 1
        d["round_trips_in_sessions"] += in_session
        txt = common.canon(c["b"])
        d["with_dummy"] += '"dummy"' in txt
        d["with_assumption_symbol"] += '"asym"' in txt
        d["with_exotic_name"] += any(common.canon(["sym", n])[1:-1] in txt for n in EXOTIC) or '"symstr"' in txt
        d["symbols_printing_identically"] += bool(o.get("alias"))
        d["exact_integer_arithmetic"] += bool(o.get("exact"))
        d["repeated_translation_differs_in_form"] += "back2" in o
        cls = o["cls"][0]
        if cls in ("supported", "lenient"):
            d["expr_supported"] += 1
        elif cls == "collision":
            d["expr_collision"] += 1
        elif cls == "passthrough":
            d["expr_passthrough"] += 1
        if o.get("err"):
            d["expr_refused"] += 1
            d["refusal_kinds"][o["err"]] = d["refusal_kinds"].get(o["err"], 0) + 1
        d["shapes"][o["shape"]] = d["shapes"].get(o["shape"], 0) + 1
        for v in o.get("vals", []):
            if v is None:
                d["points_without_value"] += 1
            else:
                d["points_compared"] += 1
    return d
