"""T13: validation of the translator of harness/translate_t13.py.  The definitions of lean/OQ/Generated/TranslatedC12Wf.lean /
TranslatedC04Wf.lean that translate now are run in the compiled driver (tag "TRT13", generated glue TranslatedDriverT13.lean) – their
numpy / sympy externals instantiated by the models' stand-ins (OQ/Model/C12_T13.lean, C04_T13.lean) – and compared with the REAL
`Wavefunction` class of the tree under test:
  C12  seeded call histories (`wf[i] = v`, `wf[a:b] = v`, `bind`, `flip_wavefunction`; accepted and rejected; numeric, symbolic and mixed
       objects; the cases, the implementation runner and the comparison are those of harness/props/c12.py) through the translated
       `__init__`, `__setitem__`, `bind`, `flip_wavefunction`, `get_probabilities` – the state and what the caller saw after every call;
  C04  `get_outcome_probs()` (keys in order, values) and `sample_from_wavefunction(wf, n, seed)` in both regimes (`len(wf) < n` and
       not) on exactly normalised rational vectors of 0..4 qubits, the translated definition being handed the indices that
       `np.random.default_rng(seed).choice` draws;
  the four prelude functions of OQ/Exec/PyT13.lean against CPython.
A disagreement is a fault of the translator / prelude / stand-ins (INTERNAL-ERROR, exit 2, in run.py), never a verdict about /repo."""
import random
from fractions import Fraction

from . import common

PROPS = ("C12", "C04")


def _prelude(r):
    reqs, want = [], []
    for _ in range(40):
        s = "".join(r.choice("01-b") for _ in range(r.randrange(0, 12)))
        c = r.choice("01b")
        reqs.append(("prelude", {"f": "count", "s": s, "c": c}))
        want.append(str(s.count(c)))
        i, w = r.choice([0, 1, 2, 5, r.randrange(0, 2 ** r.randrange(1, 12)), -r.randrange(1, 40)]), r.randrange(0, 12)
        reqs.append(("prelude", {"f": "format", "i": str(i), "w": str(w)}))
        want.append(format(i, "0" + str(w) + "b"))
        ps = [("".join(r.choice("01") for _ in range(r.randrange(0, 3))), r.randrange(-5, 6)) for _ in range(r.randrange(0, 7))]
        reqs.append(("prelude", {"f": "dict", "ps": [[k, str(v)] for k, v in ps]}))
        want.append([[k, str(v)] for k, v in dict(ps).items()])
        d = dict(ps)
        reqs.append(("prelude", {"f": "unzip", "d": [[k, str(v)] for k, v in d.items()]}))
        try:
            a, b = zip(*d.items())
            want.append([list(a), [str(x) for x in b]])
        except ValueError:
            want.append("ValueError")
    return reqs, want


def _views_cases(r):
    from .props import c12
    out = []
    for _ in range(30):
        nq = r.choice([0, 1, 1, 2, 2, 3, 4])
        vec = c12._unit_vector(r, 2 ** nq, dyadic=r.random() < 0.5)
        ns = r.choice([1, 2, 2 ** nq, 2 ** nq + 1, r.randrange(1, 40)])
        out.append((vec, ns, r.randrange(2 ** 31)))
    return out


def _views_impl(vec, ns, seed):
    import numpy as np
    from orquestra.quantum.wavefunction import Wavefunction, sample_from_wavefunction
    wf = Wavefunction(np.array([complex(float(a), float(b)) for a, b in vec]))
    probs = wf.get_outcome_probs()
    samples = sample_from_wavefunction(wf, ns, seed)
    p = list(probs.values())
    dim = len(vec)
    if dim < ns:
        draws = [int(i) for i in np.random.default_rng(seed).choice(dim + 1, size=ns, p=p + [0])]
    else:
        draws = [int(i) for i in np.random.default_rng(seed).choice(dim, size=ns, p=p)]
    return probs, samples, draws


def run(seed, only=None):
    """-> (number of comparisons, [disagreement messages], [units not translatable now], [listing of what is translated])"""
    from . import tables_t13
    from .props import c12
    common.use_repo()
    r = random.Random(f"T13:{seed}")
    gen = tables_t13.generate_all()
    good = gen["C12Wf"][1] + gen["C04Wf"][1]
    untr = [f"wavefunction.{u['name']}" for _tag, u in tables_t13.units() if u["lean"] not in good]
    listed = [f"wavefunction.{u['name']} -> Wf.{u['lean']}" for tag, u in tables_t13.units()
              if u["lean"] in good and (only is None or ("C04" in tag) == (only == "C04") or u["lean"] in ("get_outcome_probs", "get_probabilities"))]
    run_ok, view_ok = tables_t13.glue_parts()
    drv = common.Driver("TRT13")
    n, bad = 0, []
    # ---- prelude
    reqs, want = _prelude(r)
    for (op, pl), w, got in zip(reqs, want, drv.run(reqs)):
        n += 1
        if got != w:
            bad.append(f"prelude {pl}: Lean {got}, CPython {w}")
    # ---- C12: call histories
    if run_ok and only in (None, "C12"):
        cases = [c for c in list(c12.corpus()) + list(c12.generate(random.Random(f"T13c:{seed}"), "quick"))
                 if c.get("kind") == "ops" and all(o["op"] in ("set", "slice", "bind", "flip") for o in c["ops"])]
        r.shuffle(cases)
        cases = cases[:160]
        reqs, owners, outs = [], [], []
        for i, c in enumerate(cases):
            out = c12.run_impl(c)
            outs.append(out)
            for rq in c12.requests(c, out):
                reqs.append(rq)
                owners.append(i)
        per = {}
        for o, resp in zip(owners, drv.run(reqs)):
            per.setdefault(o, []).append(resp)
        for i, c in enumerate(cases):
            if i not in per:
                continue
            n += 1
            try:
                msg = c12.compare(c, outs[i], per[i])
            except Exception as e:  # noqa: BLE001
                msg = f"compare crashed: {e!r}"
            if msg:
                bad.append(f"history {common.canon(c)[:300]}: translated methods vs real class: {msg}")
    # ---- C04: views
    if view_ok and only in (None, "C04", "C12"):
        cases = _views_cases(r)
        impl, reqs = [], []
        for vec, ns, sd in cases:
            probs, samples, draws = _views_impl(vec, ns, sd)
            impl.append((probs, samples))
            reqs.append(("views", {"amps": [[common.rat(a), common.rat(b)] for a, b in vec], "n_samples": str(ns), "draws": draws}))
        for (vec, ns, sd), (probs, samples), resp in zip(cases, impl, drv.run(reqs)):
            n += 2
            if isinstance(resp, dict) and "driver_error" in resp:
                bad.append(f"views: driver error {resp['driver_error']}")
                continue
            mp = resp["outcome_probs"]
            if isinstance(mp, str) or [k for k, _ in mp] != list(probs.keys()) or any(
                    abs(common.cyc_to_complex(v) - p) > 1e-9 for (_, v), p in zip(mp, probs.values())):
                bad.append(f"get_outcome_probs on {vec}: translated {mp}, real {probs}")
            ms = resp["samples"]
            want = [[str(b) for b in t] for t in samples]
            if ms != want:
                bad.append(f"sample_from_wavefunction({vec}, {ns}, seed={sd}): translated {ms}, real {want}")
    return n, bad, untr, listed
