"""Table extractors: each returns the text of lean/OQ/Generated/<name>."""
from .extract import table


def _ext_modules():
    """harness/specs_*.py: further translated functions, one module per work package (each defines SPECS() -> {prop: [spec, …]}
    and GENS() -> {lean name: rng -> argument list}); merged into _specs() / _gens() below"""
    import importlib
    import os
    d = os.path.dirname(os.path.abspath(__file__))
    return [importlib.import_module("." + f[:-3], __package__) for f in sorted(os.listdir(d))
            if f.startswith("specs_") and f.endswith(".py")]


def _specs():
    base = _specs_base()
    for m in _ext_modules():
        for prop, lst in m.SPECS().items():
            base.setdefault(prop, []).extend(lst)
    return base


def _gens():
    base = _gens_base()
    for m in _ext_modules():
        base.update(m.GENS())
    return base


# --- T2: a spec's option dict may name its own translator ("translator": a function with translate_function's signature)
# and carry data for the JSON driver / the differential check ("driver": {...}, see harness/specs_t2.py); a spec WITH a
# "driver" entry is run through the JSON driver even though it has options
def _translate(fn, name, args, ret, partial, opt=None):
    from . import translate as tr
    opt = dict(opt or {})
    f = opt.pop("translator", None) or tr.translate_function
    opt.pop("driver", None)
    opt.pop("imports", None)  # --- T4: generated files this definition needs (see _translated)
    return f(fn, name, args, ret, partial, **opt)


def _runnable(opt):
    return not opt or "driver" in opt[0]
# --- end T2


class _Missing:
    """stands for a function the current source no longer defines: translating it fails (TranslateError path), so the definition is
    missing and its tie theorem breaks – a broken obligation, not an internal error"""

    def __init__(self, module, name):
        self.__module__, self.__name__, self.__qualname__ = getattr(module, "__name__", str(module)), name, name


def _resolve(module, name):
    return getattr(module, name, None) or _Missing(module, name)


def _specs_base():
    from . import translate as tr
    from orquestra.quantum.circuits import _itertools, _unitary_tools
    from orquestra.quantum import utils, wavefunction
    from orquestra.quantum.measurements import measurements as _meas, parities as _par
    from orquestra.quantum.estimation import _estimation as _est
    # property -> [(python function, lean name, argument types, result type, partial?)]
    return {
        "C13": [(_resolve(_itertools, "_expand_sample_size"), "expand_sample_size", [tr.INT, tr.INT], "(List Int) × Int", False),
                (_resolve(_itertools, "expand_sample_sizes"), "expand_sample_sizes", [tr.LOPAQUE, tr.LIST, tr.INT],
                 "(List α) × (List Int) × (List Int)", False,
                 {"known": {"_expand_sample_size": ("expand_sample_size", [tr.INT, tr.INT], "(List Int) × Int")}})],
        "C01": [(_resolve(_unitary_tools, "_permute"), "permute", [tr.LIST, tr.LIST], tr.LIST, False),
                (_resolve(_unitary_tools, "_permutation_making_qubits_adjacent"), "permutation_making_qubits_adjacent",
                 [tr.LIST, tr.INT], tr.LIST, False),
                (_resolve(_unitary_tools, "_basis_bitstring"), "basis_bitstring", [tr.INT, tr.INT], tr.LIST, False)],
        "C09": [(_resolve(utils, "bin2dec"), "bin2dec", [tr.LIST], tr.INT, False),
                (_resolve(utils, "dec2bin"), "dec2bin", [tr.INT, tr.INT], tr.LIST, True)],
        "C04": [(_resolve(utils, "bitstring_to_tuple"), "bitstring_to_tuple", [tr.STR], tr.LIST, False),
                (_resolve(utils, "tuple_to_bitstring"), "tuple_to_bitstring", [tr.LIST], tr.STR, False),
                (_resolve(_meas, "convert_bitstring_to_int"), "convert_bitstring_to_int", [tr.LIST], tr.INT, False)],
        "C10": [(_resolve(_par, "check_parity"), "check_parity_str", [tr.STR, tr.LIST], tr.BOOL, False),
                (_resolve(_par, "check_parity"), "check_parity_tuple", [tr.LIST, tr.LIST], tr.BOOL, False)],
        "C15": [(_resolve(_est, "split_estimation_tasks_to_measure"), "split_estimation_tasks_to_measure", [tr.LOPAQUE],
                 "(List α) × (List α) × (List Int) × (List Int)", False,
                 {"attrs": {"operator.is_constant": tr.BOOL, "number_of_shots": tr.OPTINT},
                  "local_types": {"estimation_tasks_to_measure": tr.LOPAQUE, "estimation_tasks_not_to_measure": tr.LOPAQUE,
                                  "indices_to_measure": tr.LIST, "indices_not_to_measure": tr.LIST}})],
        "C12": [(_resolve(wavefunction, "_most_significant_set_bit"), "most_significant_set_bit", [tr.INT], tr.INT, False),
                (_resolve(wavefunction, "_get_next_number_with_same_hamming_weight"), "next_number_with_same_hamming_weight",
                 [tr.INT], tr.INT, False)],
    }


def _gens_base():
    """input generators (rng -> argument list) for the translated functions, inside each function's documented domain;
    used by harness/translated_check.py to compare the TRANSLATED Lean definition with the Python function itself"""
    def bits(r, lo=0, hi=9):
        return [r.randrange(2) for _ in range(r.randrange(lo, hi))]

    def idx(r, n, k=5):
        return [r.randrange(n) for _ in range(r.randrange(0, k))] if n else []

    def perm_args(r):
        n = r.randrange(0, 7)
        v = [r.randrange(-9, 10) for _ in range(n)]
        return [v, [r.randrange(n) for _ in range(r.randrange(0, 8))] if n else []]

    def adj_args(r):
        n = r.randrange(0, 8)
        qs = r.sample(range(n), r.randrange(0, n + 1)) if n else []
        return [qs, n]

    def basis_args(r):
        n = r.randrange(0, 9)
        return [r.randrange(2 ** n), n]

    def parity_t(r):
        b = bits(r, 1, 9)
        return [b, idx(r, len(b))]

    def parity_s(r):
        b = bits(r, 1, 9)
        return ["".join(map(str, b)), idx(r, len(b))]
    return {
        "expand_sample_size": lambda r: (lambda m: [r.randrange(1, 40 * m), m])(r.choice([1, 2, 3, 7, r.randrange(1, 50), 10 ** 12 + 1])),
        "permute": perm_args,
        "permutation_making_qubits_adjacent": adj_args,
        "basis_bitstring": basis_args,
        "bin2dec": lambda r: [bits(r)],
        "dec2bin": lambda r: [r.randrange(0, 300), r.randrange(0, 10)],
        "bitstring_to_tuple": lambda r: ["".join(map(str, bits(r)))],
        "tuple_to_bitstring": lambda r: [r.choice([bits(r), [r.randrange(0, 30) for _ in range(r.randrange(0, 5))]])],
        "convert_bitstring_to_int": lambda r: [bits(r, 1, 12)],
        "check_parity_str": parity_s,
        "check_parity_tuple": parity_t,
        "most_significant_set_bit": lambda r: [r.choice([0, 1, 2, 3, r.randrange(0, 2 ** 40)])],
        "next_number_with_same_hamming_weight": lambda r: [r.randrange(1, 2 ** r.randrange(1, 40))],
    }


_DEC = {"Int": "intOfJson", "List Int": "(listOfJson intOfJson)", "List Char": "strOf", "Bool": "boolOfJson"}
_ENC = {"Int": "intJ", "List Int": "intsToJson", "List Char": "strJ", "Bool": "Json.bool",
        "(List Int) × Int": "(fun p => Json.arr #[intsToJson p.1, intJ p.2])"}


@table("TranslatedDriver.lean")
def translated_driver():
    """JSON glue (generated) that lets the harness run every TRANSLATED definition on concrete inputs."""
    from . import translate as tr
    out = ["-- generated by harness/tables.py — do not edit", "import OQ.Exec.Proto"]
    specs = _specs()
    ok = []
    for prop in sorted(specs):
        good = []
        for fn, name, args, ret, partial, *opt in specs[prop]:
            if not _runnable(opt):  # --- T2: was `if opt:`
                continue  # functions over opaque objects are not run through the JSON driver
            try:
                _translate(fn, name, args, ret, partial, opt[0] if opt else None)  # --- T2: was tr.translate_function(...)
                good.append((name, args, ret, partial) + ((True,) if opt else ()))
            except Exception:
                pass
        if good:
            out.append(f"import OQ.Generated.Translated{prop}")
            ok += good
    out += ["open Lean OQ.Proto", "namespace OQ.TR.Driver", "open OQ.Generated",
            "def strJ (s : List Char) : Json := Json.str (String.ofList s)",
            "def strOf (j : Json) : Except String (List Char) := do pure (← strOfJson j).toList",
            "def intJ (n : Int) : Json := Json.str (toString n)",
            "def optJ {α : Type} (f : α → Json) : Option α → Json\n  | none => Json.null\n  | some a => f a",
            # --- T2: pairs (dict entries, tuples) as two-element arrays
            "def pairOfJson {α β : Type} (f : Json → Except String α) (g : Json → Except String β) (j : Json) : "
            "Except String (α × β) := do\n  match (← arrOfJson j) with\n  | [a, b] => pure (← f a, ← g b)\n"
            "  | _ => throw \"expected a pair\"", "",
            "def handle (op : String) (j : Json) : Except String Json := do", "  match op with"]
    for name, args, ret, partial, *generic in ok:
        if generic:  # --- T2: JSON glue derived from the declared types (type variables run at String)
            from . import translate_t2 as t2
            binds = " ".join(f'let a{k} : {t2.lean_type(t)} ← {t2.lean_dec(t2.parse_type(t))} (← field j "a{k}");'
                             for k, t in enumerate(args))
            call = f"Translated.{name} " + " ".join(f"a{k}" for k in range(len(args)))
            enc = t2.lean_enc(t2.parse_type(ret))
            enc = f"optJ {enc}" if partial else enc
            out.append(f'  | "{name}" => {binds} pure ({enc} ({call}))')
            continue
        binds = " ".join(f'let a{k} ← {_DEC[t]} (← field j "a{k}");' for k, t in enumerate(args))
        call = f"Translated.{name} " + " ".join(f"a{k}" for k in range(len(args)))
        enc = f"optJ {_ENC[ret]}" if partial else _ENC[ret]
        out.append(f'  | "{name}" => {binds} pure ({enc} ({call}))')
    out += ['  | _ => throw s!"no translated definition {op}"', "", "end OQ.TR.Driver"]
    return "\n".join(out) + "\n"


def _translated(prop):
    """Lean definitions regenerated from the Python source of pure integer / list / string functions (one file per
    property, so that a function leaving the translatable subset only breaks its own property's tie theorems)."""
    from . import translate as tr
    out = ["-- generated by harness/translate.py from /repo's current source — do not edit",
           "import OQ.Exec.Py", "set_option linter.unusedVariables false", "namespace OQ.Generated.Translated", ""]
    # --- T4: a spec may name generated files of OTHER properties its definition calls into ("imports": ["C17"])
    _imps = sorted({i for _s in _specs()[prop] for i in (_s[5].get("imports", []) if len(_s) > 5 else [])})
    out[1:2] = ["import OQ.Exec.Py"] + [f"import OQ.Generated.Translated{i}" for i in _imps]
    # --- end T4
    for fn, name, args, ret, partial, *opt in _specs()[prop]:
        try:
            out.append(_translate(fn, name, args, ret, partial, opt[0] if opt else None))  # --- T2: was tr.translate_function(…, **opt)
        except Exception as e:
            # the function no longer fits the translated subset: the definition is missing, so the tie theorem that
            # mentions it fails to build (a broken proof obligation naming the function); the others still check
            out.append(f"-- {name}: NOT TRANSLATABLE ({type(e).__name__}: {e}) — the current source left the supported subset\n")
    out.append("end OQ.Generated.Translated")
    return "\n".join(out) + "\n"


def _translated_props():
    import os
    d = os.path.dirname(os.path.abspath(__file__))
    extra = set()
    for f in os.listdir(d):
        if f.startswith("specs_") and f.endswith(".py"):
            for line in open(os.path.join(d, f)):
                if line.startswith("PROPS ="):
                    extra |= set(eval(line.split("=", 1)[1]))
    return sorted({"C01", "C04", "C09", "C10", "C12", "C13", "C15"} | extra)


for _p in _translated_props():
    table(f"Translated{_p}.lean")(lambda _p=_p: _translated(_p))


# per-property extractor modules harness/tables_cXX.py register themselves on import
import importlib as _importlib
import os as _os
for _fn in sorted(_os.listdir(_os.path.dirname(_os.path.abspath(__file__)))):
    if _fn.startswith("tables_") and _fn.endswith(".py"):
        _importlib.import_module("." + _fn[:-3], __package__)
