"""Table extractors: each returns the text of lean/OQ/Generated/<name>."""
from .extract import table
