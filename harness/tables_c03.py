"""Table extractors of C03 (OPERATOR_MAP / COEFF_MAP)."""
from .extract import table


# ---------------------------------------------------------------- C03: Pauli multiplication tables
@table("PauliTables.lean")
def pauli_tables():
    """OPERATOR_MAP / COEFF_MAP of _pauli_operators.py, looked up exactly as `_multiply_by_operator` does
    (`OPERATOR_MAP[ord(a) + ord(b)]`, `COEFF_MAP[a + b]`) on the six reachable keys a != b."""
    from fractions import Fraction

    import orquestra.quantum.operators._pauli_operators as po

    names = ["X", "Y", "Z"]
    op_lines, co_lines = [], []
    for a in names:
        for b in names:
            if a == b:
                continue
            c = po.OPERATOR_MAP[ord(a) + ord(b)]
            if c not in names:
                raise ValueError(f"OPERATOR_MAP[{a}+{b}] = {c!r} is not a Pauli letter")
            z = complex(po.COEFF_MAP[a + b])
            re, im = Fraction(z.real), Fraction(z.imag)
            if re.denominator != 1 or im.denominator != 1:
                raise ValueError(f"COEFF_MAP[{a + b}] = {z!r} is not a Gaussian integer")
            op_lines.append(f"  | .{a}, .{b} => .{c}")
            co_lines.append(f"  | .{a}, .{b} => ({int(re)}, {int(im)})")
    raw_ops = sorted((int(k), str(v)) for k, v in po.OPERATOR_MAP.items())
    raw_co = sorted((str(k), complex(v)) for k, v in po.COEFF_MAP.items())
    text = "-- generated from /repo by harness/tables.py:pauli_tables — do not edit\n"
    text += "import OQ.Model.Pauli\nnamespace OQ.C03.Gen\nopen OQ.Pauli\n\n"
    text += f"-- OPERATOR_MAP = {raw_ops}\n-- COEFF_MAP = {raw_co}\n-- HASH_PRECISION = {po.HASH_PRECISION!r}\n\n"
    text += "/-- `OPERATOR_MAP[ord(a) + ord(b)]` for a ≠ b (the diagonal is never looked up: equal operators cancel first) -/\n"
    text += "def opTable : P → P → P\n" + "\n".join(op_lines) + "\n  | a, _ => a\n\n"
    text += "/-- `COEFF_MAP[a + b]` for a ≠ b as a Gaussian integer (re, im) -/\n"
    text += "def coeffTable : P → P → Int × Int\n" + "\n".join(co_lines) + "\n  | _, _ => (1, 0)\n\n"
    hp = Fraction(po.HASH_PRECISION)
    if hp.denominator != 1:
        raise ValueError("HASH_PRECISION is not an integer")
    text += f"/-- `HASH_PRECISION` -/\ndef hashPrecision : Nat := {int(hp)}\n\nend OQ.C03.Gen\n"
    return text
