"""Work package T3: translated functions over OPAQUE circuit / operation / rule objects (properties C08, C16, C18).
Rendered by harness/translate_t3.py; checked against the Python functions by harness/translated_check_opaque.py."""
PROPS = ["C08", "C16", "C18"]

LOM = "List ω"


def _ext_sig(ext):
    from .translate_t3 import Ext
    return [(name, Ext(key, name, args, r).lean_type()) for key, name, args, r in ext]


def SPECS():
    from orquestra.quantum.decompositions import _decomposition as _dec, _orquestra_decompositions as _odec
    from orquestra.quantum.circuits import _generators as _gen, _circuit as _circ
    from orquestra.quantum import evolution as _evo

    # ---------------------------------------------------------------- C18
    rule_ext = [("ρ.predicate(_)", "meth_predicate", ["ρ", "ω"], "Bool"),
                ("ρ.production(_)", "meth_production", ["ρ", "ω"], LOM)]
    s_dec_op = (_dec.decompose_operation, "decompose_operation", ["ω", "List ρ"], LOM, False,
                {"t3": {"types": ["ρ", "ω"], "ext": rule_ext}})
    k_dec_op = {"lean": "decompose_operation", "args": ["ω", "List ρ"], "ret": LOM, "partial": False, "ext": _ext_sig(rule_ext),
                "spec": s_dec_op}
    s_dec_ops = (_dec.decompose_operations, "decompose_operations", [LOM, "List ρ"], LOM, False,
                 {"t3": {"types": ["ρ", "ω"], "ext": rule_ext, "known": {"decompose_operation": k_dec_op}}})
    k_dec_ops = {"lean": "decompose_operations", "args": [LOM, "List ρ"], "ret": LOM, "partial": False, "ext": _ext_sig(rule_ext),
                 "spec": s_dec_ops}
    circ_ext = rule_ext + [("γ.operations", "attr_operations", ["γ"], LOM),
                           ("γ.n_qubits", "attr_n_qubits", ["γ"], "Int"),
                           ("Circuit(_,n_qubits=_)", "ext_Circuit", [LOM, "Int"], "γ'")]
    u3_ext = [("isinstance(ω,GateOperation)", "isinstance_GateOperation", ["ω"], "Bool"),
              ("isinstance(κ,ControlledGate)", "isinstance_ControlledGate", ["κ"], "Bool"),
              ("ω.gate", "attr_gate", ["ω"], "κ"),
              ("κ.name", "attr_name", ["κ"], "List Char"),
              ("κ.wrapped_gate", "attr_wrapped_gate", ["κ"], "κ")]
    c18 = [
        s_dec_op,
        s_dec_ops,
        (_odec.decompose_orquestra_circuit, "decompose_orquestra_circuit", ["γ", "List ρ"], "γ'", False,
         {"t3": {"types": ["ρ", "ω", "γ", "γ'"], "ext": circ_ext, "known": {"decompose_operations": k_dec_ops}}}),
        (_odec.U3GateToRotation.predicate, "u3_predicate", ["σ", "ω"], "Bool", False,
         {"t3": {"types": ["σ", "ω", "κ"], "ext": u3_ext}}),
    ]

    # ---------------------------------------------------------------- C08
    apply_ext = [("set(_)", "ext_set_order", ["List Int"], "OQ.Py.PySet Int"),
                 ("φ(*_)", "call_factory_star", ["φ", "π"], "κ"),
                 ("κ(_)", "call_gate", ["κ", "Int"], "ω"),
                 ("φ(_)", "call_factory", ["φ", "Int"], "ω"),
                 ("γ+ω", "ext_add", ["γ", "ω"], "γ")]
    apply_args = ["γ", "List Int", "φ", "Option (List π)"]
    classes = {"γ": _circ.Circuit}
    s_apply = (_gen.apply_gate_to_qubits, "apply_gate_to_qubits", apply_args, "γ", True,
               {"t3": {"types": ["γ", "ω", "φ", "π", "κ"], "ext": apply_ext, "classes": classes}})
    k_apply = {"lean": "apply_gate_to_qubits", "args": apply_args, "ret": "γ", "partial": True, "ext": _ext_sig(apply_ext),
               "spec": s_apply}
    layer_ext = apply_ext + [("Circuit()", "ext_Circuit0", [], "γ")]
    anc_ext = [("γ.n_qubits", "attr_n_qubits", ["γ"], "Int"), ("I(_)", "ext_I", ["Int"], "ω"),
               ("γ+ω", "ext_add", ["γ", "ω"], "γ")]
    ctl_ext = [("γ.operations", "attr_operations", ["γ"], LOM), ("ω.gate", "attr_gate", ["ω"], "κ"),
               ("ω.qubit_indices", "attr_qubit_indices", ["ω"], "List Int"),
               ("κ.controlled(_)", "meth_controlled", ["κ", "Int"], "κ"),
               ("κ(*_)", "call_gate_star", ["κ", "List Int"], "ω"),
               ("Circuit(_)", "ext_Circuit", [LOM], "γ")]
    inv_ext = [("γ.operations", "attr_operations", ["γ"], LOM), ("γ.n_qubits", "attr_n_qubits", ["γ"], "Int"),
               ("isinstance(ω,GateOperation)", "isinstance_GateOperation", ["ω"], "Bool"),
               ("ω.gate", "attr_gate", ["ω"], "κ"), ("ω.qubit_indices", "attr_qubit_indices", ["ω"], "List Int"),
               ("κ.dagger", "attr_dagger", ["κ"], "κ"), ("κ(*_)", "call_gate_star", ["κ", "List Int"], "ω"),
               ("type(γ)(operations=_,n_qubits=_)", "ext_new_Circuit", [LOM, "Int"], "γ")]
    c08 = [
        s_apply,
        (_gen.create_layer_of_gates, "create_layer_of_gates", ["Int", "φ", "Option (List π)"], "γ", True,
         {"t3": {"types": ["γ", "ω", "φ", "π", "κ"], "ext": layer_ext, "classes": classes,
                 "known": {"apply_gate_to_qubits": k_apply}}}),
        (_gen.add_ancilla_register, "add_ancilla_register", ["γ", "Int"], "γ", False,
         {"t3": {"types": ["γ", "ω"], "ext": anc_ext, "classes": classes}}),
        (_circ.Circuit.controlled, "circuit_controlled", ["γ", "Int"], "γ", False,
         {"t3": {"types": ["γ", "ω", "κ"], "ext": ctl_ext}, "local_types": {"c_ops": LOM}}),
        (_circ.Circuit.inverse, "circuit_inverse", ["γ"], "γ", True,
         {"t3": {"types": ["γ", "ω", "κ"], "ext": inv_ext}}),
    ]

    # ---------------------------------------------------------------- C16
    seq_ext = [("γ.operations", "attr_operations", ["γ"], LOM), ("Circuit(_)", "ext_Circuit", [LOM], "γ")]
    evo_ext = [("η.terms", "attr_terms", ["η"], "List θ"), ("τ/Int", "ext_div", ["τ", "Int"], "τ"),
               ("time_evolution_for_term(_,_)", "ext_time_evolution_for_term", ["θ", "τ"], "γ"),
               ("Circuit()", "ext_Circuit0", [], "γ"), ("γ+γ", "ext_add", ["γ", "γ"], "γ")]
    c16 = [
        (_evo._generate_circuit_sequence, "generate_circuit_sequence", ["γ", "γ", "Int", "Int"], "γ", True,
         {"t3": {"types": ["γ", "ω"], "ext": seq_ext}}),
        (_evo.time_evolution, "time_evolution", ["η", "τ", "List Char", "Int"], "γ", True,
         {"t3": {"types": ["η", "θ", "τ", "γ"], "ext": evo_ext, "classes": classes}}),
    ]
    return {"C08": c08, "C16": c16, "C18": c18}


def GENS():
    return {}
