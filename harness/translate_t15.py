"""Translator extension T15 (on top of harness/translate_t14.py / translate_t4.py): measurement statistics written with numpy
(property C10: `measurements._convert_bitstrings_to_vector`, `get_expectation_value_from_frequencies`,
`Measurements.get_expectation_values`, `parities.check_parity_of_vector`; the renderings of `np.array([*rows])`, `np.abs` and `k - a`
are in place for `parities.get_parities_from_measurements`, which is NOT translated yet – its in-place `+=` on a view of a 3-d array is
outside the subset).

`T15` subclasses `translate_t14.T14`: everything of T4 / T14 (abstract numeric type `ν`, `Except OQ.Py.Exc4`, dicts, hoisting of effects
in evaluation order, methods of translated classes, externals) is inherited.  Added here:

  arrays     : a numpy array is a value of `OQ.Py.Arr1 τ` (1-d: the list of entries; `OQ.Py.Arr1U8` for dtype `u1`) or `OQ.Py.Arr2 τ` (2-d: the
               rows AND the width).  They are NOT Python lists for the translator (`*` is elementwise, not repetition).  dtypes other than
               `u1` and float rounding are not modelled; `np.ones` (float ones) is rendered with integer entries; `dtype=` keywords must be
               `int` / `complex` / `float` and are otherwise ignored.  Every rendering goes through a prelude function `OQ.Py.np…`
               that is compared with numpy on every run (harness/prelude_check.py, ops `t15_*`):
                 `np.frombuffer(s.encode("utf-8"), "u1")`, `a - ord("c")` on a `u1` array (wraps mod 256; the scalar must be a literal in
                 0..255), `a.astype(int)`, `a.reshape(-1, n)` (ValueError), `A.shape` (`[rows, width]`), `np.ones(k)`,
                 `np.fromiter(xs, dtype=int)`, `np.array(xs)` of a list of numbers, `np.array([*rows])` of a list of int tuples (ValueError
                 when inhomogeneous; NO tuple gives numpy's 1-d empty array: `Option (Arr2 Int)`, `none`), `np.zeros((r, c))` /
                 `np.zeros((n,) * 2)` (the shape must be a syntactic pair), `A[:, idx]` (IndexError), `A[i, j]` (IndexError),
                 `A[i, j] = v` (the item is read first), `x[:, np.newaxis]`, `x[np.newaxis, :]`, `A.sum(axis=1)`, `a.sum()`, `x.item()`,
                 array ∘ Python int for `+ - * %` (`% k` with a non-zero literal) and `k - a`, `np.abs(a)`,
                 array ∘ array for `* -` with numpy BROADCASTING (ValueError; 1-d and 2-d), `a / n` of an int array by a Python int
                 (numpy does not raise for 0: `.error .zeroDiv` stands for the non-finite result, see `OQ.Py.npTrueDivE`),
                 `A / d` of a 2-d numeric array by a Python int (entries `Option ν`, `none` = non-finite).
               Whether a `*` / `-` is a broadcasting (raising) operation is decided from the operand TYPES at the point of use.
  opaque     : parameters may be opaque objects (`opaque={"ising_operator": "Ω"}`), their declared attributes
               (`opaque_attrs={"Ω": {"is_ising": "Bool", "terms": "List Τ"}, "Τ": {…}}`) are PARAMETERS `attr_<name>` of the definition.
  sets       : a set of ints is the list of its elements in ITERATION ORDER (`List Int`; the order is whatever the caller passes – tie
               theorems quantify over it); `not s` is `s.isEmpty`; `a.symmetric_difference(b)` is the external
               `("set.symmetric_difference", "ext_symmetric_difference", "List Int → List Int → List Int")`.
  further    : `[*xs]`, `enumerate(xs)` as an iterable (`OQ.Py.enumerate`), `x ** 2` on a numeric value (`x * x`), `ord("c")`,
               `isinstance(x, np.integer)` on a numeric value as the external `("isinstance:np.integer", …, "ν → Bool")` (with T14's
               external `int`), record constructors (`records={"ExpectationValues": [field types]}`: the tuple of the arguments).
"""
import ast
import copy
import inspect
import re
import textwrap

from . import translate as tr
from . import translate_t4 as t4
from . import translate_t14 as t14
from .translate import T, TranslateError, INT, BOOL, STR, LIST, is_list, elem, list_of, paren
from .translate_t4 import NU, DICT, is_dict, dict_kv, ok, err, _name, _callname, _load, _dotted

A1I = "OQ.Py.Arr1 Int"
A1U = "OQ.Py.Arr1U8"
A1N = "OQ.Py.Arr1 ν"
A2I = "OQ.Py.Arr2 Int"
A2N = "OQ.Py.Arr2 ν"
A2O = "OQ.Py.Arr2 (Option ν)"
OA2I = "Option (OQ.Py.Arr2 Int)"
LLI = "List (List Int)"


def is_arr1(t):
    return t in (A1I, A1U, A1N)


def is_arr2(t):
    return t in (A2I, A2N)


def arr_elem(t):
    return {A1I: INT, A1U: INT, A1N: NU, A2I: INT, A2N: NU}[t]


def _slice_all(n):
    return isinstance(n, ast.Slice) and n.lower is None and n.upper is None and n.step is None


def _newaxis(n):
    return _dotted(n) in ("np.newaxis", "numpy.newaxis") if isinstance(n, ast.Attribute) else False


def _int_lit(text):
    m = re.fullmatch(r"\(?\(?(-?\d+) : Int\)?\)?", text.strip())
    return int(m.group(1)) if m else None


class T15(t14.T14):
    def sub(self, extra, objs=None):
        o = dict(self.objs)
        for k in extra:
            o.pop(k, None)
        o.update(objs or {})
        return T15({**self.env, **extra}, self.ret, self.ctx, o)

    # ------------------------------------------------------------------ typing helpers
    def try_type(self, n):
        try:
            return self.e(n)[1]
        except TranslateError:
            return None

    def env_after(self, items):
        """the translator state after the hoisted `items` (their temporaries typed) – a dry run of the emission"""
        if not items:
            return self
        box = {}

        def cont(t):
            box["t"] = t
            return "()"
        saved_n, saved_objs = self.ctx.n, dict(self.ctx.tmp_objs)
        try:
            self.sub({}).with_rest(self._rest).emit(list(items), cont)
        finally:
            self.ctx.n = saved_n
            self.ctx.tmp_objs = saved_objs
        return box["t"]

    def dtype_ok(self, n):
        for kw in n.keywords:
            if kw.arg != "dtype" or not (_name(kw.value) and kw.value.id in ("int", "complex", "float")):
                return False
        return True

    # ------------------------------------------------------------------ pure expressions
    def e(self, n):
        if isinstance(n, ast.List) and len(n.elts) == 1 and isinstance(n.elts[0], ast.Starred):
            it, te = self.iter_of(n.elts[0].value)
            return it, list_of(te)
        if isinstance(n, ast.UnaryOp) and isinstance(n.op, ast.Not):
            v, t = self.e(n.operand)
            if is_list(t):
                return f"({v}.isEmpty)", BOOL
        if isinstance(n, ast.BinOp) and isinstance(n.op, ast.Div) and self.try_type(n.left) == A2N and self.try_type(n.right) == INT:
            return self.binop(n)
        if isinstance(n, ast.Attribute):
            d = _dotted(n)
            known_attr = d is not None and (d.startswith("self.") or self.ctx.ext_by_py(d) is not None)
            if not known_attr and not (_name(n.value) and n.value.id in self.objs):
                v, t = self.e(n.value)
                decl = self.ctx.opaque_attrs.get(t, {})
                if n.attr in decl:
                    return f"(attr_{n.attr} {v})", decl[n.attr]
                if n.attr == "shape" and is_arr2(t):
                    return f"(OQ.Py.npShape2 {v})", LIST
                raise TranslateError(f"attribute {n.attr} of a value of type {t}")
        return super().e(n)

    def binop(self, n):
        op = n.op
        if isinstance(op, (ast.Add, ast.Sub, ast.Mult, ast.Mod, ast.Pow, ast.Div)):
            ta, tb = self.try_type(n.left), self.try_type(n.right)
            if ta is not None and tb is not None:
                if isinstance(op, ast.Pow) and ta == NU and tb == INT:
                    a, b = self.e(n.left)[0], self.e(n.right)[0]
                    if _int_lit(b) != 2:
                        raise TranslateError("** on a numeric value with an exponent other than the literal 2")
                    return f"({a} * {a})", NU
                if ta == A1U and tb == INT and isinstance(op, ast.Sub):
                    a, b = self.e(n.left)[0], self.e(n.right)[0]
                    k = _int_lit(b)
                    if k is None or not 0 <= k <= 255:
                        raise TranslateError("u1 array minus a scalar that is not a literal in 0..255")
                    return f"(OQ.Py.npSubU8 {a} {b})", A1U
                if ta == A1I and tb == INT:
                    a, b = self.e(n.left)[0], self.e(n.right)[0]
                    f = {ast.Add: "npAddS", ast.Sub: "npSubS", ast.Mult: "npMulS", ast.Mod: "npModS"}.get(type(op))
                    if f == "npModS" and _int_lit(b) in (None, 0):
                        raise TranslateError("array % scalar with a scalar that is not a non-zero literal")
                    if f:
                        return f"(OQ.Py.{f} {a} {b})", A1I
                if ta == INT and tb == A1I:
                    a, b = self.e(n.left)[0], self.e(n.right)[0]
                    if isinstance(op, ast.Sub):
                        return f"(OQ.Py.npRSubS {a} {b})", A1I
                    if isinstance(op, ast.Mult):
                        return f"(OQ.Py.npMulS {b} {a})", A1I
                    if isinstance(op, ast.Add):
                        return f"(OQ.Py.npAddS {b} {a})", A1I
                if ta == A2N and tb == INT and isinstance(op, ast.Div):
                    a, b = self.e(n.left)[0], self.e(n.right)[0]
                    return f"(OQ.Py.npDivS2 {a} {b})", A2O
                if (is_arr1(ta) or is_arr2(ta) or is_arr1(tb) or is_arr2(tb)):
                    raise TranslateError(f"array operation {type(op).__name__} on {ta}, {tb} in a position where it cannot be hoisted")
        return super().binop(n)

    def call(self, n):
        f = _callname(n)
        if f == "ord" and len(n.args) == 1 and not n.keywords and isinstance(n.args[0], ast.Constant) \
                and isinstance(n.args[0].value, str) and len(n.args[0].value) == 1:
            return f"({ord(n.args[0].value)} : Int)", INT
        if f == "isinstance" and len(n.args) == 2 and not n.keywords and _dotted(n.args[1]) in ("np.integer", "numpy.integer"):
            v, t = self.e(n.args[0])
            if t == NU:
                x = self.ctx.ext_by_py("isinstance:np.integer")
                if x is None:
                    raise TranslateError("isinstance(·, np.integer) on a numeric value without a declared external")
                return f"({x[0]} {v})", BOOL
        if f is not None and f in self.ctx.records and not n.keywords and self.ctx.globals.get(f) is not None:
            want = self.ctx.records[f]
            args = [self.e(a) for a in n.args]
            if [t for _, t in args] != list(want):
                raise TranslateError(f"{f}(…) with {[t for _, t in args]}, declared {want}")
            return "(" + ", ".join(a for a, _ in args) + ")", " × ".join(f"({t})" for t in want)
        if f == "sum" and len(n.args) == 1 and not n.keywords and self.try_type(n.args[0]) == LIST:
            return f"(OQ.Py.sum {self.e(n.args[0])[0]})", INT
        if isinstance(n.func, ast.Attribute):
            d = _dotted(n.func)
            meth = n.func.attr
            if d in ("np.frombuffer", "numpy.frombuffer") and len(n.args) == 2 and not n.keywords:
                b, dt = n.args
                if isinstance(dt, ast.Constant) and dt.value == "u1" and isinstance(b, ast.Call) and isinstance(b.func, ast.Attribute) \
                        and b.func.attr == "encode" and len(b.args) == 1 and isinstance(b.args[0], ast.Constant) \
                        and b.args[0].value == "utf-8" and not b.keywords:
                    s, ts = self.e(b.func.value)
                    if ts == STR:
                        return f"(OQ.Py.npFromBufferU1 {s})", A1U
                raise TranslateError("np.frombuffer other than (s.encode(\"utf-8\"), \"u1\")")
            if d in ("np.ones", "numpy.ones") and len(n.args) == 1 and not n.keywords:
                k, tk = self.e(n.args[0])
                if tk == INT:
                    return f"(OQ.Py.npOnes {k})", A1I
            if d in ("np.fromiter", "numpy.fromiter") and len(n.args) == 1 and self.dtype_ok(n) \
                    and [kw.value.id for kw in n.keywords] == ["int"]:
                xs, te = self.iter_of(n.args[0])
                if te == INT:
                    return f"(OQ.Py.npFromIterInt {xs})", A1I
            if d in ("np.abs", "numpy.abs") and len(n.args) == 1 and not n.keywords:
                a, ta = self.e(n.args[0])
                if ta == A1I:
                    return f"(OQ.Py.npAbs1 {a})", A1I
            if d in ("np.array", "numpy.array") and len(n.args) == 1 and not n.keywords:
                xs, txs = self.e(n.args[0])
                if txs == list_of(NU):
                    return f"(OQ.Py.npArray1 {xs})", A1N
                if txs == LLI:
                    raise TranslateError("np.array of int tuples in a position where it cannot be hoisted")
            if d in ("np.zeros", "numpy.zeros") and len(n.args) == 1 and self.dtype_ok(n):
                sh = n.args[0]
                dims = None
                if isinstance(sh, ast.Tuple) and len(sh.elts) == 2:
                    dims = list(sh.elts)
                elif isinstance(sh, ast.BinOp) and isinstance(sh.op, ast.Mult) and isinstance(sh.left, ast.Tuple) \
                        and len(sh.left.elts) == 1 and isinstance(sh.right, ast.Constant) and sh.right.value == 2:
                    dims = [sh.left.elts[0], sh.left.elts[0]]
                if dims is not None:
                    (r, tr_), (c, tc) = self.e(dims[0]), self.e(dims[1])
                    if tr_ == INT and tc == INT:
                        return f"(OQ.Py.npZeros2 {r} {c})", A2N
                if isinstance(sh, (ast.Tuple, ast.BinOp)):
                    raise TranslateError("np.zeros with a shape that is not a syntactic pair")
            if meth == "astype" and len(n.args) == 1 and not n.keywords and _name(n.args[0], "int"):
                a, ta = self.e(n.func.value)
                if ta == A1U:
                    return f"(OQ.Py.npAstypeInt {a})", A1I
            if meth == "sum":
                a, ta = self.e(n.func.value)
                if ta == A2I and not n.args and len(n.keywords) == 1 and n.keywords[0].arg == "axis" \
                        and isinstance(n.keywords[0].value, ast.Constant) and n.keywords[0].value.value == 1:
                    return f"(OQ.Py.npSumAxis1 {a})", A1I
                if not n.args and not n.keywords and ta == A1N:
                    return f"(OQ.Py.sumNum {a})", NU
                if not n.args and not n.keywords and ta == A1I:
                    return f"(OQ.Py.npSum1 {a})", INT
                raise TranslateError(f"sum(…) on {ta}")
            if meth == "item" and not n.args and not n.keywords:
                a, ta = self.e(n.func.value)
                if ta in (NU, INT):
                    return a, ta
            if meth == "symmetric_difference" and len(n.args) == 1 and not n.keywords:
                a, ta = self.e(n.func.value)
                b, tb = self.e(n.args[0])
                x = self.ctx.ext_by_py("set.symmetric_difference")
                if ta == LIST and tb == LIST and x is not None:
                    return f"({x[0]} {a} {b})", LIST
                raise TranslateError("symmetric_difference without a declared external / on non-sets")
        return super().call(n)

    def iter_of(self, n):
        if _callname(n) == "enumerate" and len(n.args) == 1 and not n.keywords:
            xs, te = self.iter_of(n.args[0])
            return f"(OQ.Py.enumerate {xs})", f"Int × {paren(te)}"
        return super().iter_of(n)

    # ------------------------------------------------------------------ effects
    def effect_node(self, n):
        if isinstance(n, ast.Call) and _callname(n) == "int" and len(n.args) == 1 and not n.keywords:
            t = self.try_type(n.args[0])
            if t in (NU, INT):
                return False
        if isinstance(n, ast.Call) and isinstance(n.func, ast.Attribute) and n.func.attr == "reshape":
            return True
        if isinstance(n, ast.Call) and _dotted(n.func) in ("np.array", "numpy.array") and len(n.args) == 1 \
                and isinstance(n.args[0], ast.List) and len(n.args[0].elts) == 1 and isinstance(n.args[0].elts[0], ast.Starred):
            return True
        if isinstance(n, ast.BinOp) and isinstance(n.op, (ast.Mult, ast.Sub)):
            ta, tb = self.try_type(n.left), self.try_type(n.right)
            if ta is not None and ta == tb and (is_arr1(ta) or is_arr2(ta)):
                return True
        return super().effect_node(n)

    def hoist(self, n, items):
        if isinstance(n, ast.BinOp) and self.impure(n):
            l = self.hoist(n.left, items)
            r = self.hoist(n.right, items)
            st = self.env_after(items)
            tl, tr_ = st.try_type(l), st.try_type(r)
            if tl is not None and tl == tr_ and (is_arr1(tl) or is_arr2(tl)) and isinstance(n.op, (ast.Mult, ast.Sub)):
                tmp = self.fresh()
                items.append(("npzip", tmp, n.op, l, r))
                return _load(tmp)
            if isinstance(n.op, ast.Div) and tl == A1I and tr_ == INT:
                tmp = self.fresh()
                items.append(("nptruediv", tmp, l, r))
                return _load(tmp)
            if isinstance(n.op, ast.Div) and tl == A2N and tr_ == INT:
                n2 = copy.copy(n)
                n2.left, n2.right = l, r
                return n2
            if isinstance(n.op, ast.Div):
                tmp = self.fresh()
                items.append(("div", tmp, l, r))
                return _load(tmp)
            n2 = copy.copy(n)
            n2.left, n2.right = l, r
            return n2
        if isinstance(n, ast.Subscript) and isinstance(n.slice, ast.Tuple) and len(n.slice.elts) == 2:
            v = self.hoist(n.value, items)
            a, b = n.slice.elts
            a2 = a if (_slice_all(a) or _newaxis(a)) else self.hoist(a, items)
            b2 = b if (_slice_all(b) or _newaxis(b)) else self.hoist(b, items)
            tmp = self.fresh()
            items.append(("npindex", tmp, v, a2, b2))
            return _load(tmp)
        if isinstance(n, ast.Slice):
            return n
        return super().hoist(n, items)

    def emit(self, items, cont):
        if not items:
            return cont(self)
        kind, tmp = items[0][0], items[0][1]

        def go(text, t, pure=False):
            rest = self.sub({tmp: t}).with_rest(self._rest).emit(items[1:], cont)
            if pure:
                return f"let {tmp} : {t} := {text}\n  {rest}"
            if not self.partial:
                raise TranslateError("an expression that may raise in a function not declared partial")
            return f"Except.bind {text} (fun ({tmp} : {t}) =>\n  {rest})"
        if kind == "npzip":
            op, l, r = items[0][2], items[0][3], items[0][4]
            (a, ta), (b, tb) = self.e(l), self.e(r)
            f = "(fun x y => x * y)" if isinstance(op, ast.Mult) else "(fun x y => x - y)"
            if ta == tb == A1I:
                return go(f"(OQ.Py.npZip1E {f} {a} {b})", A1I)
            if ta == tb and is_arr2(ta):
                return go(f"(OQ.Py.npZip2E {f} {a} {b})", ta)
            raise TranslateError(f"array operation on {ta}, {tb}")
        if kind == "nptruediv":
            (a, ta), (b, tb) = self.e(items[0][2]), self.e(items[0][3])
            if ta == A1I and tb == INT:
                return go(f"(OQ.Py.npTrueDivE {a} {b})", A1N)
            raise TranslateError(f"array division of {ta} by {tb}")
        if kind == "npindex":
            v, tv = self.e(items[0][2])
            a, b = items[0][3], items[0][4]
            if _slice_all(a) and _newaxis(b) and is_arr1(tv):
                return go(f"(OQ.Py.npCol {v})", {A1N: A2N, A1I: A2I}[tv], pure=True)
            if _newaxis(a) and _slice_all(b) and is_arr1(tv):
                return go(f"(OQ.Py.npRow {v})", {A1N: A2N, A1I: A2I}[tv], pure=True)
            if _slice_all(a) and not _slice_all(b) and not _newaxis(b):
                i, ti = self.e(b)
                if tv == A2I and ti == A1I:
                    return go(f"(OQ.Py.npTakeColsE {v} {i})", A2I)
                if tv == OA2I and ti == A1I:
                    return go(f"(match {v} with | some __a => OQ.Py.npTakeColsE __a {i} | none => {err('index')})", A2I)
                raise TranslateError(f"[:, idx] on {tv} with {ti}")
            if not any(_slice_all(x) or _newaxis(x) for x in (a, b)):
                (i, ti), (j, tj) = self.e(a), self.e(b)
                if is_arr2(tv) and ti == INT and tj == INT:
                    return go(f"(OQ.Py.npGet2E {v} {i} {j})", arr_elem(tv))
            raise TranslateError(f"subscript of {tv} with a pair")
        if kind == "call":
            n = items[0][2]
            if isinstance(n.func, ast.Attribute) and n.func.attr == "reshape":
                a, ta = self.e(n.func.value)
                if n.keywords or len(n.args) != 2 or not (isinstance(n.args[0], ast.UnaryOp) and isinstance(n.args[0].op, ast.USub)
                                                          and isinstance(n.args[0].operand, ast.Constant)
                                                          and n.args[0].operand.value == 1):
                    raise TranslateError("reshape other than (-1, n)")
                k, tk = self.e(n.args[1])
                if ta == A1I and tk == INT:
                    return go(f"(OQ.Py.npReshapeE {a} {k})", A2I)
                raise TranslateError(f"reshape of {ta}")
            if _dotted(n.func) in ("np.array", "numpy.array"):
                xs, txs = self.e(n.args[0])
                if txs == LLI and not n.keywords:
                    return go(f"(OQ.Py.npArrayRowsE {xs})", OA2I)
                raise TranslateError(f"np.array([*…]) of {txs}")
        return super().emit(items, cont)

    # ------------------------------------------------------------------ statements
    def block(self, stmts, tail=None):
        if stmts:
            s, rest = stmts[0], stmts[1:]
            if isinstance(s, ast.AnnAssign) and s.value is not None:
                s = ast.Assign(targets=[s.target], value=s.value)
                stmts = [s] + list(rest)
            # A[i, j] = v on a 2-d array
            if isinstance(s, ast.Assign) and len(s.targets) == 1 and isinstance(s.targets[0], ast.Subscript) \
                    and _name(s.targets[0].value) and isinstance(s.targets[0].slice, ast.Tuple) \
                    and len(s.targets[0].slice.elts) == 2 and is_arr2(self.env.get(s.targets[0].value.id, "")):
                self._rest = rest
                name = s.targets[0].value.id
                ta = self.env[name]
                items = []
                val = self.hoist(s.value, items)       # right-hand side first, then the target's subscripts
                ij = []
                for x in s.targets[0].slice.elts:
                    if _slice_all(x) or _newaxis(x):
                        raise TranslateError("slice assignment on a 2-d array")
                    k = self.hoist(x, items)
                    if not isinstance(k, (ast.Name, ast.Constant)):
                        ktmp = self.fresh()
                        items.append(("let", ktmp, k))
                        k = _load(ktmp)
                    ij.append(k)
                old = self.fresh()
                items.append(("npindex", old, _load(name), ij[0], ij[1]))   # the store raises IndexError exactly where the load does

                def cont(t):
                    (i, ti), (j, tj) = t.e(ij[0]), t.e(ij[1])
                    v, tv = t.e(val)
                    if arr_elem(ta) == NU and tv == INT:
                        v, tv = t.num(v, tv), NU
                    if ti != INT or tj != INT or tv != arr_elem(ta):
                        raise TranslateError(f"item assignment on {ta} with ({ti}, {tj}), value {tv}")
                    return f"let {name} : {ta} := OQ.Py.npSet2 {name} {i} {j} {v}\n  {t.block(rest, tail)}"
                return self.emit(items, cont)
        return super().block(stmts, tail)


def translate_function(fn, lean_name, arg_types, ret, partial=False, attrs=None, local_types=None, known=None,
                       ext=None, empties=None, self_in=None, self_out=None, self_out_types=None, value=True, objects=None,
                       param_objs=None, opaque_attrs=None, records=None, **_other):
    """as translate_t14.translate_function, rendered by T15; `opaque_attrs`: opaque type -> {attribute: type} (parameters `attr_…`),
    `records`: class name -> field types (its constructor call is the tuple of the arguments)"""
    fn = getattr(fn, "__wrapped__", fn)
    fn = getattr(fn, "__func__", fn)
    src = textwrap.dedent(inspect.getsource(fn))
    node = ast.parse(src).body[0]
    if not isinstance(node, ast.FunctionDef):
        raise TranslateError("not a function")
    if node.args.vararg or node.args.kwarg or node.args.kwonlyargs:
        raise TranslateError("*args / **kwargs / keyword-only parameters")
    names = [a.arg for a in node.args.args]
    has_self = bool(names) and names[0] in ("self", "cls")
    pnames = names[1:] if has_self else names
    if len(pnames) != len(arg_types):
        raise TranslateError("arity")
    self_in = dict(self_in or {})
    self_out = list(self_out or [])
    self_out_types = list(self_out_types or [])
    full_ret = t4.ret_type(ret, self_out_types, value)
    ctx = t4.Ctx(fn, partial, known, ext, empties, self_in, self_out, value, objects)
    ctx.value_type = ret
    ctx.params = list(pnames)
    ctx.tmp_objs = {}
    ctx.opaque_attrs = {k: dict(v) for k, v in (opaque_attrs or {}).items()}
    ctx.records = dict(records or {})
    raises_runtime = any(isinstance(x, ast.Raise) and _name(x.exc.func if isinstance(x.exc, ast.Call) else x.exc, "RuntimeError")
                         for x in ast.walk(node))
    ctx.assert_ok = not raises_runtime and not ctx.known
    env = {"self_" + a: t for a, t in self_in.items()}
    env.update(dict(zip(pnames, arg_types)))
    T.KNOWN = {}
    lits = sorted((x.value.lineno, x.value.col_offset) for x in ast.walk(node)
                  if isinstance(x, (ast.Assign, ast.AnnAssign)) and x.value is not None
                  and ((isinstance(x.value, (ast.List, ast.Tuple)) and not x.value.elts)
                       or (isinstance(x.value, ast.Dict) and not x.value.keys)))
    if len(lits) != len(ctx.empties):
        raise TranslateError(f"{len(lits)} empty literals in the source, {len(ctx.empties)} types declared")
    ctx.empty_types = dict(zip(lits, ctx.empties))
    for kname, k in ctx.known.items():
        sp = k.get("spec")
        if sp is not None:
            try:
                opt = {x: y for x, y in sp[5].items() if x not in ("translator", "driver", "imports")}
                sp[5]["translator"](sp[0], sp[1], sp[2], sp[3], sp[4], **opt)
            except Exception as e:
                raise TranslateError(f"the callee {kname} is not translatable now ({e})")
    body = T15(env, ret, ctx, {}).block(list(node.body))
    alltypes = list(arg_types) + [full_ret] + list(self_in.values())
    pre = ""
    if any(NU in t for t in alltypes) or any(NU in t for _, _, t in (ext or [])) or NU in body:
        pre += "{ν : Type} [OQ.Py.PyNum ν] "
    if ctx.opaque_attrs:
        pre += "{" + " ".join(ctx.opaque_attrs) + " : Type} "
    pre += "".join(f"({lean} : {t}) " for _, lean, t in (ext or []))
    for ty, decl in ctx.opaque_attrs.items():
        pre += "".join(f"(attr_{a} : {ty} → {paren(t)}) " for a, t in decl.items())
    binders = " ".join([f"(self_{a} : {t})" for a, t in self_in.items()] + [f"({n} : {t})" for n, t in zip(pnames, arg_types)])
    where = f"{inspect.getsourcefile(fn).split('/src/')[-1]}:{fn.__qualname__}"
    rt = f"Except OQ.Py.Exc4 ({full_ret})" if partial else full_ret
    return f"/-- translated from `{where}` -/\ndef {lean_name} {pre}{binders} : {rt} :=\n  {body}\n"
