"""Translator extension T16 (on top of harness/translate_t14.py, which is on top of translate_t4.py): the distances between outcome
distributions (property C17: `distributions/mmd.py`, `clipped_negative_log_likelihood.py`, `jensen_shannon_divergence.py`,
`evaluate_distribution_distance`).

`T16` subclasses `translate_t14.T14`: the abstract numeric type `ν`, `Except OQ.Py.Exc4`, dicts, hoisting of effects in evaluation order,
externals by dotted name, object parameters that ARE their one state attribute (`param_objs`) are inherited.  Added here:

  sets       : `set(a).union(b)` of two lists / key views is `ext_set_order (OQ.Py.setUnion (OQ.Py.setOfList a) b)` – a list in ITERATION
               order; the order is the external `ext_set_order : List κ → List κ` (CPython iterates an unmodified set in one fixed order, so
               the external is applied once, where the set is built; its law – a permutation – is a hypothesis of the tie theorems).
  numbers    : `max(a, b)` on numeric values (`OQ.Py.maxNum`), unary minus (`OQ.Py.negNum`), `math.log(x)` (`OQ.Py.mathLogE ext_log x`:
               ValueError unless x > 0, the value is the external `math.log`), `int(s, 2)` with its ValueError (`OQ.Py.intBase2E`).
  parameters : a dict whose values are numbers OR sequences of numbers has values of type `OQ.Py.NumOrSeq ν`; `d.get(k, <number>)` injects
               the default; `if [not] hasattr(x, "__len__")` on a NAME of that type is a `match` that rebinds `x` in BOTH branches.
  numpy      : 1-d / 2-d arrays are `OQ.Py.NpVec τ` / `OQ.Py.NpMat τ` (kept apart from Python lists).  Rendered, each by ONE prelude
               function that is compared with numpy on every run: `np.asarray(xs, dtype=object)` / `np.array(xs)` of a list (the list),
               `x[:, None] - y[None, :]` (`npOuterSub`), `np.abs(m)`, `m ** <int constant>`, `m.astype(float)`, `<number> * m`, `np.zeros(m.shape)`,
               `a + b` on 2-d arrays, `m / <int>`, `a - b` on 1-d arrays, `a.dot(b)`, `m.dot(v)`; a declared external `np.exp` applied to a
               2-d array is `OQ.Py.npMap2 ext_exp` (a ufunc acts elementwise).  No loops are invented: a vectorised expression stays one
               application.  DOMAINS (equal shapes; a non-zero int divisor) are stated at the prelude functions.
  try/except : `try: BODY except E [as x]: print(...)…; raise` re-raises the same exception: the statement is its BODY.
  isinstance : a PARAMETER declared `maybe_objs` has type `Option <state>` (`none` = not an instance of the class);
               `isinstance(x, Class)` on such a NAME is a `match` (the positive branch sees the object);
               `if A or B: S` with narrowing tests is `if A: S else: if B: S` (short-circuit evaluation), `if not T` swaps the branches.
  callables  : a PARAMETER declared in `callables` is a function that may raise (`… → Except OQ.Py.Exc4 ρ`); a `**kwargs` parameter is an
               opaque value (`kwarg_type`) that may only be passed on to such a callable (`f(a, b, **kwargs)`).
"""
import ast
import copy
import inspect
import textwrap

from . import translate as tr
from . import translate_t4 as t4
from .translate import T, TranslateError, INT, BOOL, STR, LIST, is_list, elem, list_of
from .translate_t4 import NU, DICT, is_dict, dict_kv, ok, err, _name, _callname, _load, _dotted, is_opt, opt_elem
from .translate_t14 import T14

NUMSEQ = "OQ.Py.NumOrSeq ν"
VECI, VECN = "OQ.Py.NpVec Int", "OQ.Py.NpVec ν"
MATI, MATN = "OQ.Py.NpMat Int", "OQ.Py.NpMat ν"
LNU = "List ν"


def _outer_sub(n):
    """x[:, None] - y[None, :]  ->  (x node, y node)"""
    def col(s):
        return (isinstance(s, ast.Subscript) and isinstance(s.slice, ast.Tuple) and len(s.slice.elts) == 2
                and _full(s.slice.elts[0]) and _none(s.slice.elts[1]))

    def row(s):
        return (isinstance(s, ast.Subscript) and isinstance(s.slice, ast.Tuple) and len(s.slice.elts) == 2
                and _none(s.slice.elts[0]) and _full(s.slice.elts[1]))
    if isinstance(n, ast.BinOp) and isinstance(n.op, ast.Sub) and col(n.left) and row(n.right):
        return n.left.value, n.right.value
    return None


def _full(x):
    return isinstance(x, ast.Slice) and x.lower is None and x.upper is None and x.step is None


def _none(x):
    return isinstance(x, ast.Constant) and x.value is None


def _hasattr_len(n):
    """hasattr(<Name>, "__len__") -> name"""
    if _callname(n) == "hasattr" and len(n.args) == 2 and not n.keywords and _name(n.args[0]) \
            and isinstance(n.args[1], ast.Constant) and n.args[1].value == "__len__":
        return n.args[0].id
    return None


def _reraising_handler(h):
    """except E [as x]: print(...) …; raise"""
    if not h.body or not (isinstance(h.body[-1], ast.Raise) and h.body[-1].exc is None and h.body[-1].cause is None):
        return False
    for s in h.body[:-1]:
        if not (isinstance(s, ast.Expr) and _callname(s.value) == "print"):
            return False
    return True


class T16(T14):
    def sub(self, extra, objs=None):
        o = dict(self.objs)
        for k in extra:
            o.pop(k, None)
        o.update(objs or {})
        return T16({**self.env, **extra}, self.ret, self.ctx, o)

    # ------------------------------------------------------------------ expressions
    def ext_lean(self, lean):
        for _py, l, t in self.ctx.ext:
            if l == lean:
                return l, t
        return None

    def _is_npsub(self, n):
        return isinstance(n, ast.Subscript) and isinstance(n.slice, ast.Tuple)

    def _type_of(self, n):
        try:
            return self.e(n)[1]
        except TranslateError:
            return None

    def e(self, n):
        if isinstance(n, ast.UnaryOp) and isinstance(n.op, ast.USub):
            v, t = self.e(n.operand)
            if t == NU:
                return f"(OQ.Py.negNum {v})", NU
        if isinstance(n, ast.BinOp):
            os_ = _outer_sub(n)
            if os_ is not None:
                x, tx = self.e(os_[0])
                y, ty = self.e(os_[1])
                if tx == VECI and ty == VECI:
                    return f"(OQ.Py.npOuterSub {x} {y})", MATI
                raise TranslateError(f"x[:, None] - y[None, :] on {tx}, {ty}")
            if isinstance(n.op, ast.Div):
                tl = self._type_of(n.left)
                if tl == MATN:
                    a, _ = self.e(n.left)
                    b, tb = self.e(n.right)
                    if tb == INT:
                        return f"(OQ.Py.npDivInt2 {a} {b})", MATN
                    raise TranslateError(f"division of a 2-d array by {tb}")
        return super().e(n)

    def binop(self, n):
        a, ta = self.e(n.left)
        b, tb = self.e(n.right)
        if ta.startswith("OQ.Py.Np") or tb.startswith("OQ.Py.Np"):
            if isinstance(n.op, ast.Pow) and ta == MATI and isinstance(n.right, ast.Constant) and isinstance(n.right.value, int) \
                    and not isinstance(n.right.value, bool) and n.right.value >= 0:
                return f"(OQ.Py.npPow2 {a} {b})", MATI
            if isinstance(n.op, ast.Mult) and ta in (NU, INT) and tb == MATN:
                return f"(OQ.Py.npScale2 {self.num(a, ta)} {b})", MATN
            if isinstance(n.op, ast.Add) and ta == MATN and tb == MATN:
                return f"(OQ.Py.npAdd2 {a} {b})", MATN
            if isinstance(n.op, ast.Sub) and ta == VECN and tb == VECN:
                return f"(OQ.Py.npSub1 {a} {b})", VECN
            raise TranslateError(f"array operation {type(n.op).__name__} on {ta}, {tb}")
        return super().binop(n)

    def call(self, n):
        f = _callname(n)
        d = _dotted(n.func) if isinstance(n.func, ast.Attribute) else None
        # set(a).union(b)
        if isinstance(n.func, ast.Attribute) and n.func.attr == "union" and _callname(n.func.value) == "set" \
                and len(n.func.value.args) == 1 and not n.func.value.keywords and len(n.args) == 1 and not n.keywords:
            a, ta = self.e(n.func.value.args[0])
            b, tb = self.e(n.args[0])
            x = self.ext_lean("ext_set_order")
            if x is None:
                raise TranslateError("a set is iterated: the external ext_set_order is not declared")
            if not (is_list(ta) and ta == tb) or x[1] != f"{ta} → {ta}":
                raise TranslateError(f"set({ta}).union({tb}) with ext_set_order : {x[1]}")
            return f"(ext_set_order (OQ.Py.setUnion (OQ.Py.setOfList {a}) {b}))", ta
        # numpy
        np_ok = d is not None and d.startswith("np.") and self._is_numpy()
        if np_ok and d in ("np.asarray", "np.array") and len(n.args) == 1:
            kws = {k.arg: k.value for k in n.keywords}
            if set(kws) - {"dtype"} or ("dtype" in kws and not _name(kws["dtype"], "object")):
                raise TranslateError(f"{d} with these keyword arguments")
            v, t = self.e(n.args[0])
            if t == LIST and (d == "np.array" or "dtype" in kws):
                return v, VECI
            if t == LNU and "dtype" not in kws:
                return v, VECN
            raise TranslateError(f"{d}({t})")
        if np_ok and d == "np.abs" and len(n.args) == 1 and not n.keywords:
            v, t = self.e(n.args[0])
            if t == MATI:
                return f"(OQ.Py.npAbs2 {v})", MATI
            raise TranslateError(f"np.abs({t})")
        if np_ok and d == "np.zeros" and len(n.args) == 1 and not n.keywords and isinstance(n.args[0], ast.Attribute) \
                and n.args[0].attr == "shape":
            v, t = self.e(n.args[0].value)
            if t in (MATI, MATN):
                return f"(OQ.Py.npZerosLike2 {v})", MATN
            raise TranslateError(f"np.zeros({t}.shape)")
        if d is not None and len(n.args) == 1 and not n.keywords:
            x = self.ctx.ext_by_py(d)
            if x is not None and x[1] == "ν → ν" and np_ok:
                v, t = self.e(n.args[0])
                if t == MATN:
                    return f"(OQ.Py.npMap2 {x[0]} {v})", MATN
        if isinstance(n.func, ast.Attribute) and n.func.attr == "astype" and len(n.args) == 1 and not n.keywords \
                and _name(n.args[0], "float"):
            v, t = self.e(n.func.value)
            if t == MATI:
                return f"(OQ.Py.npAsFloat2 {v})", MATN
            raise TranslateError(f"astype(float) on {t}")
        if isinstance(n.func, ast.Attribute) and n.func.attr == "dot" and len(n.args) == 1 and not n.keywords:
            tv = self._type_of(n.func.value)
            if tv in (VECN, MATN):
                v, _ = self.e(n.func.value)
                w, tw = self.e(n.args[0])
                if tw != VECN:
                    raise TranslateError(f"dot of {tv} with {tw}")
                return (f"(OQ.Py.npDot1 {v} {w})", NU) if tv == VECN else (f"(OQ.Py.npMatVec {v} {w})", VECN)
        # d.get(k, <number>) on a dict whose values are numbers or sequences
        if isinstance(n.func, ast.Attribute) and n.func.attr == "get" and len(n.args) == 2 and not n.keywords:
            tr_ = self._type_of(n.func.value)
            if tr_ is not None and is_dict(tr_) and dict_kv(tr_)[1] == NUMSEQ:
                r, _ = self.e(n.func.value)
                kk, tk = self.e(n.args[0])
                dd, tdd = self.e(n.args[1])
                if tk != dict_kv(tr_)[0] or tdd not in (NU, INT):
                    raise TranslateError(f"get({tk}, {tdd}) on {tr_}")
                return f"(OQ.Py.dictGetD {r} {kk} (OQ.Py.NumOrSeq.num {self.num(dd, tdd)}))", NUMSEQ
        if f == "max" and len(n.args) == 2 and not n.keywords:
            a, ta = self.e(n.args[0])
            b, tb = self.e(n.args[1])
            if NU in (ta, tb) and {ta, tb} <= {NU, INT}:
                return f"(OQ.Py.maxNum {self.num(a, ta)} {self.num(b, tb)})", NU
        return super().call(n)

    def _is_numpy(self):
        import numpy
        return self.ctx.globals.get("np") is numpy

    # ------------------------------------------------------------------ effects
    def _is_log(self, n):
        import math
        return isinstance(n, ast.Call) and isinstance(n.func, ast.Attribute) and _dotted(n.func) == "math.log" \
            and len(n.args) == 1 and not n.keywords and self.ctx.globals.get("math") is math

    def _is_int2(self, n):
        return _callname(n) == "int" and len(n.args) == 2 and not n.keywords and isinstance(n.args[1], ast.Constant) \
            and n.args[1].value == 2 and not isinstance(n.args[1].value, bool)

    def _is_callable(self, n):
        return isinstance(n, ast.Call) and _name(n.func) and n.func.id in self.ctx.callables and n.func.id in self.env

    def effect_node(self, n):
        if self._is_npsub(n):
            return False
        if isinstance(n, ast.BinOp) and isinstance(n.op, ast.Div) and self._type_of(n.left) == MATN:
            return False
        if self._is_log(n) or self._is_int2(n) or self._is_callable(n):
            return True
        return super().effect_node(n)

    def hoist(self, n, items):
        if _outer_sub(n) is not None and self.impure(n):
            n2 = copy.copy(n)
            n2.left, n2.right = copy.copy(n.left), copy.copy(n.right)
            n2.left.value = self.hoist(n.left.value, items)
            n2.right.value = self.hoist(n.right.value, items)
            return n2
        if isinstance(n, ast.BinOp) and isinstance(n.op, ast.Div) and self._type_of(n.left) == MATN and self.impure(n):
            n2 = copy.copy(n)
            n2.left, n2.right = self.hoist(n.left, items), self.hoist(n.right, items)
            return n2
        if self._is_callable(n) and self.impure(n):
            n2 = copy.copy(n)
            n2.args = [self.hoist(a, items) for a in n.args]
            tmp = self.fresh()
            items.append(("call", tmp, n2))
            return _load(tmp)
        return super().hoist(n, items)

    def emit(self, items, cont):
        if items and items[0][0] == "call":
            tmp, n = items[0][1], items[0][2]

            def go(text, t):
                if not self.partial:
                    raise TranslateError("an expression that may raise in a function not declared partial")
                rest = self.sub({tmp: t}).with_rest(self._rest).emit(items[1:], cont)
                return f"Except.bind {text} (fun ({tmp} : {t}) =>\n  {rest})"
            if self._is_log(n):
                x = self.ctx.ext_by_py("math.log")
                if x is None or x[1] != "ν → ν":
                    raise TranslateError("math.log without a declared external ν → ν")
                v, tv = self.e(n.args[0])
                if tv not in (NU, INT):
                    raise TranslateError(f"math.log({tv})")
                return go(f"(OQ.Py.mathLogE {x[0]} {self.num(v, tv)})", NU)
            if self._is_int2(n):
                v, tv = self.e(n.args[0])
                if tv != STR:
                    raise TranslateError(f"int({tv}, 2)")
                return go(f"(OQ.Py.intBase2E {v})", INT)
            if self._is_callable(n):
                ats, rt = self.ctx.callables[n.func.id]
                args = [self.e(a) for a in n.args]
                if len(n.keywords) == 1 and n.keywords[0].arg is None and _name(n.keywords[0].value) \
                        and n.keywords[0].value.id == self.ctx.kwarg:
                    args.append(self.e(n.keywords[0].value))
                elif n.keywords:
                    raise TranslateError("keyword arguments of a callable parameter")
                if [t for _, t in args] != list(ats):
                    raise TranslateError(f"call of {n.func.id} with {[t for _, t in args]}, declared {ats}")
                return go("(" + " ".join([n.func.id] + [a for a, _ in args]) + ")", rt)
        return super().emit(items, cont)

    # ------------------------------------------------------------------ statements
    def narrow16(self, test):
        """(kind, name, …) for the narrowing tests added here"""
        h = _hasattr_len(test)
        if h is not None and self.env.get(h) == NUMSEQ:
            return ("numseq", h)
        if _callname(test) == "isinstance" and len(test.args) == 2 and not test.keywords and _name(test.args[0]) \
                and _name(test.args[1]):
            x, cls = test.args[0].id, test.args[1].id
            if self.ctx.maybe_objs.get(x) == cls and is_opt(self.env.get(x, "")):
                g = self.ctx.globals.get(cls)
                if not (inspect.isclass(g) and g.__name__ == cls):
                    raise TranslateError(f"{cls} is not a class of the module now")
                return ("inst", x, cls)
        return None

    def _has_narrow(self, test):
        return any(self.narrow16(x) is not None for x in ast.walk(test) if isinstance(x, ast.Call))

    def block(self, stmts, tail=None):
        if not stmts:
            return super().block(stmts, tail)
        s, rest = stmts[0], stmts[1:]
        self._rest = rest
        if isinstance(s, ast.Pass):
            return self.block(rest, tail)
        if isinstance(s, ast.Try) and not s.orelse and not s.finalbody and s.handlers \
                and all(_reraising_handler(h) for h in s.handlers):
            return self.block(list(s.body) + rest, tail)
        if isinstance(s, ast.If) and self._has_narrow(s.test):
            test = s.test
            if isinstance(test, ast.BoolOp) and isinstance(test.op, ast.Or):
                first, others = test.values[0], test.values[1:]
                rest_t = others[0] if len(others) == 1 else ast.BoolOp(op=ast.Or(), values=others)
                inner = ast.If(test=rest_t, body=s.body, orelse=s.orelse)
                return self.block([ast.If(test=first, body=s.body, orelse=[inner])] + rest, tail)
            if isinstance(test, ast.UnaryOp) and isinstance(test.op, ast.Not):
                return self.block([ast.If(test=test.operand, body=s.orelse or [ast.Pass()], orelse=s.body)] + rest, tail)
            nar = self.narrow16(test)
            if nar is None:
                raise TranslateError("a narrowing test below and / a compound condition")
            a_stmts = list(s.body) + ([] if tr._ends(s.body) else rest)
            b_stmts = list(s.orelse or []) + ([] if (s.orelse and tr._ends(s.orelse)) else rest)
            if nar[0] == "numseq":
                x = nar[1]
                a = self.sub({x: LNU}).block(a_stmts, tail)
                b = self.sub({x: NU}).block(b_stmts, tail)
                return f"(match {x} with\n  | OQ.Py.NumOrSeq.seq {x} =>\n  {a}\n  | OQ.Py.NumOrSeq.num {x} =>\n  {b})"
            _k, x, cls = nar
            a = self.sub({x: opt_elem(self.env[x])}, {x: cls}).block(a_stmts, tail)
            b = self.block(b_stmts, tail)
            return f"(match {x} with\n  | some {x} =>\n  {a}\n  | none =>\n  {b})"
        return super().block(stmts, tail)


def translate_function(fn, lean_name, arg_types, ret, partial=False, attrs=None, local_types=None, known=None,
                       ext=None, empties=None, self_in=None, self_out=None, self_out_types=None, value=True, objects=None,
                       param_objs=None, maybe_objs=None, callables=None, kwarg_type=None, tyvars=None, **_other):
    """as translate_t14.translate_function, rendered by T16.  `maybe_objs`: parameter -> class (the parameter has type `Option <state>`);
    `callables`: parameter -> ([argument types], result type) of a function parameter that may raise; `kwarg_type`: the type of the
    `**kwargs` parameter; `tyvars`: further implicit type variables of the definition."""
    fn = getattr(fn, "__wrapped__", fn)
    fn = getattr(fn, "__func__", fn)
    src = textwrap.dedent(inspect.getsource(fn))
    node = ast.parse(src).body[0]
    if not isinstance(node, ast.FunctionDef):
        raise TranslateError("not a function")
    if node.args.vararg or node.args.kwonlyargs or (node.args.kwarg and kwarg_type is None):
        raise TranslateError("*args / **kwargs / keyword-only parameters")
    if kwarg_type is not None and not node.args.kwarg:
        raise TranslateError("a **kwargs parameter is declared, the function has none")
    names = [a.arg for a in node.args.args]
    has_self = bool(names) and names[0] in ("self", "cls")
    pnames = names[1:] if has_self else names
    if len(pnames) != len(arg_types):
        raise TranslateError("arity")
    self_in = dict(self_in or {})
    self_out = list(self_out or [])
    self_out_types = list(self_out_types or [])
    full_ret = t4.ret_type(ret, self_out_types, value)
    ctx = t4.Ctx(fn, partial, known, ext, empties, self_in, self_out, value, objects)
    ctx.value_type = ret
    ctx.params = list(pnames)
    ctx.tmp_objs = {}
    ctx.assert_ok = False
    ctx.maybe_objs = dict(maybe_objs or {})
    ctx.callables = dict(callables or {})
    ctx.kwarg = node.args.kwarg.arg if node.args.kwarg else None
    env = {"self_" + a: t for a, t in self_in.items()}
    env.update(dict(zip(pnames, arg_types)))
    binders_extra = ""
    if ctx.kwarg:
        env[ctx.kwarg] = kwarg_type
        binders_extra = f" ({ctx.kwarg} : {kwarg_type})"
        # the **kwargs value may only be passed on
        for x in ast.walk(node):
            if _name(x, ctx.kwarg) and not any(isinstance(c, ast.Call) and any(k.arg is None and k.value is x for k in c.keywords)
                                               for c in ast.walk(node)):
                raise TranslateError("the **kwargs value is used other than by passing it on")
    for p, (ats, rt) in ctx.callables.items():
        if p not in pnames:
            raise TranslateError(f"callable parameter {p}")
        want = " → ".join([tr.paren(a) for a in ats] + [f"Except OQ.Py.Exc4 {tr.paren(rt)}"])
        if env[p] != want:
            raise TranslateError(f"callable parameter {p}: declared {env[p]}, expected {want}")
    T.KNOWN = {}
    lits = sorted((x.value.lineno, x.value.col_offset) for x in ast.walk(node)
                  if isinstance(x, (ast.Assign, ast.AnnAssign)) and x.value is not None
                  and ((isinstance(x.value, (ast.List, ast.Tuple)) and not x.value.elts)
                       or (isinstance(x.value, ast.Dict) and not x.value.keys)))
    if len(lits) != len(ctx.empties):
        raise TranslateError(f"{len(lits)} empty literals in the source, {len(ctx.empties)} types declared")
    ctx.empty_types = dict(zip(lits, ctx.empties))
    for kname, k in ctx.known.items():
        sp = k.get("spec")
        if sp is not None:
            try:
                opt = {x: y for x, y in sp[5].items() if x not in ("translator", "driver", "imports")}
                sp[5]["translator"](sp[0], sp[1], sp[2], sp[3], sp[4], **opt)
            except Exception as e:
                raise TranslateError(f"the callee {kname} is not translatable now ({e})")
    objs = {}
    for p, cls in (param_objs or {}).items():
        if p not in pnames or cls not in ctx.objects or len(ctx.objects[cls]) != 1:
            raise TranslateError(f"object parameter {p}")
        objs[p] = cls
    for p, cls in ctx.maybe_objs.items():
        if p not in pnames or cls not in ctx.objects or len(ctx.objects[cls]) != 1 or not is_opt(env[p]):
            raise TranslateError(f"optional object parameter {p}")
    body = T16(env, ret, ctx, objs).block(list(node.body))
    pre = "{ν : Type} [OQ.Py.PyNum ν] "
    if tyvars:
        pre += "{" + " ".join(tyvars) + " : Type} "
    pre += "".join(f"({lean} : {t}) " for _, lean, t in (ext or []))
    binders = " ".join([f"(self_{a} : {t})" for a, t in self_in.items()] + [f"({n} : {t})" for n, t in zip(pnames, arg_types)])
    binders += binders_extra
    where = f"{inspect.getsourcefile(fn).split('/src/')[-1]}:{fn.__qualname__}"
    rt = f"Except OQ.Py.Exc4 ({full_ret})" if partial else full_ret
    return f"/-- translated from `{where}` -/\ndef {lean_name} {pre}{binders} : {rt} :=\n  {body}\n"
