"""Validation of the translator on functions over OPAQUE objects (harness/translate_t3.py, specs with a "t3" option).

Such definitions cannot be fed JSON values directly: their opaque types and externals must be INSTANTIATED.  For every function
`GLUE[name]` gives
  * `lean`: the body of a driver handler (generated into lean/OQ/Generated/TranslatedDriverT3.lean, compiled into `oqdriver`, prop tag
    "TRT3") that instantiates the opaque types with integers / JSON terms and the externals with table look-ups and FREE
    constructors (`circuit + op` appends to a list, `gate(q)` builds the term ["op", gate, q], …) and runs the TRANSLATED definition;
  * `gen`: rng -> (request payload, thunk) where the thunk calls the PYTHON FUNCTION ITSELF (imported from the tree under test, its
    module globals `Circuit`, `I`, `GateOperation`, … replaced by stand-ins through a copy of the function object – the module is
    not modified) on stand-in objects with the same behaviour, and returns the same JSON value (`None` = the Python raises).
A disagreement means the translator misrenders the code: a fault of this machinery (INTERNAL-ERROR, exit 2), never a verdict
about /repo.  A function that is not translatable now is skipped (its handler is not generated).  Python calls are guarded by a
CPU-time limit and the recursion limit (a mutated recursive function may not terminate): such cases are not compared.
"""
import json
import random
import signal
import types
import warnings

from . import common

PROP_TAG = "TRT3"


# ------------------------------------------------------------------ Python stand-ins (free terms)
class Term:
    """an opaque object that is just a JSON term"""

    def __init__(self, t):
        self.t = t


def J(x):
    """JSON value of a stand-in / container of stand-ins"""
    if isinstance(x, (Term, Gate, Fac, Circ, Time)):
        return J(x.t)
    if isinstance(x, (list, tuple)):
        return [J(v) for v in x]
    if isinstance(x, range):
        return list(x)
    if hasattr(x, "tolist"):
        return J(x.tolist())
    return x


class Gate:
    """gate stand-in: `g(q)` / `g(*qs)` -> operation term, `g.controlled(k)`, `g.dagger`, `g.name`, `g.wrapped_gate`"""

    def __init__(self, t):
        self.t = t

    def __call__(self, *qs):
        return Op(["op", self.t, list(qs)], self, qs)

    def controlled(self, k):
        return Gate(["ctl", self.t, k])

    @property
    def dagger(self):
        return Gate(["dg", self.t])


class Op(Term):
    """operation stand-in with `.gate`, `.qubit_indices`"""

    def __init__(self, t, gate=None, qs=()):
        self.t, self.gate, self.qubit_indices = t, gate, tuple(qs)


class NotAnOp(Term):
    """an operation that is not a GateOperation: no `.gate`"""


class Fac:
    """gate_factory stand-in: `f(*row)` and `f(qubit)` are indistinguishable in Python – both give the gate term ["G", f, [args]]"""

    def __init__(self, t):
        self.t = t

    def __call__(self, *args):
        return Gate(["G", self.t, J(list(args))])


class Circ:
    """circuit stand-in with VALUE semantics: `c + x` returns a new object (no __iadd__), `n_qubits` moves by 1000 per addition so
    that reading it from the wrong object shows"""

    def __init__(self, operations=None, n_qubits=0):
        self.operations = list(operations) if operations is not None else []
        self.n_qubits = n_qubits

    def __add__(self, other):
        if isinstance(other, Circ):
            return Circ(self.operations + other.operations, self.n_qubits + 1000)
        return Circ(self.operations + [other], self.n_qubits + 1000)

    @property
    def t(self):
        return [J(self.operations), self.n_qubits]


class Time:
    def __init__(self, t):
        self.t = t

    def __truediv__(self, n):
        return Time(["div", self.t, n])


class Rule:
    def __init__(self, r, pred, prod, style):
        self.r, self.pred, self.prod, self.style = r, pred, prod, style

    def predicate(self, op):
        return self.pred[self.r][op]

    def production(self, op):
        out = list(self.prod[self.r][op])
        return [out, tuple(out), iter(out), reversed(out[::-1])][self.style % 4]  # any Iterable


def patched(fn, **globs):
    """a copy of the function object `fn` whose module-level names `globs` are replaced (the module itself is untouched)"""
    fn = getattr(fn, "__wrapped__", fn)
    return types.FunctionType(fn.__code__, {**fn.__globals__, **globs}, fn.__name__, fn.__defaults__, fn.__closure__)


# ------------------------------------------------------------------ generators: rng -> (payload, thunk)
def _rules(r, n_ops=6):
    n_rules = r.randrange(0, 4)
    pred = [[r.random() < 0.5 for _ in range(n_ops)] for _ in range(n_rules)]
    prod = [[[r.randrange(n_ops) for _ in range(r.randrange(0, 4))] for _ in range(n_ops)] for _ in range(n_rules)]
    order = [r.randrange(n_rules) for _ in range(r.randrange(0, 5))] if n_rules else []
    style = r.randrange(4)
    objs = [Rule(k, pred, prod, style + i) for i, k in enumerate(order)]
    return pred, prod, order, (objs if r.random() < 0.5 else tuple(objs))


def _gen_decompose_operation(fn, r):
    pred, prod, order, objs = _rules(r)
    op = r.randrange(6)
    return {"pred": pred, "prod": prod, "rules": order, "op": op}, lambda: list(fn(op, objs))


def _gen_decompose_operations(fn, r):
    pred, prod, order, objs = _rules(r)
    ops = [r.randrange(6) for _ in range(r.randrange(0, 5))]
    it = ops if r.random() < 0.5 else iter(list(ops))
    return {"pred": pred, "prod": prod, "rules": order, "ops": ops}, lambda: list(fn(it, objs))


def _gen_decompose_circuit(fn, r):
    pred, prod, order, objs = _rules(r)
    ops = [r.randrange(6) for _ in range(r.randrange(0, 5))]
    n = r.randrange(0, 9)
    f = patched(fn, Circuit=lambda operations, n_qubits: Term(["Circuit", list(operations), n_qubits]))
    return {"pred": pred, "prod": prod, "rules": order, "ops": ops, "n": n}, lambda: J(f(Circ(ops, n), objs))


def _gate_json(r, depth=0):
    name = r.choice(["U3", "U3", "RZ", "X", "Control", "U3_Dagger"])
    ctrl = r.random() < 0.4 and depth < 2
    return {"name": "Control" if ctrl else name, "ctrl": ctrl, "wrapped": _gate_json(r, depth + 1) if ctrl or r.random() < 0.2 else None}


def _gen_u3_predicate(fn, r):
    class G:
        pass

    class CG(G):
        pass

    class GOp:
        pass

    def mk(gj):
        g = (CG if gj["ctrl"] else G)()
        g.name = gj["name"]
        if gj["wrapped"] is not None:
            g.wrapped_gate = mk(gj["wrapped"])
        return g
    isop = r.random() < 0.8
    gj = _gate_json(r)
    if isop:
        o = GOp()
        o.gate = mk(gj)
    else:
        o = NotAnOp(None)
    f = patched(fn, GateOperation=GOp, ControlledGate=CG)
    return {"op": {"isop": isop, "gate": gj}}, lambda: bool(f(None, o))


def _qubits(r):
    return [r.randrange(0, 12) for _ in range(r.randrange(0, 7))]


def _rows(r, k):
    import numpy as np
    rows = [[r.randrange(-3, 4) for _ in range(r.choice([0, 1, 3]))] for _ in range(k)]
    width = len(rows[0]) if rows else 0
    rows = [row[:width] + [0] * (width - len(row)) for row in rows]
    return rows, (np.array(rows, dtype=int).reshape(len(rows), width) if r.random() < 0.5 else rows)


def _gen_apply_gate_to_qubits(fn, r):
    qs = _qubits(r)
    order = list(set(qs))
    mode = r.randrange(3)
    k = len(order) if mode != 2 else r.randrange(0, 6)
    rows, pyrows = (None, None) if mode == 0 else _rows(r, k)
    c0 = [["old", i] for i in range(r.randrange(0, 3))]
    coll = qs if r.random() < 0.6 else tuple(qs)
    return ({"c": c0, "qs": qs, "sets": [[qs, order]], "f": "F", "rows": rows},
            lambda: J(fn(Circ([Term(x) for x in c0], 0), coll, Fac("F"), pyrows).operations))


def _gen_create_layer_of_gates(fn, r):
    n = r.randrange(-1, 7)
    rng_l = list(range(n))
    order = list(set(rng_l))
    mode = r.randrange(3)
    k = len(order) if mode != 2 else r.randrange(0, 6)
    rows, pyrows = (None, None) if mode == 0 else _rows(r, k)
    f = patched(fn, Circuit=lambda: Circ([], 0))
    return ({"n": n, "sets": [[rng_l, order]], "f": "F", "rows": rows},
            lambda: J(f(n, Fac("F"), pyrows).operations))


def _gen_add_ancilla_register(fn, r):
    c0 = [["old", i] for i in range(r.randrange(0, 3))]
    n0, k = r.randrange(0, 9), r.randrange(-1, 6)
    f = patched(fn, I=lambda q: Term(["I", q]))
    return {"c": c0, "n": n0, "k": k}, lambda: J(f(Circ([Term(x) for x in c0], n0), k))


def _ops(r):
    out = []
    for _ in range(r.randrange(0, 5)):
        g = ["g", r.randrange(5)]
        qs = r.sample(range(8), r.randrange(1, 4))
        out.append((g, qs))
    return out


def _gen_circuit_controlled(fn, r):
    ops = _ops(r)
    ci = r.randrange(0, 9)
    f = patched(fn, Circuit=lambda operations: Term(["Circuit", J(list(operations))]))
    self_ = Circ([Op(None, Gate(g), qs) for g, qs in ops], 0)
    return {"ops": [{"gate": g, "qs": qs} for g, qs in ops], "ci": ci}, lambda: J(f(self_, ci))


def _gen_circuit_inverse(fn, r):
    ops = _ops(r)
    n = r.randrange(0, 9)
    bad = [r.random() < 0.1 for _ in ops]

    class SC(Circ):
        def __init__(self, operations=None, n_qubits=None):
            super().__init__(operations, n_qubits)

    class GOp(Op):
        pass

    class NotG(Op):
        pass
    f = patched(fn, _gates=types.SimpleNamespace(GateOperation=GOp))
    self_ = SC([(NotG if b else GOp)(None, Gate(g), qs) for (g, qs), b in zip(ops, bad)], n)
    return ({"ops": [{"gate": g, "qs": qs, "isop": not b} for (g, qs), b in zip(ops, bad)], "n": n},
            lambda: J(f(self_)))


def _gen_generate_circuit_sequence(fn, r):
    rep = [["r", i] for i in range(r.randrange(0, 3))]
    dif = [["d", i] for i in range(r.randrange(0, 3))]
    length, pos = r.randrange(-1, 6), r.randrange(-2, 7)
    f = patched(fn, Circuit=lambda operations: Term(["Circuit", J(list(operations))]))
    return ({"rep": rep, "dif": dif, "len": length, "pos": pos},
            lambda: J(f(Circ([Term(x) for x in rep]), Circ([Term(x) for x in dif]), length, pos)))


def _gen_time_evolution(fn, r):
    terms = [r.randrange(9) for _ in range(r.randrange(0, 4))]
    n = r.randrange(-1, 4)
    method = r.choice(["Trotter", "Trotter", "Trotter", "Suzuki", ""])
    ham = types.SimpleNamespace(terms=terms)
    f = patched(fn, Circuit=lambda: Circ([], 0),
                time_evolution_for_term=lambda term, t: Circ([Term(["evo", term, J(t)])], 0))
    return {"terms": terms, "n": n, "method": method, "time": "t"}, lambda: J(f(ham, Time("t"), method, n).operations)


# ------------------------------------------------------------------ Lean handler bodies (instances of the opaque parameters)
_RULE_T = ('let pred ← listOfJson (listOfJson boolOfJson) (← field j "pred"); '
           'let prod ← listOfJson (listOfJson (listOfJson intOfJson)) (← field j "prod"); '
           'let rules ← listOfJson intOfJson (← field j "rules"); ')
_APPLY = ('(setOrder sets) (fun (f : Json) (p : Json) => tag "G" [f, p]) (fun (g : Json) (q : Int) => tag "op" [g, jis [q]]) '
          '(fun (f : Json) (q : Int) => tag "G" [f, jis [q]]) (fun (c : List Json) (o : Json) => c ++ [o])')
_ROWS = ('let sets ← listOfJson setEntry (← field j "sets"); let f ← field j "f"; '
         'let rows ← (match fieldOpt j "rows" with | none => pure none | some v => do pure (some (← arrOfJson v))); ')
_OPS = ('(fun (o : Json) => getF o "gate") (fun (o : Json) => getInts o "qs")')

GLUE = {
    "decompose_operation": {
        "gen": _gen_decompose_operation,
        "lean": _RULE_T + 'let op ← intOfJson (← field j "op"); '
        'pure (intsToJson (Translated.decompose_operation (predT pred) (prodT prod) op rules))'},
    "decompose_operations": {
        "gen": _gen_decompose_operations,
        "lean": _RULE_T + 'let ops ← listOfJson intOfJson (← field j "ops"); '
        'pure (intsToJson (Translated.decompose_operations (predT pred) (prodT prod) ops rules))'},
    "decompose_orquestra_circuit": {
        "gen": _gen_decompose_circuit,
        "lean": _RULE_T + 'let ops ← listOfJson intOfJson (← field j "ops"); let n ← intOfJson (← field j "n"); '
        'pure (Translated.decompose_orquestra_circuit (predT pred) (prodT prod) (fun (c : List Int × Int) => c.1) (fun c => c.2) '
        '(fun ops n => tag "Circuit" [jis ops, ji n]) (ops, n) rules)'},
    "u3_predicate": {
        "gen": _gen_u3_predicate,
        "lean": 'let o ← field j "op"; '
        'pure (Json.bool (Translated.u3_predicate (fun (o : Json) => getB o "isop") (fun (g : Json) => getB g "ctrl") '
        '(fun (o : Json) => getF o "gate") (fun (g : Json) => (getS g "name").toList) (fun (g : Json) => getF g "wrapped") () o))'},
    "apply_gate_to_qubits": {
        "gen": _gen_apply_gate_to_qubits,
        "lean": _ROWS + 'let c ← arrOfJson (← field j "c"); let qs ← listOfJson intOfJson (← field j "qs"); '
        f'pure (optJ jarr (Translated.apply_gate_to_qubits {_APPLY} c qs f rows))'},
    "create_layer_of_gates": {
        "gen": _gen_create_layer_of_gates,
        "lean": _ROWS + 'let n ← intOfJson (← field j "n"); '
        f'pure (optJ jarr (Translated.create_layer_of_gates {_APPLY} [] n f rows))'},
    "add_ancilla_register": {
        "gen": _gen_add_ancilla_register,
        "lean": 'let c ← arrOfJson (← field j "c"); let n ← intOfJson (← field j "n"); let k ← intOfJson (← field j "k"); '
        'pure ((fun (r : List Json × Int) => jarr [jarr r.1, ji r.2]) (Translated.add_ancilla_register '
        '(fun (c : List Json × Int) => c.2) (fun q => tag "I" [ji q]) (fun c o => (c.1 ++ [o], c.2 + 1000)) (c, n) k))'},
    "circuit_controlled": {
        "gen": _gen_circuit_controlled,
        "lean": 'let ops ← arrOfJson (← field j "ops"); let ci ← intOfJson (← field j "ci"); '
        f'pure (Translated.circuit_controlled (fun (c : Json) => (c.getArr?.toOption.getD #[]).toList) {_OPS} '
        '(fun (g : Json) (k : Int) => tag "ctl" [g, ji k]) '
        '(fun (g : Json) (qs : List Int) => tag "op" [g, jis qs]) (fun ops => tag "Circuit" [jarr ops]) (jarr ops) ci)'},
    "circuit_inverse": {
        "gen": _gen_circuit_inverse,
        "lean": 'let ops ← arrOfJson (← field j "ops"); let n ← intOfJson (← field j "n"); '
        'pure (optJ (fun (r : List Json × Int) => jarr [jarr r.1, ji r.2]) (Translated.circuit_inverse '
        '(fun (c : List Json × Int) => c.1) (fun c => c.2) (fun (o : Json) => getB o "isop") '
        f'{_OPS} (fun (g : Json) => tag "dg" [g]) (fun (g : Json) (qs : List Int) => tag "op" [g, jis qs]) '
        '(fun ops n => (ops, n)) (ops, n)))'},
    "generate_circuit_sequence": {
        "gen": _gen_generate_circuit_sequence,
        "lean": 'let rep ← arrOfJson (← field j "rep"); let dif ← arrOfJson (← field j "dif"); '
        'let len ← intOfJson (← field j "len"); let pos ← intOfJson (← field j "pos"); '
        'pure (optJ id (Translated.generate_circuit_sequence (fun (c : Json) => (c.getArr?.toOption.getD #[]).toList) '
        '(fun ops => tag "Circuit" [jarr ops]) (jarr rep) (jarr dif) len pos))'},
    "time_evolution": {
        "gen": _gen_time_evolution,
        "lean": 'let terms ← listOfJson intOfJson (← field j "terms"); let n ← intOfJson (← field j "n"); '
        'let method ← strOfJson (← field j "method"); let time ← field j "time"; '
        'pure (optJ jarr (Translated.time_evolution (fun (h : List Int) => h) (fun (t : Json) (n : Int) => tag "div" [t, ji n]) '
        '(fun (term : Int) (t : Json) => [tag "evo" [ji term, t]]) ([] : List Json) (fun a b => a ++ b) terms time method.toList n))'},
}

_HEADER = '''open Lean OQ.Proto
namespace OQ.TRT3.Driver
open OQ.Generated
def tag (f : String) (args : List Json) : Json := Json.arr (Json.str f :: args).toArray
def ji (n : Int) : Json := Json.num (JsonNumber.fromInt n)
def jis (l : List Int) : Json := Json.arr (l.map ji).toArray
def jarr (l : List Json) : Json := Json.arr l.toArray
def optJ {α : Type} (f : α → Json) : Option α → Json
  | none => Json.null
  | some a => f a
def getF (j : Json) (k : String) : Json := (j.getObjVal? k).toOption.getD Json.null
def getB (j : Json) (k : String) : Bool := ((getF j k).getBool?).toOption.getD false
def getS (j : Json) (k : String) : String := ((getF j k).getStr?).toOption.getD ""
def getInts (j : Json) (k : String) : List Int :=
  (((getF j k).getArr?).toOption.getD #[]).toList.map (fun x => (x.getInt?).toOption.getD 0)
def predT (t : List (List Bool)) (r o : Int) : Bool := (t.getD r.toNat []).getD o.toNat false
def prodT (t : List (List (List Int))) (r o : Int) : List Int := (t.getD r.toNat []).getD o.toNat []
def setEntry (j : Json) : Except String (List Int × List Int) := do
  match ← arrOfJson j with
  | [a, b] => pure (← listOfJson intOfJson a, ← listOfJson intOfJson b)
  | _ => throw "set table entry"
/-- the iteration order of `set(l)` as observed in CPython by the harness for exactly this `l` -/
def setOrder (tbl : List (List Int × List Int)) (l : List Int) : List Int :=
  match tbl.find? (fun p => p.1 == l) with
  | some p => p.2
  | none => l.eraseDups
'''


def _specs_t3():
    from . import tables
    out = []
    for prop, lst in sorted(tables._specs().items()):
        for spec in lst:
            if len(spec) > 5 and "t3" in spec[5] and spec[1] in GLUE:
                out.append((prop, spec))
    return out


def _translatable(spec):
    from . import translate as tr
    fn, name, args, ret, partial, opt = spec
    try:
        tr.translate_function(fn, name, args, ret, partial, **opt)
        return True
    except Exception:
        return False


def driver_text():
    """lean/OQ/Generated/TranslatedDriverT3.lean: handlers for the opaque-object definitions that are translatable now"""
    good = [(prop, spec) for prop, spec in _specs_t3() if _translatable(spec)]
    out = ["-- generated by harness/translated_check_opaque.py — do not edit", "import OQ.Exec.Proto"]
    out += [f"import OQ.Generated.Translated{p}" for p in sorted({p for p, _ in good})]
    out += [_HEADER, "def handle (op : String) (j : Json) : Except String Json := do", "  match op with"]
    for _, spec in good:
        out.append(f'  | "{spec[1]}" => {GLUE[spec[1]]["lean"]}')
    out += ['  | _ => throw s!"no translated definition {op}"', "", "end OQ.TRT3.Driver"]
    return "\n".join(out) + "\n"


class _CpuTimeout(Exception):
    pass


def _guarded(thunk, seconds=2.0):
    """run a Python thunk under a CPU-time limit (SIGVTALRM; run.py owns SIGALRM); returns (ok, value)"""
    def onalarm(signum, frame):
        raise _CpuTimeout()
    old = signal.signal(signal.SIGVTALRM, onalarm)
    signal.setitimer(signal.ITIMER_VIRTUAL, seconds)
    try:
        with warnings.catch_warnings():
            warnings.simplefilter("ignore")  # the `warn(...)` of apply_gate_to_qubits (skipped by the translation)
            return True, thunk()
    except (AssertionError, ValueError):
        return True, None  # the documented exceptions of the translated functions: `none`
    except _CpuTimeout:
        return False, "cpu-time limit"
    except RecursionError:
        return False, "recursion limit"
    except Exception as e:  # outside the domain of the stand-ins (e.g. a mutated function touching other attributes)
        return False, repr(e)[:100]
    finally:
        signal.setitimer(signal.ITIMER_VIRTUAL, 0)
        signal.signal(signal.SIGVTALRM, old)


def run(seed=0, per_fn=40, only=None):
    """returns (comparisons, disagreements, untranslatable names, not-compared count)"""
    common.use_repo()
    rng = random.Random(f"translated-opaque:{seed}")
    reqs, want, where, skipped, dropped = [], [], [], [], 0
    for prop, spec in _specs_t3():
        if only and prop != only:
            continue
        fn, name = spec[0], spec[1]
        if not _translatable(spec):
            skipped.append(name)
            continue
        for _ in range(per_fn):
            payload, thunk = GLUE[name]["gen"](fn, rng)
            ok, val = _guarded(thunk)
            if not ok:
                dropped += 1
                continue
            reqs.append((name, payload))
            want.append(val)
            where.append(name)
    drv = common.Driver(PROP_TAG)
    if not drv.available():
        return 0, ["model driver not built"], skipped, dropped
    got = drv.run(reqs) if reqs else []
    bad = []
    for (name, payload), w, g in zip(reqs, want, got):
        if json.loads(json.dumps(w)) != g:
            bad.append(f"{name} {json.dumps(payload)[:300]}: python {json.dumps(w)[:200]}, translated definition {json.dumps(g)[:200]}")
    return len(reqs), bad, skipped, dropped


if __name__ == "__main__":
    n, bad, sk, dr = run()
    print(n, "comparisons;", len(bad), "disagreements; untranslatable:", sk, "; not compared:", dr)
    for b in bad[:20]:
        print("  ", b)
