"""Validation of the T16 translation (harness/translate_t16.py): every definition of harness/tables_t16.py that translates now is
compiled into the model driver (generated glue OQ/Generated/TranslatedDriverT16.lean, property tag "TRT16") and compared with the
PYTHON FUNCTION IT WAS TRANSLATED FROM on seeded inputs – the real functions of the tree under test, on real
`MeasurementOutcomeDistribution` objects (their `distribution_dict` set directly, so that un-normalised / empty / mixed-width
dictionaries are reached too), with the real `numpy` and `math`.

Numeric values run at the IEEE double `Float` on the Lean side (`instance : PyNum Float` in the glue), `np.exp` / `math.log` are the C
library's `exp` / `log`, `math.isclose` is `floatIsClose`, the iteration order of the set of outcomes is the order of first occurrence
(Python's is the hash order).  Doubles travel exactly (mantissa / exponent in, the 64 bits out).  Because the summation order differs
(set order; numpy's pairwise `dot`; Python 3.12's compensated `sum`), values are compared up to a relative error of 1e-9 (absolute
1e-12); exception CLASSES are compared exactly.  `evaluate_distribution_distance` receives a stand-in distance function with the
same behaviour on both sides (a value computed from the two dictionaries, or an exception selected by the keyword argument `code`).
A disagreement is a fault of translator / prelude (INTERNAL-ERROR, exit 2 in run.py), never a verdict about /repo."""
import contextlib
import io
import math
import random
import struct
import warnings

from . import common

TAG = "TRT16"


def t16_specs():
    from . import tables_t16
    return [("C17", sp) for sp in tables_t16.specs()]


def _translatable(sp):
    from . import tables_t16
    try:
        tables_t16.translate(sp)
        return True
    except Exception:
        return False


GLUE = r'''
def strOf (j : Json) : Except String (List Char) := do pure (← strOfJson j).toList
def intJ (n : Int) : Json := Json.str (toString n)
def pairOf {α β : Type} (f : Json → Except String α) (g : Json → Except String β) (j : Json) : Except String (α × β) := do
  match (← arrOfJson j) with
  | [a, b] => pure (← f a, ← g b)
  | _ => throw "expected a pair"
def optOf {α : Type} (f : Json → Except String α) (j : Json) : Except String (Option α) :=
  match j with
  | .null => pure none
  | _ => do pure (some (← f j))
/-- a double as [mantissa, exponent] (exact) -/
def floatOf (j : Json) : Except String Float := do
  match (← arrOfJson j) with
  | [m, e] => pure (Float.scaleB (Float.ofInt (← intOfJson m)) (← intOfJson e))
  | _ => throw "expected [mantissa, exponent]"
/-- a double as its 64 bits -/
def floatJ (x : Float) : Json := Json.str (toString x.toBits.toNat)
def excJ : OQ.Py.Exc4 → Json
  | .runtime => "runtime"
  | .value => "value"
  | .index => "index"
  | .key => "key"
  | .type => "type"
  | .zeroDiv => "zeroDiv"
def exceptJ {α : Type} (f : α → Json) : Except OQ.Py.Exc4 α → Json
  | .ok a => Json.mkObj [("ok", f a)]
  | .error e => Json.mkObj [("err", excJ e)]
instance : OQ.Py.PyNum Float where
  beq a b := a == b
  le a b := decide (a ≤ b)
  lt a b := decide (a < b)
  intCast := Float.ofInt
/-- `math.isclose(a, b)` (rel_tol = 1e-9, abs_tol = 0) on doubles -/
def floatIsClose (a b : Float) : Bool := a == b || decide ((a - b).abs ≤ 1e-9 * (if a.abs < b.abs then b.abs else a.abs))
def dictOf (j : Json) : Except String (OQ.Py.Dict (List Int) Float) := listOfJson (pairOf (listOfJson intOfJson) floatOf) j
def numOrSeqOf (j : Json) : Except String (OQ.Py.NumOrSeq Float) := do
  match j.getObjVal? "n" with
  | .ok x => pure (OQ.Py.NumOrSeq.num (← floatOf x))
  | .error _ => pure (OQ.Py.NumOrSeq.seq (← listOfJson floatOf (← field j "s")))
def matJ (m : List (List Float)) : Json := Json.arr ((m.map (fun r => Json.arr ((r.map floatJ).toArray))).toArray)
/-- the stand-in distance function: selected by the keyword argument `code` -/
def standIn (p q : OQ.Py.Dict (List Int) Float) (code : Int) : Except OQ.Py.Exc4 Float :=
  if code == 1 then .error .value else if code == 2 then .error .zeroDiv else if code == 3 then .error .runtime
  else .ok (OQ.Py.sumNum (OQ.Py.dictValues p) * 2 - OQ.Py.sumNum (OQ.Py.dictValues q) + Float.ofInt ((p.length : Nat) : Int))
'''

CALLS = {
    "compute_rbf_kernel": ('let x ← listOfJson intOfJson (← field j "a0"); let y ← listOfJson intOfJson (← field j "a1"); '
                           'let s ← floatOf (← field j "a2"); '
                           'pure (exceptJ matJ (Translated.compute_rbf_kernel (ν := Float) Float.exp x y s))'),
    "compute_multi_rbf_kernel": ('let x ← listOfJson intOfJson (← field j "a0"); let y ← listOfJson intOfJson (← field j "a1"); '
                                 'let s ← listOfJson floatOf (← field j "a2"); '
                                 'pure (exceptJ matJ (Translated.compute_multi_rbf_kernel (ν := Float) Float.exp x y s))'),
    "compute_mmd": ('let p ← dictOf (← field j "a0"); let q ← dictOf (← field j "a1"); '
                    'let par ← listOfJson (pairOf strOf numOrSeqOf) (← field j "a2"); '
                    'pure (exceptJ floatJ (Translated.compute_mmd (ν := Float) Float.exp id p q par))'),
    "compute_clipped_negative_log_likelihood": (
        'let p ← dictOf (← field j "a0"); let q ← dictOf (← field j "a1"); let par ← listOfJson (pairOf strOf floatOf) (← field j "a2"); '
        'pure (exceptJ floatJ (Translated.compute_clipped_negative_log_likelihood (ν := Float) Float.log id p q par))'),
    "compute_jensen_shannon_divergence": (
        'let p ← dictOf (← field j "a0"); let q ← dictOf (← field j "a1"); let par ← listOfJson (pairOf strOf floatOf) (← field j "a2"); '
        'pure (exceptJ floatJ (Translated.compute_jensen_shannon_divergence (ν := Float) Float.log id p q par))'),
    "mod_get_number_of_subsystems": ('let p ← dictOf (← field j "a0"); '
                                     'pure (exceptJ intJ (Translated.mod_get_number_of_subsystems (ν := Float) p))'),
    "evaluate_distribution_distance": (
        'let p ← optOf dictOf (← field j "a0"); let q ← optOf dictOf (← field j "a1"); let c ← intOfJson (← field j "a2"); '
        'pure (exceptJ floatJ (Translated.evaluate_distribution_distance (ν := Float) floatIsClose p q standIn c))'),
}


def driver_text():
    common.use_repo()
    good = [sp for _p, sp in t16_specs() if _translatable(sp)]
    out = ["-- generated by harness/translated_check_t16.py — do not edit", "import OQ.Exec.Proto"]
    if good:
        out.append("import OQ.Generated.TranslatedC17Distances")
    out += ["open Lean OQ.Proto", f"namespace OQ.{TAG}.Driver", "open OQ.Generated", GLUE,
            "def handle (op : String) (j : Json) : Except String Json := do", "  match op with"]
    for sp in good:
        out.append(f'  | "{sp[1]}" => {CALLS[sp[1]]}')
    out += ['  | _ => throw s!"no translated definition {op}"', "", f"end OQ.{TAG}.Driver"]
    return "\n".join(out) + "\n"


# ------------------------------------------------------------------------------------------------ doubles <-> JSON
def fl(x):
    x = float(x)
    if x == 0:
        return [0, 0]
    m, e = math.frexp(x)
    return [int(m * 2 ** 53), e - 53]


def unfl(s):
    return struct.unpack("<d", struct.pack("<Q", int(s)))[0]


def _unfl_deep(v):
    if isinstance(v, str):
        return unfl(v)
    return [_unfl_deep(x) for x in v]


# ------------------------------------------------------------------------------------------------ generators
def _weights(r, n):
    mode = r.choice(["norm", "norm", "norm", "free", "zeros"])
    vs = [r.choice([0.0, 0.125, 0.25, 0.5, 1.0, 0.3, 0.7, r.random()]) for _ in range(n)]
    if mode == "zeros" and n:
        vs[r.randrange(n)] = 0.0
    tot = sum(vs)
    if mode == "norm" and tot > 0:
        vs = [v / tot for v in vs]
    return vs


def _key(r, w, binary):
    return [r.randrange(2) if (binary or r.random() < 0.8) else r.choice([2, 3, 12]) for _ in range(w)]


def _dist(r, w, binary=True, empty_ok=False):
    n = r.choice([1, 1, 2, 3, 4, 5]) if not (empty_ok and r.random() < 0.1) else 0
    keys = []
    for _ in range(n):
        k = _key(r, w, binary)
        if k not in keys:
            keys.append(k)
    return [[k, v] for k, v in zip(keys, _weights(r, len(keys)))]


def _pair(r, binary_p=0.85):
    w = r.randrange(1, 5)
    binary = r.random() < binary_p
    p = _dist(r, w, binary)
    q = [list(x) for x in p] if r.random() < 0.15 else _dist(r, w, binary)
    return p, q


def _sigma(r):
    c = r.random()
    if c < 0.1:
        return None
    if c < 0.5:
        return {"n": r.choice([1.0, 0.5, 2.0, 0.1, 3.7, -1.0, 0.0, r.random() * 4 + 0.05])}
    return {"s": [r.choice([1.0, 0.5, 2.0, 0.25, 4.0, 0.0 if r.random() < 0.3 else 1.5, r.random() * 4 + 0.05])
                  for _ in range(r.randrange(1, 4))]}


def _eps(r):
    c = r.random()
    if c < 0.2:
        return None
    return r.choice([1e-9, 1e-3, 0.1, 1e-12, 0.5, 2.0, 0.0, -1.0, r.random()])


def _mod(d):
    from orquestra.quantum.distributions import _measurement_outcome_distribution as mod
    o = object.__new__(mod.MeasurementOutcomeDistribution)
    o.distribution_dict = {tuple(k): v for k, v in d}
    return o


def _enc_dist(d):
    return [[k, fl(v)] for k, v in d]


def cases(name, r):
    """(JSON arguments for the driver, thunk calling the Python function)"""
    from orquestra.quantum.distributions import mmd, clipped_negative_log_likelihood as cnll, jensen_shannon_divergence as jsd
    from orquestra.quantum.distributions import _measurement_outcome_distribution as mod
    import numpy as np
    if name in ("compute_rbf_kernel", "compute_multi_rbf_kernel"):
        x = [r.randrange(0, 2 ** r.randrange(1, 6)) for _ in range(r.randrange(0, 4))]
        y = list(x) if r.random() < 0.5 else [r.randrange(0, 16) for _ in range(r.randrange(0, 4))]
        if name == "compute_rbf_kernel":
            s = _sigma(r)
            while s is None or "n" not in s:
                s = _sigma(r)
            return ({"a0": x, "a1": y, "a2": fl(s["n"])},
                    lambda: mmd.compute_rbf_kernel(np.asarray(x, dtype=object), np.asarray(y, dtype=object), s["n"]).tolist())
        s = _sigma(r)
        while s is None or "s" not in s:
            s = _sigma(r)
        return ({"a0": x, "a1": y, "a2": [fl(v) for v in s["s"]]},
                lambda: mmd.compute_multi_rbf_kernel(np.asarray(x, dtype=object), np.asarray(y, dtype=object), s["s"]).tolist())
    if name == "compute_mmd":
        p, q = _pair(r)
        s = _sigma(r)
        par_j = [] if s is None else [["sigma", {"n": fl(s["n"])} if "n" in s else {"s": [fl(v) for v in s["s"]]}]]
        par_p = {} if s is None else {"sigma": s["n"] if "n" in s else (s["s"] if (r.random() < 0.5 or 0.0 in s["s"]) else np.array(s["s"]))}
        # (a numpy array that contains 0.0 is not passed: `1.0 / np.float64(0)` is `inf` with a warning, not ZeroDivisionError – numpy
        #  scalars are outside the modelled domain, Python floats are inside)
        if r.random() < 0.2:
            par_j.append(["other", {"n": fl(3.0)}])
            par_p["other"] = 3.0
        return ({"a0": _enc_dist(p), "a1": _enc_dist(q), "a2": par_j}, lambda: float(mmd.compute_mmd(_mod(p), _mod(q), par_p)))
    if name in ("compute_clipped_negative_log_likelihood", "compute_jensen_shannon_divergence"):
        p, q = _pair(r, binary_p=0.6)
        e = _eps(r)
        par_j = [] if e is None else [["epsilon", fl(e)]]
        par_p = {} if e is None else {"epsilon": e}
        f = cnll.compute_clipped_negative_log_likelihood if name.startswith("compute_clipped") else jsd.compute_jensen_shannon_divergence
        return ({"a0": _enc_dist(p), "a1": _enc_dist(q), "a2": par_j}, lambda: float(f(_mod(p), _mod(q), par_p)))
    if name == "mod_get_number_of_subsystems":
        p = _dist(r, r.randrange(0, 5), empty_ok=True)
        return ({"a0": _enc_dist(p)}, lambda: _mod(p).get_number_of_subsystems())
    if name == "evaluate_distribution_distance":
        w = r.randrange(1, 4)
        p = _dist(r, w, empty_ok=True)
        q = _dist(r, w if r.random() < 0.75 else r.randrange(1, 4), empty_ok=True)
        c = r.random()
        op = None if c < 0.1 else p
        oq = None if 0.07 < c < 0.17 else q
        code = r.choice([0, 0, 0, 1, 2, 3])

        def stand_in(t, m, code=0):
            if code == 1:
                raise ValueError("stand-in")
            if code == 2:
                raise ZeroDivisionError("stand-in")
            if code == 3:
                raise RuntimeError("stand-in")
            tv, mv = list(t.distribution_dict.values()), list(m.distribution_dict.values())
            st = 0.0
            for v in tv:
                st += v
            sm = 0.0
            for v in mv:
                sm += v
            return st * 2 - sm + len(tv)
        return ({"a0": None if op is None else _enc_dist(op), "a1": None if oq is None else _enc_dist(oq), "a2": code},
                lambda: float(mod.evaluate_distribution_distance("not a distribution" if op is None else _mod(op),
                                                                 7 if oq is None else _mod(oq), stand_in, code=code)))
    raise KeyError(name)


def _close(a, b):
    if isinstance(a, list) and isinstance(b, list):
        return len(a) == len(b) and all(_close(x, y) for x, y in zip(a, b))
    if isinstance(a, list) or isinstance(b, list):
        return False
    if isinstance(a, int) and isinstance(b, int):
        return a == b
    a, b = float(a), float(b)
    if math.isnan(a) or math.isnan(b):
        return math.isnan(a) and math.isnan(b)
    return a == b or abs(a - b) <= max(1e-9 * max(abs(a), abs(b)), 1e-12)


def run(seed=0, per_fn=60, only=None):
    """returns (comparisons, disagreements, untranslatable function names)"""
    common.use_repo()
    from . import translate_t4 as t4
    import builtins
    rng = random.Random(f"translated-t16:{seed}")
    excs = tuple(getattr(builtins, n) for n in t4.EXC)
    reqs, want, shown, skipped = [], [], [], []
    for prop, sp in t16_specs():
        if only and prop != only:
            continue
        name = sp[1]
        if not _translatable(sp):
            skipped.append(name)
            continue
        for _ in range(per_fn):
            args, thunk = cases(name, rng)
            try:
                with warnings.catch_warnings(), contextlib.redirect_stdout(io.StringIO()):  # (the kernels print before re-raising)
                    warnings.simplefilter("ignore")
                    w = {"ok": thunk()}
            except excs as e:
                cls = next(c for c in type(e).__mro__ if c.__name__ in t4.EXC).__name__
                w = {"err": t4.EXC[cls]}
            reqs.append((name, args))
            want.append(w)
            shown.append((name, args))
    drv = common.Driver(TAG)
    if not drv.available():
        return 0, ["model driver not built"], skipped
    got = drv.run(reqs) if reqs else []
    bad = []
    for (name, a), w, g in zip(shown, want, got):
        if isinstance(g, dict) and "ok" in g and name != "mod_get_number_of_subsystems":
            g = {"ok": _unfl_deep(g["ok"])}
        elif isinstance(g, dict) and "ok" in g:
            g = {"ok": int(g["ok"])}
        same = (("err" in w and g == w) or ("ok" in w and isinstance(g, dict) and "ok" in g and _close(g["ok"], w["ok"])))
        if not same:
            bad.append(f"{name}{a}: python {w!r}, translated definition {g!r}")
    return len(reqs), bad, skipped


if __name__ == "__main__":
    n, bad, sk = run()
    print(n, "comparisons;", len(bad), "disagreements; untranslatable:", sk)
    for b in bad[:20]:
        print("  ", b[:600])
