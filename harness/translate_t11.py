"""Extension of harness/translate_t3.py (work package T11: estimation / time evolution / U3 production; properties C15, C16, C18).

Everything of translate.py / translate_t3.py stays available (`T11` subclasses `T3`).  Added:

RAISING externals and expressions.  An external whose declared result type starts with `!` (e.g. `("ρ.run_batch_and_measure(_,_)",
  "meth_run_batch_and_measure", ["ρ", "List γ", "List (Option Int)"], "!List μ")`) may RAISE: its Lean type ends in `Option …` and
  `none` stands for "the call raises".  Before a statement is rendered its expressions are NORMALISED: every raising sub-expression –
  a call of a raising external, a call of an already translated PARTIAL function, a read of a possibly unbound variable, `xs[i]` on
  a list (when the spec sets `checked_index`: Python's IndexError / negative indices through the prelude's `indexE`), a raising local
  closure – is hoisted, in Python's evaluation order (left to right, arguments before the call), into
  `Option.bind <e> (fun __rK => …)` around the statement; the function must be declared partial.  A raising expression in a
  conditionally evaluated position (`a and <e>`, `a or <e>`) is refused; the two branches of `x if c else y` are normalised
  separately (`if c then … else …` of type `Option`).  A comprehension whose element raises is `OQ.Py.mapOpt (fun x => …) xs`
  (first exception aborts, left to right); a `for` loop whose body raises (`raise`, raising expressions) is
  `OQ.Py.foldlOpt (fun st x => …) init xs` (state as for pure loops).
CONDITIONALLY ASSIGNED variables.  A name first assigned INSIDE a loop body and read AFTER the loop is, as Python scoping has it, a
  local that may be unbound: it is carried through the loop as `Option T` (`T` declared in `local_types`), starting at `none`; an
  assignment in the body makes it `some v`; reading it while it may be unbound is a raising expression (`none` = UnboundLocalError).
Statements.  `continue` (the rest of the body is skipped: the loop state is returned as it stands); `x: T` (no effect) and `x: T = e`;
  `warnings.warn(…)` (skipped, as `warn(…)` in T3); tuple targets `a, b, c = e` for `e` of product type (projections), for `e` a list of
  opaque objects (`match e with | [a, b, c] => … | _ => none`: ValueError otherwise) and for the idiom `zip(*L)` with `L` a list of
  k-tuples (k columns; an empty `L` raises ValueError: `none`); `xs[i] = v` where `xs : List (Option T)` and `v : T` (stores `some v`;
  as in translate.py an item ASSIGNMENT is `List.set` with the documented index domain `0 <= i < len(xs)` – only subscript READS are
  checked under `checked_index`);
  local closures `def g(x): return e` (a `fun`; parameter / result types declared in `local_types` as `"κ → κ"`; the closure may raise:
  calling it is then a raising expression).
Expressions.  Comparison of opaque operands (`"ϕ>ϕ"`), float literals (`"float:1e-09"`) and module constants (`"np.pi"`) as external
  constants, `np.asarray(_)`-style module functions, `sum(xs)` of opaque numbers (`xs.foldl ext_add (ext_ofInt 0)`, externals
  `"κ+κ"` and `"int:κ"`), `None` where the declared type is `Option T`, `sorted(xs)` of a list / set of ints (prelude `sortedInts`,
  compared with CPython), `x[i]` on an opaque `x` (`"θ[_]"`), `len(x)` of an opaque `x` (`"len(_)"`), `a is not None and <e using a>`
  on an attribute `a : Option T` (`match a with | some v => <e with v> | none => false`).
An external key may carry the argument types after `@` (`"np.asarray(_)@List κ"`), so that one Python name used at several types
  becomes several parameters.
"""
import ast
import copy
import inspect
import textwrap
import warnings

from . import translate as tr
from . import translate_t3 as t3
from .translate import TranslateError, INT, BOOL, is_list, elem, list_of
from .translate_t3 import T3, Ctx, Ext, opt_of, is_opt, opt_elem, PYSET


class NeedsOption(TranslateError):
    """raised while a loop body is rendered as a pure fold and turns out to raise: the loop is re-rendered over `Option`"""


class Ext11(Ext):
    def __init__(self, key, name, args, ret):
        self.raises = ret.startswith("!")
        super().__init__(key, name, args, ret[1:] if self.raises else ret)

    def lean_type(self):
        r = opt_of(self.ret) if self.raises else self.ret
        return " → ".join([tr.paren(a) if "→" in a or "×" in a else a for a in self.args] + [r])


class Ctx11(Ctx):
    def __init__(self, fn, lean_name, names, arg_types, ret, partial, types, ext, classes, checked_index=False):
        super().__init__(fn, lean_name, names, arg_types, ret, partial, types, [], classes)
        self.all_ext = []
        self.variants = {}
        for key, name, args, r in ext:
            base = key.split("@", 1)[0]
            x = Ext11(base, name, args, r)
            if any(y.name == name for y in self.all_ext) or any(y.args == x.args for y in self.variants.get(base, [])):
                raise TranslateError(f"external {key} / {name} declared twice")
            self.all_ext.append(x)
            self.variants.setdefault(base, []).append(x)
            self.ext.setdefault(base, x)
        self.checked_index = checked_index
        self.counter = 0
        self.none_hint = None
        self.closures = {}  # name -> (argument types, result type, raises)

    def ext_args(self):
        return " ".join(x.name for x in self.all_ext)

    def fresh(self):
        self.counter += 1
        return f"__r{self.counter}"


def _names_loaded(stmts):
    out = set()
    for s in stmts:
        for n in ast.walk(s):
            if isinstance(n, ast.Name) and isinstance(n.ctx, ast.Load):
                out.add(n.id)
    return out


def _is_warnings_warn(s, glob):
    if not (isinstance(s, ast.Expr) and isinstance(s.value, ast.Call)):
        return False
    f = s.value.func
    return (isinstance(f, ast.Attribute) and f.attr == "warn" and isinstance(f.value, ast.Name) and f.value.id == "warnings"
            and glob("warnings") is warnings)


def _chain(binds, inner):
    if binds and inner == f"(some {binds[-1][0]})":  # `e >>= some` is `e`
        inner, binds = binds[-1][2], binds[:-1]
    for v, T, text in reversed(binds):
        inner = f"(Option.bind {text} (fun ({v} : {T}) =>\n  {inner}))"
    return inner


class T11(T3):
    def __init__(self, env, ret, partial, ctx, attrs=None, local_types=None, maybe=None):
        super().__init__(env, ret, partial, ctx, attrs, local_types)
        self.maybe = dict(maybe or {})  # name -> T: the variable is carried as `Option T` (it may be unbound)
        self._allow = False
        self._hit = 0

    def sub(self, extra):
        m = {k: v for k, v in self.maybe.items() if k not in extra}
        return T11({**self.env, **extra}, self.ret, self.partial, self.ctx, self.attrs, self.local_types, m)

    def with_maybe(self, extra):
        """`extra`: name -> T, variables that may be unbound from here on"""
        t = self.sub({k: opt_of(v) for k, v in extra.items()})
        t.maybe.update(extra)
        return t

    # ------------------------------------------------------------------ externals
    def use(self, key, args):
        c = self.ctx
        ts = [t for _, t in args]
        xs = c.variants.get(key)
        if not xs:
            raise TranslateError(f"undeclared external {key}")
        x = next((y for y in xs if y.args == ts), None)
        if x is None:
            raise TranslateError(f"external {key} applied to {ts}, declared {[y.args for y in xs]}")
        if x.raises:
            if not self._allow:
                raise TranslateError(f"raising external {key} in a position that is not normalised")
            self._hit += 1
        if not args:
            return x.name, x.ret
        return "(" + x.name + " " + " ".join(a for a, _ in args) + ")", x.ret

    # ------------------------------------------------------------------ expressions
    def e(self, n):
        c = self.ctx
        if isinstance(n, ast.Name) and n.id in self.maybe:
            if not self._allow:
                raise TranslateError(f"{n.id} may be unbound here (position not normalised)")
            self._hit += 1
            return n.id, self.maybe[n.id]
        if isinstance(n, ast.Constant) and isinstance(n.value, float):
            return self.use(f"float:{n.value!r}", [])
        if isinstance(n, ast.Constant) and n.value is None:
            if c.none_hint is None:
                raise TranslateError("None without a declared Option type")
            return f"(none : {c.none_hint})", c.none_hint
        if isinstance(n, ast.Attribute) and isinstance(n.value, ast.Name) and n.value.id not in self.env \
                and f"{n.value.id}.{n.attr}" in c.variants and inspect.ismodule(c.glob(n.value.id)):
            return self.use(f"{n.value.id}.{n.attr}", [])
        if isinstance(n, ast.Subscript) and not isinstance(n.slice, ast.Slice):
            v, t = self.e(n.value)
            if c.opaque(t):
                return self.use(f"{t}[_]", [(v, t), self.e(n.slice)])
            if is_list(t) and c.checked_index:
                i, ti = self.e(n.slice)
                if ti != INT:
                    raise TranslateError("index type")
                if not self._allow:
                    raise TranslateError("checked subscript in a position that is not normalised")
                self._hit += 1
                return f"(Except.toOption (OQ.Py.indexE {v} {i}))", elem(t)
        if isinstance(n, ast.BinOp) and isinstance(n.op, ast.Mult):
            # `xs * k` / `k * xs` for a list of any element type
            a, ta = self.e(n.left)
            b, tb = self.e(n.right)
            if (is_list(ta) and tb == INT) or (ta == INT and is_list(tb)):
                k, l, tl = (b, a, ta) if tb == INT else (a, b, tb)
                return f"((List.replicate (Int.toNat {k}) {l}).flatten)", tl
        if isinstance(n, ast.BoolOp) and isinstance(n.op, ast.And) and len(n.values) >= 2:
            r = self._and_not_none(n)
            if r is not None:
                return r
        return super().e(n)

    def _and_not_none(self, n):
        """`a is not None and <rest>` for an expression `a : Option T`: in `<rest>` the same expression has type `T`"""
        first = n.values[0]
        if not (isinstance(first, ast.Compare) and len(first.ops) == 1 and isinstance(first.ops[0], ast.IsNot)
                and isinstance(first.comparators[0], ast.Constant) and first.comparators[0].value is None):
            return None
        a, ta = self.e(first.left)
        if not is_opt(ta):
            return None
        v = self.ctx.fresh()
        key = ast.dump(first.left)

        class R(ast.NodeTransformer):
            def generic_visit(self, node):
                if isinstance(node, ast.expr) and ast.dump(node) == key:
                    return ast.Name(id=v, ctx=ast.Load())
                return super().generic_visit(node)

        rest = [R().visit(copy.deepcopy(x)) for x in n.values[1:]]
        body = rest[0] if len(rest) == 1 else ast.BoolOp(op=ast.And(), values=rest)
        b, tb = self.sub({v: opt_elem(ta)}).e(body)
        if tb != BOOL:
            raise TranslateError("and on non-bool")
        return f"(match {a} with | some {v} => {b} | none => false)", BOOL

    def compare(self, n):
        c = self.ctx
        if len(n.ops) == 1 and not isinstance(n.ops[0], (ast.In, ast.NotIn, ast.Is, ast.IsNot)):
            a, ta = self.e(n.left)
            b, tb = self.e(n.comparators[0])
            if c.opaque(ta) or c.opaque(tb):
                sym = {ast.Eq: "==", ast.NotEq: "!=", ast.Lt: "<", ast.LtE: "<=", ast.Gt: ">", ast.GtE: ">="}[type(n.ops[0])]
                return self.use(f"{ta}{sym}{tb}", [(a, ta), (b, tb)])
        return super().compare(n)

    def call(self, n):
        c = self.ctx
        f = n.func
        if isinstance(f, ast.Name):
            name = f.id
            if name in c.closures and name in self.env:
                ats, rt, raises = c.closures[name]
                if n.keywords or any(isinstance(a, ast.Starred) for a in n.args):
                    raise TranslateError("closure call shape")
                args = [self.e(a) for a in n.args]
                if [t for _, t in args] != list(ats):
                    raise TranslateError(f"closure {name} applied to {[t for _, t in args]}")
                if raises:
                    if not self._allow:
                        raise TranslateError(f"raising closure {name} in a position that is not normalised")
                    self._hit += 1
                return "(" + " ".join([name] + [a for a, _ in args]) + ")", rt
            if name not in self.env and name in self.KNOWN3 and self.KNOWN3[name]["partial"]:
                if not self._allow:
                    raise TranslateError(f"partial function {name} in a position that is not normalised")
                self._hit += 1
                v, t = self._known_call(name, n)
                return v, opt_elem(t)
            if name not in self.env and name == "sum" and len(n.args) == 1 and not n.keywords:
                v, t = self.e(n.args[0])
                if is_list(t) and c.opaque(elem(t)):
                    te = elem(t)
                    add = c.variants.get(f"{te}+{te}")
                    z, _ = self.use(f"int:{te}", [("(0 : Int)", INT)])
                    if not add:
                        raise TranslateError(f"sum of {te}: external {te}+{te} not declared")
                    return f"({v}.foldl {add[0].name} {z})", te
            if name not in self.env and name == "sorted" and len(n.args) == 1 and not n.keywords:
                v, t = self.e(n.args[0])
                if t in (PYSET, tr.LIST):
                    return f"(OQ.Py.sortedInts {v})", tr.LIST
                raise TranslateError(f"sorted of {t}")
        if isinstance(f, ast.Attribute) and isinstance(f.value, ast.Name) and f.value.id not in self.env \
                and inspect.ismodule(c.glob(f.value.id)):
            key = f"{f.value.id}.{f.attr}{self._shape(n)}"
            if key in c.variants:
                return self.use(key, self._call_args(n))
        return super().call(n)

    def _known_call(self, name, n):
        c = self.ctx
        k = self.KNOWN3[name]
        pos = list(n.args)
        if n.keywords:
            # keywords are matched to the callee's parameter names (all parameters must end up supplied, in order)
            names = k.get("params")
            if not names:
                raise TranslateError("keyword arguments")
            got = {names[i]: a for i, a in enumerate(pos)}
            for kw in n.keywords:
                if kw.arg is None or kw.arg in got or kw.arg not in names:
                    raise TranslateError("keyword arguments")
                got[kw.arg] = kw.value
            if set(got) != set(names):
                raise TranslateError("call relies on default values")
            pos = [got[p] for p in names]
        args = [self.e(a) for a in pos]
        if [t for _, t in args] != list(k["args"]):
            raise TranslateError(f"call of {name} with {[t for _, t in args]}, declared {k['args']}")
        if k.get("spec") is not None:
            saved = (tr.T.KNOWN, T3.KNOWN3)
            try:
                sp = k["spec"]
                o = dict(sp[5]) if len(sp) > 5 else {}
                o.pop("driver", None)
                o.pop("imports", None)
                (o.pop("translator", None) or tr.translate_function)(sp[0], sp[1], sp[2], sp[3], sp[4], **o)
            except Exception as e:
                raise TranslateError(f"callee {name} is not translatable now ({e})")
            finally:
                tr.T.KNOWN, T3.KNOWN3 = saved
        for x in k["ext"]:
            if not any(y.name == x[0] and y.lean_type() == x[1] for y in c.all_ext):
                raise TranslateError(f"{name} needs the external {x[0]} : {x[1]}, which the caller does not declare")
        pre = " ".join(x[0] for x in k["ext"])
        return "(" + " ".join(p for p in [k["lean"], pre] + [a for a, _ in args] if p) + ")", \
            (opt_of(k["ret"]) if k["partial"] else k["ret"])

    # ------------------------------------------------------------------ normalisation (hoisting of raising sub-expressions)
    def effect(self, n):
        """(text : Option T, T) if evaluating the node `n` (whose sub-expressions are already normalised) may raise, else None"""
        if isinstance(n, ast.Name):
            if n.id in self.maybe:
                return n.id, self.maybe[n.id]
            return None
        if not isinstance(n, (ast.Call, ast.Subscript)):
            return None
        if isinstance(n, ast.Subscript) and isinstance(n.slice, ast.Slice):
            return None
        if isinstance(n, ast.Subscript) and isinstance(n.ctx, ast.Store):
            return None
        self._allow, self._hit = True, 0
        try:
            text, T = self.e(n)
        except NeedsOption:
            raise
        except TranslateError:
            return None  # not renderable as an expression (the statement form decides: e.g. `a, b = zip(*L)`)
        finally:
            self._allow = False
        if self._hit > 1:
            raise TranslateError("normalisation left two raising expressions in one node")
        return (text, T) if self._hit else None

    def normalize(self, node):
        """-> (node with every raising sub-expression replaced by a fresh name, [(name, T, text : Option T)], translator that knows
        the fresh names)"""
        binds = []
        st = {"t": self}

        def add(text, T):
            v = self.ctx.fresh()
            binds.append((v, T, text))
            st["t"] = st["t"].sub({v: T})
            return ast.Name(id=v, ctx=ast.Load())

        def branch(b):
            b2, bb, bt = st["t"].normalize(b)
            v, T = bt.e(b2)
            return bb, v, T

        def hz(n, cond):
            if isinstance(n, (ast.ListComp, ast.GeneratorExp)):
                return comp(n, cond)
            if isinstance(n, ast.Lambda):
                raise TranslateError("lambda")
            if isinstance(n, ast.IfExp):
                test = hz(n.test, cond)
                (bb, bv, bT), (ob, ov, oT) = branch(n.body), branch(n.orelse)
                if not bb and not ob:
                    m = copy.copy(n)
                    m.test = test
                    return m
                if cond:
                    raise TranslateError("raising expression in a conditionally evaluated position")
                c_, tc = st["t"].e(test)
                if tc != BOOL or bT != oT:
                    raise TranslateError("ifexp types")
                return add(f"(if {c_} then {_chain(bb, f'(some {bv})')} else {_chain(ob, f'(some {ov})')})", bT)
            m = copy.copy(n)
            if isinstance(n, ast.BoolOp):
                m.values = [hz(n.values[0], cond)] + [hz(v, True) for v in n.values[1:]]
            elif isinstance(n, ast.Call) and isinstance(n.func, ast.Name) and n.func.id == "cast" and len(n.args) == 2:
                m.args = [n.args[0], hz(n.args[1], cond)]
            elif isinstance(n, ast.Call) and isinstance(n.func, ast.Name):
                m.args = [hz(a, cond) for a in n.args]  # the callee's name is looked up, not evaluated as an expression here
                m.keywords = [ast.keyword(arg=k.arg, value=hz(k.value, cond)) for k in n.keywords]
            else:
                for fld, val in ast.iter_fields(n):
                    if isinstance(val, ast.expr):
                        setattr(m, fld, hz(val, cond))
                    elif isinstance(val, list):
                        new = []
                        for x in val:
                            if isinstance(x, ast.expr):
                                new.append(hz(x, cond))
                            elif isinstance(x, ast.keyword):
                                new.append(ast.keyword(arg=x.arg, value=hz(x.value, cond)))
                            else:
                                new.append(x)
                        setattr(m, fld, new)
            r = st["t"].effect(m)
            if r is None:
                return m
            if cond:
                raise TranslateError("raising expression in a conditionally evaluated position")
            return add(*r)

        def comp(n, cond):
            if len(n.generators) != 1 or n.generators[0].is_async:
                for g in n.generators:  # several generators: only without raising parts
                    for x in [g.iter] + g.ifs:
                        if st["t"].normalize(x)[1]:
                            raise TranslateError("raising expression inside a nested comprehension")
                return n
            g = n.generators[0]
            m = copy.copy(n)
            g2 = copy.copy(g)
            g2.iter = hz(g.iter, cond)  # the first iterable is evaluated in the enclosing scope
            m.generators = [g2]
            t = st["t"]
            it, tit = t.e(g2.iter)
            if tit == PYSET:
                tit = tr.LIST
            if not is_list(tit):
                raise TranslateError("comprehension over non-list")
            te = elem(tit)
            var = g.target.id if isinstance(g.target, ast.Name) else "p0"
            if var == "_":
                var = "_u0"
            env, lets, _ = t._bind_target(g.target, te, var)
            if isinstance(g.target, ast.Name) and g.target.id == "_":
                env = {}
            b = t.sub(env)
            for cnd in g.ifs:
                if b.normalize(cnd)[1]:
                    raise TranslateError("raising comprehension filter")
            e2, eb, bt = b.normalize(n.elt)
            if not eb:
                return m
            if cond:
                raise TranslateError("raising expression in a conditionally evaluated position")
            if g.ifs:
                raise TranslateError("filter in a raising comprehension")
            v, T = bt.e(e2)
            return add(f"(OQ.Py.mapOpt (fun ({var} : {te}) => {lets}{_chain(eb, f'(some {v})')}) {it})", list_of(T))

        new = hz(node, False)
        return new, binds, st["t"]

    def norm_stmt(self, s):
        """-> (statement without raising sub-expressions, binds, translator)"""
        m = copy.copy(s)
        if isinstance(s, ast.Assign) and len(s.targets) == 1:
            m.value, binds, t = self.normalize(s.value)
            tg = s.targets[0]
            if isinstance(tg, ast.Subscript) and not isinstance(tg.slice, ast.Slice):
                tg2 = copy.copy(tg)
                tg2.slice, b2, t = t.normalize(tg.slice)
                binds = binds + b2
                m.targets = [tg2]
            return m, binds, t
        if isinstance(s, ast.AugAssign):
            m.value, binds, t = self.normalize(s.value)
            return m, binds, t
        if isinstance(s, ast.Return) and s.value is not None:
            m.value, binds, t = self.normalize(s.value)
            return m, binds, t
        if isinstance(s, ast.Expr) and isinstance(s.value, ast.Call) and isinstance(s.value.func, ast.Attribute) \
                and s.value.func.attr == "append":
            call = copy.copy(s.value)
            binds, t, args = [], self, []
            for a in s.value.args:
                a2, b2, t = t.normalize(a)
                binds += b2
                args.append(a2)
            call.args = args
            m.value = call
            return m, binds, t
        if isinstance(s, (ast.If, ast.Assert)):
            m.test, binds, t = self.normalize(s.test)
            return m, binds, t
        return s, [], self

    # ------------------------------------------------------------------ statements
    def block(self, stmts, tail=None):
        c = self.ctx
        if not stmts:
            return super().block(stmts, tail)
        s, rest = stmts[0], stmts[1:]
        if isinstance(s, ast.AnnAssign):
            if s.value is None:
                return self.block(rest, tail)
            s = ast.Assign(targets=[s.target], value=s.value)
        if _is_warnings_warn(s, c.glob):
            return self.block(rest, tail)
        if isinstance(s, ast.Continue):
            if tail is None:
                raise TranslateError("continue outside a loop")
            return tail(self)
        if isinstance(s, ast.Raise) and tail is not None:
            if getattr(tail, "opt", False):
                return "none"
            raise NeedsOption("raise inside a loop body")
        if isinstance(s, ast.FunctionDef):
            return self._closure(s, rest, tail)
        if isinstance(s, ast.For) and not s.orelse:
            return self._for11(s, rest, tail)
        s2, binds, t = self.norm_stmt(s)
        if binds:
            if not self.partial:
                raise TranslateError("raising expression in a function not declared partial")
            if tail is not None and not getattr(tail, "opt", False):
                raise NeedsOption("raising expression inside a loop body")
            return _chain(binds, t.block([s2] + rest, tail))
        s = s2
        if isinstance(s, ast.Assign) and len(s.targets) == 1 and isinstance(s.targets[0], ast.Tuple):
            return self._assign_tuple(s, rest, tail)
        if isinstance(s, ast.Assign) and len(s.targets) == 1 and isinstance(s.targets[0], ast.Name) \
                and s.targets[0].id in self.local_types and self.local_types[s.targets[0].id].startswith("List (Option "):
            name, t = s.targets[0].id, self.local_types[s.targets[0].id]
            c.none_hint = elem(t)
            try:
                v, tv = self.e(s.value)
            finally:
                c.none_hint = None
            if tv != t:
                raise TranslateError(f"{name}: declared {t}, got {tv}")
            self._drop_tail(name)
            return f"let {name} : {t} := {v}\n  {self.sub({name: t}).block(rest, tail)}"
        if isinstance(s, ast.Assign) and len(s.targets) == 1 and isinstance(s.targets[0], ast.Subscript) \
                and isinstance(s.targets[0].value, ast.Name) and not isinstance(s.targets[0].slice, ast.Slice):
            name = s.targets[0].value.id
            tl = self.env.get(name, "")
            if is_list(tl) and is_opt(elem(tl)):
                i, ti = self.e(s.targets[0].slice)
                v, tv = self.e(s.value)
                if ti != INT or tv != opt_elem(elem(tl)):
                    raise TranslateError("item assignment types")
                return f"let {name} : {tl} := {name}.set (Int.toNat {i}) (some {v})\n  {self.block(rest, tail)}"
        if isinstance(s, ast.Return) and tail is not None:
            raise TranslateError("return inside a loop body")
        return super().block([s] + rest, tail)

    def _closure(self, s, rest, tail):
        c = self.ctx
        body = [x for x in s.body if not (isinstance(x, ast.Expr) and isinstance(x.value, ast.Constant))]
        if s.decorator_list or s.args.vararg or s.args.kwarg or s.args.kwonlyargs or s.args.defaults or len(body) != 1 \
                or not isinstance(body[0], ast.Return) or body[0].value is None:
            raise TranslateError("closure shape (only `def g(x, …): return e`)")
        ty = self.local_types.get(s.name)
        if ty is None:
            raise TranslateError(f"closure {s.name}: no declared type")
        *ats, rt = [p.strip() for p in ty.split(" → ")]
        names = [a.arg for a in s.args.args]
        if len(names) != len(ats) or any(x in self.env for x in names):
            raise TranslateError("closure parameters")
        b = self.sub(dict(zip(names, ats)))
        e2, binds, bt = b.normalize(body[0].value)
        v, T = bt.e(e2)
        if T != rt:
            raise TranslateError(f"closure {s.name} returns {T}, declared {rt}")
        raises = bool(binds)
        params = " ".join(f"({a} : {t})" for a, t in zip(names, ats))
        fty = " → ".join(ats + [opt_of(rt) if raises else rt])
        val = _chain(binds, f"(some {v})") if raises else v
        c.closures[s.name] = (ats, rt, raises)
        self._drop_tail(s.name)
        return f"let {s.name} : {fty} := fun {params} => {val}\n  {self.sub({s.name: fty}).block(rest, tail)}"

    def _assign_tuple(self, s, rest, tail):
        tg = s.targets[0]
        if not all(isinstance(x, ast.Name) for x in tg.elts):
            raise TranslateError("tuple target")
        names = [x.id for x in tg.elts]
        if len(set(names)) != len(names):
            raise TranslateError("tuple target names")
        for x in names:
            self._drop_tail(x)
        v = s.value
        # zip(*L)
        if isinstance(v, ast.Call) and isinstance(v.func, ast.Name) and v.func.id == "zip" and "zip" not in self.env \
                and len(v.args) == 1 and isinstance(v.args[0], ast.Starred) and not v.keywords:
            L, tL = self.e(v.args[0].value)
            if not is_list(tL):
                raise TranslateError("zip(*non-list)")
            parts = tr.prod_parts(elem(tL))
            if len(parts) != len(names) or len(parts) < 2:
                raise TranslateError("zip(*L): number of targets differs from the width of the rows")
            if not self.partial or (tail is not None and not getattr(tail, "opt", False)):
                raise NeedsOption("zip(*L) unpacking may raise") if tail is not None else TranslateError("zip(*L) in a total function")
            lets, env = "", {}
            for k, (x, t) in enumerate(zip(names, parts)):
                proj = "__q" + ".2" * k + ("" if k == len(parts) - 1 else ".1")
                lets += f"let {x} : {list_of(t)} := __z.map (fun (__q : {elem(tL)}) => {proj})\n  "
                env[x] = list_of(t)
            return (f"let __z : {tL} := {L}\n  (match __z with\n  | [] => none\n  | _ :: _ =>\n  "
                    f"{lets}{self.sub(env).block(rest, tail)})")
        val, tv = self.e(v)
        if is_list(tv):
            if not self.partial or (tail is not None and not getattr(tail, "opt", False)):
                raise NeedsOption("unpacking may raise") if tail is not None else TranslateError("unpacking in a total function")
            te = elem(tv)
            body = self.sub({x: te for x in names}).block(rest, tail)
            return f"(match {val} with\n  | [{', '.join(names)}] =>\n  {body}\n  | _ => none)"
        parts = tr.prod_parts(tv)
        if len(parts) != len(names) or len(parts) < 2:
            raise TranslateError(f"unpacking {tv} into {len(names)} names")
        lets, env = f"let __t : {tv} := {val}\n  ", {}
        for k, (x, t) in enumerate(zip(names, parts)):
            proj = "__t" + ".2" * k + ("" if k == len(parts) - 1 else ".1")
            lets += f"let {x} : {t} := {proj}\n  "
            env[x] = t
        return lets + self.sub(env).block(rest, tail)

    # ---- loops
    def _for11(self, s, rest, tail):
        # the iterable is evaluated once, before the loop, in the enclosing scope
        it_node = s.iter.args[0] if t3._is_enumerate(s.iter) else s.iter
        new_it, binds, t = self.normalize(it_node)
        if binds:
            if not self.partial:
                raise TranslateError("raising expression in a function not declared partial")
            if tail is not None and not getattr(tail, "opt", False):
                raise NeedsOption("raising iterable inside a loop body")
            s2 = copy.copy(s)
            if t3._is_enumerate(s.iter):
                s2.iter = copy.copy(s.iter)
                s2.iter.args = [new_it]
            else:
                s2.iter = new_it
            return _chain(binds, t._for11(s2, rest, tail))
        try:
            head, post = self._loop(s, rest, opt=False)
        except NeedsOption:
            if not self.partial:
                raise TranslateError("a loop body raises in a function not declared partial")
            if tail is not None and not getattr(tail, "opt", False):
                raise
            head, post = self._loop(s, rest, opt=True)
        return head(post.block(rest, tail))

    def _loop(self, s, rest, opt):
        """-> (function: text of the rest -> text of loop + rest, translator for the rest)"""
        if t3._is_enumerate(s.iter):
            xs, txs = self.e(s.iter.args[0])
            if not is_list(txs):
                raise TranslateError("enumerate over non-list")
            it, tit = f"(({xs}.zipIdx).map (fun (p : {tr.paren(elem(txs))} × Nat) => (((p.2 : Nat) : Int), p.1)))", \
                list_of(f"Int × {tr.paren(elem(txs))}")
        else:
            it, tit = self.e(s.iter)
        if tit == PYSET:
            tit = "List Int"
        if not is_list(tit):
            raise TranslateError("for over non-list")
        te = elem(tit)
        assigned = _assigned11(s.body)
        later = _names_loaded(rest)
        new = [x for x in assigned if x not in self.env and x in later]
        for x in new:
            if x not in self.local_types:
                raise TranslateError(f"{x} is first assigned inside a loop and used after it: no declared type")
        state = [x for x in assigned if x in self.env or x in new]
        targets = t3._target_names(s.target)
        for x in targets:
            if x in state:
                raise TranslateError("loop variable reassigned")
        if not state:
            raise TranslateError("loop without effect")
        for x in state:
            self._drop_tail(x)
        outer = self.with_maybe({x: self.local_types[x] for x in new})
        was_maybe = dict(outer.maybe)
        tys = [outer.env[x] for x in state]
        st_ty = " × ".join(f"({t})" for t in tys)

        def proj(k):
            if len(state) == 1:
                return "st"
            return "st" + ".2" * k + ("" if k == len(state) - 1 else ".1")

        def tup(env_t):
            parts = []
            for x, t in zip(state, tys):
                if x in was_maybe:
                    if x in env_t.maybe:
                        parts.append(x)
                    elif env_t.env.get(x) == was_maybe[x]:
                        parts.append(f"(some {x})")
                    else:
                        raise TranslateError(f"loop changes the type of {x}")
                elif env_t.env.get(x) != t:
                    raise TranslateError(f"loop changes the type of {x}")
                else:
                    parts.append(x)
            r = "(" + ", ".join(parts) + ")"
            return f"(some {r})" if opt else r
        tup.opt = opt

        binds = "".join(f"let {x} : {t} := {proj(k)}\n    " for k, (x, t) in enumerate(zip(state, tys)))
        if isinstance(s.target, ast.Name):
            v = s.target.id if s.target.id != "_" else "_it"
            env = {} if s.target.id == "_" else {s.target.id: te}
        else:
            v = "__p"
            env, lets, _ = self._bind_target(s.target, te, v)
            binds += lets.replace("; ", "\n    ")
        body = outer.sub(env).block(s.body, tail=tup)
        after = "".join(f"let {x} : {t} := {proj(k)}\n  " for k, (x, t) in enumerate(zip(state, tys)))
        init = ", ".join(f"(none : {opt_of(self.local_types[x])})" if x in new else x for x in state)
        if opt:
            def head(r):
                return (f"(Option.bind (OQ.Py.foldlOpt (fun (st : {st_ty}) ({v} : {te}) =>\n    {binds}{body}) ({init}) {it}) "
                        f"(fun (st : {st_ty}) =>\n  {after}{r}))")
        else:
            def head(r):
                return (f"let st : {st_ty} := {it}.foldl (fun (st : {st_ty}) ({v} : {te}) =>\n    {binds}{body}) "
                        f"({init})\n  {after}{r}")
        return head, outer


def _assigned11(stmts):
    """names (re)assigned in a loop body (nested loops included), in order of first assignment"""
    out = []

    def add(x):
        if x not in out:
            out.append(x)

    class V(ast.NodeVisitor):
        def generic_visit(self, n):
            if isinstance(n, (ast.Return, ast.Break, ast.While, ast.FunctionDef, ast.Lambda)):
                raise TranslateError(f"{type(n).__name__} inside a loop body")
            if isinstance(n, ast.Assign):
                for t in n.targets:
                    if isinstance(t, ast.Tuple):
                        for x in t.elts:
                            add(tr._target_name(x))
                    else:
                        add(tr._target_name(t))
            elif isinstance(n, ast.AnnAssign) and n.value is not None:
                add(tr._target_name(n.target))
            elif isinstance(n, ast.AugAssign):
                add(tr._target_name(n.target))
            elif isinstance(n, ast.Call) and isinstance(n.func, ast.Attribute) and n.func.attr == "append" \
                    and isinstance(n.func.value, ast.Name):
                add(n.func.value.id)
            super().generic_visit(n)

    for s in stmts:
        V().visit(s)
    return out


def translate_function(fn, lean_name, arg_types, ret, partial=False, attrs=None, local_types=None, known=None, t11=None):
    """`t11` = dict(types=[…], ext=[(key, parameter name, argument types, result type – `!T` for a raising external), …],
    classes={type: Python class}, checked_index=bool,
    known={python name: dict(lean, args, ret, partial, ext=[(parameter name, lean type), …], params=[…], spec=<callee's spec>)})"""
    t11 = t11 or {}
    fn = getattr(fn, "__wrapped__", fn)
    src = textwrap.dedent(inspect.getsource(fn))
    node = ast.parse(src).body[0]
    if not isinstance(node, ast.FunctionDef):
        raise TranslateError("not a function")
    if node.args.vararg or node.args.kwarg or node.args.kwonlyargs or node.args.posonlyargs:
        raise TranslateError("parameter kinds")
    names = [a.arg for a in node.args.args]
    if len(names) != len(arg_types):
        raise TranslateError("arity")
    ctx = Ctx11(fn, lean_name, names, list(arg_types), ret, partial, t11.get("types", []), t11.get("ext", []),
                t11.get("classes"), t11.get("checked_index", False))
    tr.T.KNOWN = dict(known or {})
    T3.KNOWN3 = dict(t11.get("known") or {})
    body = T11(dict(zip(names, arg_types)), ret, partial, ctx, attrs, local_types).block(node.body)
    binders = ""
    if ctx.types:
        binders += "{" + " ".join(ctx.types) + " : Type} "
    binders += "".join(f"({x.name} : {x.lean_type()}) " for x in ctx.all_ext)
    binders += " ".join(f"({n} : {t})" for n, t in zip(names, arg_types))
    where = f"{inspect.getsourcefile(fn).split('/src/')[-1]}:{fn.__qualname__}"
    rt = opt_of(ret) if partial else ret
    return f"/-- translated from `{where}` -/\ndef {lean_name} {binders} : {rt} :=\n  {body}\n"


def signature(ext):
    return [(name, Ext11(key, name, args, r).lean_type()) for key, name, args, r in ext]
