"""Work package T5: the circuit-runner CLASSES of property C14, translated method by method (harness/translate_state.py) into
lean/OQ/Generated/TranslatedRunners.lean, and the JSON glue that lets harness/runners_check.py run the translated definitions on
concrete call histories (lean/OQ/Generated/TranslatedRunnersDriver.lean, compiled into the model driver under the tag "TRR")."""
import hashlib

from .extract import table
from . import translate as tr
from . import translate_state as ts

C, M, D, J = "C", "M", "D", "J"


def class_specs():
    from orquestra.quantum.api.circuit_runner import BaseCircuitRunner
    from orquestra.quantum.runners.trackers import MeasurementTrackingBackend
    counters = {"_n_circuits_executed": tr.INT, "_n_jobs_executed": tr.INT}
    base = {
        "cls": BaseCircuitRunner, "lean": "Base", "classes": [BaseCircuitRunner],
        "type_params": ["ω", C, M, D], "state_params": ["ω"],
        "fields": dict(counters),
        "methods": {
            "__init__": ([], ts.UNIT),
            "run_and_measure": ([C, tr.INT], M),
            "_run_batch_and_measure": ([f"List {C}", tr.LIST], f"List {M}"),
            "run_batch_and_measure": ([f"List {C}", ts.INT_OR_LIST], f"List {M}"),
            "get_measurement_outcome_distribution": ([C, tr.OPTINT], D),
            "n_jobs_executed": ([], tr.INT),
            "n_circuits_executed": ([], tr.INT),
        },
        "externals": {
            "self._run_and_measure": ([C, tr.INT], M),      # abstract
            f"{M}.get_distribution": ([M], D),              # method of the Measurements object
        },
    }
    tracker = {
        "cls": MeasurementTrackingBackend, "lean": "Tracker", "classes": [MeasurementTrackingBackend, BaseCircuitRunner],
        "type_params": ["ω", "B", C, M, D, J, "O", "F"], "state_params": ["ω", "B", J], "payload": J,
        "fields": {**counters, "record_bitstrings": ts.OPTBOOL, "inner_backend": "B", "raw_data": f"List (OQ.PyS.Dict {J})",
                   "type": tr.STR, "raw_data_file_name": tr.STR},
        "methods": {
            "BaseCircuitRunner.__init__": ([], ts.UNIT),
            "__init__": (["B", tr.STR, ts.OPTBOOL], ts.UNIT),
            "record_raw_measurement_data": ([C, M], ts.UNIT),
            "save_raw_data": ([], ts.UNIT),
            "_run_and_measure": ([C, tr.INT], M),                       # the tracker's override
            "run_and_measure": ([C, tr.INT], M),                        # inherited; calls the override
            "run_batch_and_measure": ([f"List {C}", ts.INT_OR_LIST], f"List {M}"),   # the tracker's override
            "get_measurement_outcome_distribution": ([C, tr.OPTINT], D),            # the tracker's override
            "n_jobs_executed": ([], tr.INT),
            "n_circuits_executed": ([], tr.INT),
        },
        "externals": {
            "self.inner_backend.run_and_measure": ([C, tr.INT], M),
            "self.inner_backend.run_batch_and_measure": ([f"List {C}", ts.INT_OR_LIST], f"List {M}"),
            "self.inner_backend.get_measurement_outcome_distribution": ([C, tr.OPTINT], D),
            "open": ([tr.STR, tr.STR], "F"),                          # the file system: a handle of opaque type F
            "F.write": (["F", tr.STR], ts.UNIT),
            "F.__exit__": (["F"], ts.UNIT),
            "json.dumps": ([f"OQ.PyS.Dict2 {J}"], tr.STR),
            "to_dict": ([C], J),
            f"{M}.get_counts": ([M], J),
            "repr": ([D], tr.STR),
        },
        "attrs": {(C, "operations"): "List O", (M, "bitstrings"): ts.INTLISTS, ("B", "__class__.__name__"): tr.STR},
    }
    from orquestra.quantum.api.wavefunction_simulator import BaseWavefunctionSimulator
    V, W, O, P, X, Y = "V", "W", "O", "P", "X", "Y"
    sim = {
        "cls": BaseWavefunctionSimulator, "lean": "Sim", "classes": [BaseWavefunctionSimulator, BaseCircuitRunner],
        "type_params": ["ω", C, M, D, V, W, O, P, X, Y], "state_params": ["ω"],
        "fields": {**counters, "seed": tr.OPTINT},
        "methods": {
            "BaseCircuitRunner.__init__": ([], ts.UNIT),
            "__init__": ([tr.OPTINT], ts.UNIT),
            "get_wavefunction": ([C, f"Option {V}"], W),          # the loop that counts jobs / circuits per segment
            "_run_and_measure": ([C, tr.INT], M),                  # the simulator's implementation of the abstract method
            "run_and_measure": ([C, tr.INT], M),                   # the simulator's OVERRIDE (no counting here)
            "_run_batch_and_measure": ([f"List {C}", tr.LIST], f"List {M}"),             # inherited
            "run_batch_and_measure": ([f"List {C}", ts.INT_OR_LIST], f"List {M}"),      # inherited
            "get_measurement_outcome_distribution": ([C, tr.OPTINT], D),                # the simulator's override
            "n_jobs_executed": ([], tr.INT),
            "n_circuits_executed": ([], tr.INT),
        },
        "externals": {
            "np.zeros": ([tr.INT], V),
            f"{V}.__setitem__": ([V, tr.INT, tr.INT], V),
            "split_circuit": ([C, f"{O} → Bool"], f"List (Bool × {C})"),
            "self._get_wavefunction_from_native_circuit": ([C, V], V),     # abstract
            f"{O}.apply": ([O, V], V),
            "Wavefunction": ([V], W),
            "sample_from_wavefunction": ([W, tr.INT, tr.OPTINT], X),
            "Measurements": ([X], M),
            f"{W}.get_probabilities": ([W], P),
            "create_bitstring_distribution_from_probability_distribution": ([P], D),
            f"{M}.get_distribution": ([M], D),
        },
        "attrs": {(C, "free_symbols"): f"List {Y}", (C, "n_qubits"): tr.INT, (C, "operations"): f"List {O}"},
        "method_refs": {"is_natively_supported": f"{O} → Bool"},
    }
    return [base, tracker, sim]


def generate():
    """-> (lean text, {"Base.run_and_measure": error, …})"""
    out = ["-- generated by harness/translate_state.py from /repo's current source — do not edit",
           "import OQ.Exec.Py", "import OQ.Exec.PyState", "set_option linter.unusedVariables false",
           "namespace OQ.Generated.Runners", ""]
    failed = {}
    for spec in class_specs():
        text, bad = ts.translate_class(spec)
        out.append(text)
        for k, v in bad.items():
            failed[f"{spec['lean']}.{k}"] = v
    out.append("end OQ.Generated.Runners")
    return "\n".join(out) + "\n", failed


@table("TranslatedRunners.lean")
def translated_runners():
    return generate()[0]


@table("TranslatedRunnersDriver.lean")
def translated_runners_driver():
    text, failed = generate()
    ver = hashlib.sha256(text.encode()).hexdigest()[:16]
    head = "-- generated by harness/tables_runners.py — do not edit\nimport OQ.Exec.Proto\n"
    if failed:
        return (head + "open Lean\nnamespace OQ.TRR.Driver\n"
                "def handle (op : String) (j : Json) : Except String Json :=\n"
                f"  throw \"translated runner classes incomplete: {', '.join(sorted(failed))}\"\n"
                "end OQ.TRR.Driver\n")
    import os
    glue = open(os.path.join(os.path.dirname(os.path.abspath(__file__)), "runners_glue.lean.in")).read()
    return head + "import OQ.Generated.TranslatedRunners\n" + glue.replace("@VERSION@", ver)
