"""Work package T12: the circuit container (`circuits/_circuit.py`: constructor, width, `+`, `to_unitary`, `bind`, `split_circuit`), the
COMPOSITION of `_unitary_tools._lift_matrix` / `_permutation_matrix` (numpy / sympy as parameters) (property C01) and the index helpers
nested in `operators/_utils.get_pauliop_from_matrix` (property C09).  Rendered by harness/translate_t12.py (a subclass of the T3
translator); checked against the Python functions by harness/translated_check_t12.py."""
PROPS = ["C01", "C09"]

LOM = "List ω"
LI = "List Int"


def _sig(ext):
    from .translate_t3 import Ext
    return [(name, Ext(key, name, args, r).lean_type()) for key, name, args, r in ext]


def SPECS():
    from . import translate_t12 as t12
    from orquestra.quantum.circuits import _circuit as _circ, _unitary_tools as _ut
    from orquestra.quantum.operators import _utils as _ou
    from .tables import _resolve
    tf = t12.translate_function

    def spec(fn, name, args, ret, partial, **o):
        lt = o.pop("local_types", None)
        kn = o.pop("base_known", None)
        d = {"translator": tf, "t12": o}
        if lt:
            d["local_types"] = lt
        if kn:
            d["known"] = kn
        return (fn, name, args, ret, partial, d)

    def known(s):
        return {"lean": s[1], "args": s[2], "ret": s[3], "partial": s[4], "ext": _sig(s[5]["t12"].get("ext", [])), "spec": s}

    Circuit = getattr(_circ, "Circuit", None)

    def meth(name):
        m = getattr(Circuit, name, None) or _resolve(Circuit, name)
        return getattr(m, "fget", m)   # a property: its getter

    # ---------------------------------------------------------------- C01: the container
    qi = ("ω.qubit_indices", "attr_qubit_indices", ["ω"], LI)
    s_size = spec(_resolve(_circ, "_circuit_size_by_operations"), "circuit_size_by_operations", [LOM], "Int", True,
                  types=["ω"], ext=[qi])
    s_init = spec(meth("__init__"), "circuit_init", ["Option (List ω)", "Option Int"], "(List ω) × Int", True,
                  types=["ω"], ext=[qi], mode="ctor", known={"_circuit_size_by_operations": known(s_size)})
    fields = [("γ._operations", "attr__operations", ["γ"], LOM), ("γ._n_qubits", "attr__n_qubits", ["γ"], "Int")]
    s_ops = spec(meth("operations"), "circuit_operations", ["γ"], LOM, False, types=["γ", "ω"], ext=fields, mode="property")
    s_nq = spec(meth("n_qubits"), "circuit_n_qubits", ["γ"], "Int", False, types=["γ", "ω"], ext=fields, mode="property")
    view = [("γ.operations", "attr_operations", ["γ"], LOM), ("γ.n_qubits", "attr_n_qubits", ["γ"], "Int")]
    new = ("type(γ)(operations=_,n_qubits=_)", "ext_new_Circuit", [LOM, "Int"], "Option γ")
    s_app_op = spec(_resolve(_circ, "_append_operation"), "append_operation", ["ω", "γ"], "γ", True,
                    types=["γ", "ω"], ext=[qi] + view + [new])
    s_app_c = spec(_resolve(_circ, "_append_circuit"), "append_circuit", ["γ", "γ"], "γ", True,
                   types=["γ", "ω"], ext=view + [new])
    casts = [("GateOperation", "ω", "as_GateOperation", "_append_operation"), ("Circuit", "γ", "as_Circuit", "_append_circuit")]
    s_disp = spec(_resolve(_circ, "_append_to_circuit"), "append_to_circuit", ["δ", "γ"], "γ", True, mode="dispatch",
                  types=["γ", "ω", "δ"], ext=[qi] + view + [new], dispatch=casts,
                  known={"_append_operation": known(s_app_op), "_append_circuit": known(s_app_c)})
    k_disp = known(s_disp)
    k_disp["ext"] = k_disp["ext"] + [("as_GateOperation", "δ → Option ω"), ("as_Circuit", "δ → Option γ")]
    s_add = spec(meth("__add__"), "circuit_add", ["γ", "δ"], "γ", True, types=["γ", "ω", "δ"],
                 ext=[qi] + view + [new, ("as_GateOperation(_)", "as_GateOperation", ["δ"], "Option ω"),
                                    ("as_Circuit(_)", "as_Circuit", ["δ"], "Option γ")],
                 known={"_append_to_circuit": k_disp})
    s_bind = spec(meth("bind"), "circuit_bind", ["γ", "σ"], "γ", True,
                  types=["γ", "ω", "σ"], ext=view + [("ω.bind(_)", "meth_bind", ["ω", "σ"], "ω"), new])
    uni_ext = view + [("isinstance(ω,GateOperation)", "isinstance_GateOperation", ["ω"], "Bool"),
                      ("ω.lifted_matrix(_)", "meth_lifted_matrix", ["ω", "Int"], "Option μ"),
                      ("isinstance(μ,MatrixBase)", "isinstance_MatrixBase", ["μ"], "Bool"),
                      ("μ.tolist()", "meth_tolist", ["μ"], "ν"),
                      ("sympy.Matrix(_)", "ext_sympy_Matrix", ["ν"], "μ"),
                      ("operator.matmul", "ext_matmul", [], "μ → μ → μ")]
    s_uni = spec(meth("to_unitary"), "circuit_to_unitary", ["γ"], "μ", True, types=["γ", "ω", "μ", "ν"], ext=uni_ext,
                 local_types={"#1": "List μ"})
    s_split = spec(_resolve(_circ, "split_circuit"), "split_circuit", ["γ", "ω → Bool"], "List (Bool × γ')", True,
                   types=["γ", "ω", "γ'"], mode="generator",
                   ext=view + [("Circuit(_,n_qubits=_)", "ext_Circuit", [LOM, "Int"], "Option γ'")])

    # ---------------------------------------------------------------- C01: MultiPhaseOperation.apply
    from orquestra.quantum.circuits import _wavefunction_operations as _wo
    mp_ext = [("π.params", "attr_params", ["π"], "List θ"), ("len(ν)", "ext_len", ["ν"], "Int"),
              ("np.asarray(_,dtype=float)", "ext_asarray_float", ["List θ"], "Option ξ"), ("1j", "lit_1j", [], "ρ"),
              ("ξ*ρ", "ext_scale", ["ξ", "ρ"], "ξ"), ("np.exp(_)", "ext_exp", ["ξ"], "ξ"),
              ("np.asarray(_)", "ext_asarray", ["ν"], "ν"), ("np.multiply(_,_)", "ext_multiply", ["ν", "ξ"], "ν")]
    MPO = getattr(_wo, "MultiPhaseOperation", None)
    s_mp = spec(getattr(MPO, "apply", None) or _resolve(MPO, "apply"), "multiphase_apply", ["π", "ν"], "ν", True,
                types=["π", "θ", "ν", "ξ", "ρ"], ext=mp_ext)

    # ---------------------------------------------------------------- C01: the embedding
    k_perm = {"_permute": ("permute", [LI, LI], LI), "_basis_bitstring": ("basis_bitstring", ["Int", "Int"], LI)}
    s_pm = spec(_resolve(_ut, "_permutation_matrix"), "permutation_matrix", [LI, "List Int → μ", "List Int → ν"], "μ", True,
                types=["μ", "ν"], ext=[("μ[:,_]=ν", "ext_set_column", ["μ", "Int", "ν"], "μ")],
                base_known=k_perm)
    lift_ext = [("μ[:,_]=ν", "ext_set_column", ["μ", "Int", "ν"], "μ"),
                ("μ.transpose()", "meth_transpose", ["μ"], "μ"), ("μ@μ", "ext_matmul", ["μ", "μ"], "μ")]
    s_lift = spec(_resolve(_ut, "_lift_matrix"), "lift_matrix",
                  ["μ", LI, "Int", "List Int → μ", "Int → μ", "μ → μ → μ", "List Int → ν"], "μ", True,
                  types=["μ", "ν"], ext=lift_ext, known={"_permutation_matrix": known(s_pm)},
                  base_known={"_permutation_making_qubits_adjacent": ("permutation_making_qubits_adjacent", [LI, "Int"], LI)})

    c01 = [s_size, s_init, s_ops, s_nq, s_app_op, s_app_c, s_disp, s_add, s_bind, s_uni, s_split, s_mp, s_pm, s_lift]
    # ---------------------------------------------------------------- C09: the helpers nested in get_pauliop_from_matrix
    gp = _resolve(_ou, "get_pauliop_from_matrix")
    LLS = "List (List ρ)"
    k_b2d = {"bin2dec": ("bin2dec", [LI], "Int")}
    k_d2b = {"dec2bin": {"lean": "dec2bin", "args": ["Int", "Int"], "ret": LI, "partial": True, "ext": [], "spec": None}}
    s_decode = spec(gp, "pauli_decode", [LI], LI, True, mode="nested", path=["decode"], closure=[("n", "Int")], base_known=k_b2d)
    s_f = spec(gp, "pauli_f", ["Int"], "Int", True, mode="nested", path=["trace_product", "f"],
               closure=[("n", "Int"), ("label_vec", LI)], base_known=k_b2d, known=k_d2b)
    nz_ext = [("1.0", "lit_1_0", [], "ρ"), ("1j", "lit_1j", [], "ρ"), ("-ρ", "ext_neg", ["ρ"], "ρ"),
              ("ρ*ρ", "ext_mul", ["ρ", "ρ"], "ρ"), ("ρ*Int", "ext_mul_int", ["ρ", "Int"], "ρ")]
    s_nz = spec(gp, "pauli_nz", ["Int"], "ρ", True, mode="nested", path=["trace_product", "nz"], types=["ρ"], ext=nz_ext,
                closure=[("n", "Int"), ("label_vec", LI)], known=k_d2b)
    tp_ext = nz_ext + [("0.0", "lit_0_0", [], "ρ"), ("ρ+ρ", "ext_add", ["ρ", "ρ"], "ρ"), ("ρ/Int", "ext_div_int", ["ρ", "Int"], "ρ")]

    def nested_known(s_):
        k = known(s_)
        k["closure"] = list(s_[5]["t12"]["closure"])
        return k
    s_tp = spec(gp, "pauli_trace_product", [LI], "ρ", True, mode="nested", path=["trace_product"], types=["ρ"], ext=tp_ext,
                closure=[("n", "Int"), ("operator", LLS)], known={"f": nested_known(s_f), "nz": nested_known(s_nz)})
    c09 = [s_decode, s_f, s_nz, s_tp]
    return {"C01": c01, "C09": c09}


def GENS():
    return {}
