"""T10: SYMBOLIC-EXPRESSION translator for the built-in gate matrices of `circuits/_matrices.py` (property C02; the matrices feed
C01 C07 C08 C16 C18).

Every factory `def <name>(p1, …, pk)` of the module becomes, mechanically from its `ast`, a Lean definition

    def tr_<name> (S : Scal R) (v_p1 … v_pk : Ang R) : Mat R

over the SAME vocabulary the hand-written model `OQ/Model/Gates.lean` is written in: the record of ring constants `Scal R`
(`S.i` = i, `S.r` = 1/√2, `S.z` = e^{iπ/4}, `S.half` = 1/2) and half-angle points `Ang R` (`a.ch` = cos a/2, `a.sh` = sin a/2, and the
DERIVED full-angle expressions `Ang.c` = c²−s², `Ang.s` = 2cs, `Ang.ehp/ehm` = c ± i s, `Ang.eip/eim` = cos a ± i sin a, `Ang.add`, `Ang.neg`
of `OQ/Exec/Scal.lean`, whose meaning at R = ℂ is PROVED in `Props/C02.lean: real_angle_meaning / real_angle_add`).  The regenerated
definitions are tied to the model by `lean/OQ/Props/C02_TranslatedMatrices.lean`.

Supported subset (anything else raises `TranslateError`; the definition is then missing, and so is every definition that calls it, and the
tie theorems naming them fail to build):

  statements   an optional docstring, then `name = <expr>` assignments to fresh local names (rendered `let v_name := …`), then ONE final
               `return <expr>`; parameters: plain positional names without defaults, every one an ANGLE (`Ang R`)
  numbers      int literals (0, 1, n = 1+…+1 for 2 ≤ n ≤ 16); floats that are small exact dyadics n/2^k (n·half^k); imaginary literals
               `1j`, `0.5j`, … (dyadic · `S.i`); `sympy.I` → `S.i`
  arithmetic   `-x`, `x + y`, `x - y` (→ `x + -y`: the ring signature of the model has no subtraction), `x * y` on scalars;
               scalar `*` matrix (either order) → `Mat.smul`; matrix `*` matrix → `Mat.mul`
  RULE div     `x / d` is rendered as `x * inv(d)` (`Mat.smul inv(d) M` for a matrix) for the divisors
                 `2`, `2.0`            → `S.half`          (law 2·half = 1)
                 `sympy.sqrt(2)`, `np.sqrt(2)` → `S.r`      (law 2·r·r = 1; this is the rule for the syntactic forms `1/np.sqrt(2)`,
                                                             `1j / sympy.sqrt(2)`, `-1/np.sqrt(2)`)
                 `1`                   → `1`
                 `sympy.exp(z)`        → the rendering of `sympy.exp(-z)`   (exp(z)·exp(−z) = 1: PROVED for the renderings as
                                                             `exp_div_rule_sound` under the circle law)
               any other divisor → TranslateError
  RULE pow     the syntactic form `2 ** (-0.5)` / `2 ** -0.5` → `S.r`; any other power → TranslateError
  RULE sqrt    `sympy.sqrt(2)` / `np.sqrt(2)` as a value → `(1+1) * S.r`
  `float(e)`   → e, only for a REAL CONSTANT e (no parameter, no imaginary unit inside; Python's float() of a complex raises)
  trig         `sympy.cos(A/2)`, `sympy.sin(A/2)` → `(A).ch`, `(A).sh`; `sympy.cos(A)`, `sympy.sin(A)` → `Ang.c A`, `Ang.s A`
               where A is an ANGLE EXPRESSION: a parameter, `A + B` (`Ang.add`), `A - B` (`Ang.add A (Ang.neg B)`), `-A` (`Ang.neg`)
  exp          `sympy.exp(z)`: z is flattened over `* / -` into  q · i^m · angle  (q an exact rational from int / dyadic-float /
               imaginary literals and `sympy.I`; exactly one angle factor); required m = 1, and
                 angle = angle expression A:  q = 1 → `Ang.eip S A`, −1 → `Ang.eim S A`, 1/2 → `Ang.ehp S A`, −1/2 → `Ang.ehm S A`
                 angle = `np.pi`:             q = 1/4 → `S.z`
               anything else → TranslateError
  matrices     `sympy.Matrix([[…], …])` (literal rectangular list of lists of scalars) → `Mat.ofLists [[…], …]`;
               `sympy.simplify(e)` → e  (identity: the soundness of simplify is no longer assumed for u3 – the tie theorem proves that
               the product form equals the model's closed form);
               `<g>(A1, …)` for another factory g of the same module (arity checked) → `tr_<g> S A1 …`

A parameter can only occur inside an angle expression (it has no rendering as a ring element).

Trusted: this mapping of sympy / numpy SYNTAX to the vocabulary above (checked on every run: harness/translated_check_t10.py evaluates
every generated definition in the compiled driver at rational circle points over ℚ(ζ₈) and compares with `np.array(factory(θ…), complex)`);
NOT trusted any more: the hand-written matrices of Model/Gates.lean (tied for all rings / all angle points), `sympy.simplify` in u3.
"""
import ast
import inspect
import textwrap
from fractions import Fraction

from .translate import TranslateError

MODULE = "orquestra.quantum.circuits._matrices"
S, M = "scalar", "matrix"
_RESERVED = {"S", "R"}


class V:
    """a rendered value: type (scalar / matrix), Lean text, `real` = provably a real constant (what float() accepts)"""

    def __init__(self, ty, lean, real=False):
        self.ty, self.lean, self.real = ty, lean, real


def _int(n):
    if n < 0 or n > 16:
        raise TranslateError(f"integer literal {n} outside 0..16")
    if n <= 1:
        return str(n)
    out = "1"
    for _ in range(n - 1):
        out = f"({out} + 1)"
    return out


def _dyadic(q):
    """n / 2^k as n · half^k"""
    q = Fraction(q)
    if q < 0:
        raise TranslateError("negative literal")
    d, k = q.denominator, 0
    while d % 2 == 0:
        d //= 2
        k += 1
    if d != 1 or k > 8 or q.numerator > 16:
        raise TranslateError(f"constant {q} is not a small exact dyadic")
    out = _int(q.numerator)
    for _ in range(k):
        out = f"({out} * S.half)"
    return out


def _is_mod_attr(n, mods, attr):
    return (isinstance(n, ast.Attribute) and n.attr == attr and isinstance(n.value, ast.Name) and n.value.id in mods)


def _is_sqrt2(n):
    return (isinstance(n, ast.Call) and not n.keywords and len(n.args) == 1
            and (_is_mod_attr(n.func, ("sympy", "np"), "sqrt"))
            and isinstance(n.args[0], ast.Constant) and type(n.args[0].value) is int and n.args[0].value == 2)


def _const(n, types):
    return isinstance(n, ast.Constant) and type(n.value) in types


class FunctionTranslator:
    def __init__(self, fn, module_tr):
        self.fn, self.mt = fn, module_tr
        self.env = {}      # python name -> ("angle" | V)
        self.calls = []    # factories this one calls

    # ------------------------------------------------------------------ angle expressions
    def angle(self, n):
        if isinstance(n, ast.Name):
            if self.env.get(n.id) == "angle":
                return "v_" + n.id
            raise TranslateError(f"{n.id} is not a parameter (angle)")
        if isinstance(n, ast.BinOp) and isinstance(n.op, ast.Add):
            return f"(Ang.add {self.angle(n.left)} {self.angle(n.right)})"
        if isinstance(n, ast.BinOp) and isinstance(n.op, ast.Sub):
            return f"(Ang.add {self.angle(n.left)} (Ang.neg {self.angle(n.right)}))"
        if isinstance(n, ast.UnaryOp) and isinstance(n.op, ast.USub):
            return f"(Ang.neg {self.angle(n.operand)})"
        raise TranslateError(f"not an angle expression: {ast.unparse(n)}")

    def lin(self, n):
        """flatten  q · i^m · angle  over * / unary minus; returns (q, m, angle | 'PI' | None)"""
        if _const(n, (int, float)):
            return Fraction(n.value), 0, None
        if _const(n, (complex,)):
            if n.value.real != 0:
                raise TranslateError("complex literal with a real part")
            return Fraction(n.value.imag), 1, None
        if _is_mod_attr(n, ("sympy",), "I"):
            return Fraction(1), 1, None
        if _is_mod_attr(n, ("np",), "pi"):
            return Fraction(1), 0, "PI"
        if isinstance(n, ast.UnaryOp) and isinstance(n.op, ast.USub):
            q, m, a = self.lin(n.operand)
            return -q, m, a
        if isinstance(n, ast.BinOp) and isinstance(n.op, ast.Mult):
            q1, m1, a1 = self.lin(n.left)
            q2, m2, a2 = self.lin(n.right)
            if a1 is not None and a2 is not None:
                raise TranslateError(f"product of two angles: {ast.unparse(n)}")
            return q1 * q2, m1 + m2, a1 if a1 is not None else a2
        if isinstance(n, ast.BinOp) and isinstance(n.op, ast.Div):
            q1, m1, a1 = self.lin(n.left)
            q2, m2, a2 = self.lin(n.right)
            if m2 != 0 or a2 is not None or q2 == 0:
                raise TranslateError(f"divisor of an exponent / trig argument must be a real number: {ast.unparse(n)}")
            return q1 / q2, m1, a1
        return Fraction(1), 0, self.angle(n)

    def exp(self, arg, negate=False):
        q, m, a = self.lin(arg)
        if negate:
            q = -q
        if m != 1 or a is None:
            raise TranslateError(f"exp of something that is not  q * i * angle: {ast.unparse(arg)}")
        if a == "PI":
            if q == Fraction(1, 4):
                return V(S, "S.z")
            raise TranslateError(f"exp({q} i pi) has no rendering (only exp(i pi/4))")
        name = {Fraction(1): "eip", Fraction(-1): "eim", Fraction(1, 2): "ehp", Fraction(-1, 2): "ehm"}.get(q)
        if name is None:
            raise TranslateError(f"exp({q} i angle) has no rendering")
        return V(S, f"(Ang.{name} S {a})")

    def trig(self, which, arg):
        q, m, a = self.lin(arg)
        if m != 0 or a is None or a == "PI":
            raise TranslateError(f"{which} of something that is not  q * angle: {ast.unparse(arg)}")
        if q == Fraction(1, 2):
            return V(S, f"{a}.ch" if which == "cos" else f"{a}.sh")
        if q == 1:
            return V(S, f"(Ang.c {a})" if which == "cos" else f"(Ang.s {a})")
        raise TranslateError(f"{which}({q} * angle) has no rendering")

    # ------------------------------------------------------------------ divisors
    def inverse(self, d):
        """Lean text of 1/d for the divisors of RULE div"""
        if _const(d, (int, float)) and d.value == 2:
            return V(S, "S.half", True)
        if _const(d, (int, float)) and d.value == 1:
            return V(S, "1", True)
        if _is_sqrt2(d):
            return V(S, "S.r", True)
        if isinstance(d, ast.Call) and _is_mod_attr(d.func, ("sympy",), "exp") and len(d.args) == 1 and not d.keywords:
            return self.exp(d.args[0], negate=True)
        raise TranslateError(f"division by {ast.unparse(d)} has no rendering")

    # ------------------------------------------------------------------ expressions
    def expr(self, n):
        if _const(n, (int,)):
            return V(S, _int(n.value), True)
        if _const(n, (float,)):
            return V(S, _dyadic(Fraction(n.value)), True)
        if _const(n, (complex,)):
            if n.value.real != 0 or n.value.imag < 0:
                raise TranslateError(f"complex literal {n.value!r}")
            q = Fraction(n.value.imag)
            return V(S, "S.i" if q == 1 else f"({_dyadic(q)} * S.i)")
        if isinstance(n, ast.Constant):
            raise TranslateError(f"constant {n.value!r}")
        if _is_mod_attr(n, ("sympy",), "I"):
            return V(S, "S.i")
        if isinstance(n, ast.Name):
            v = self.env.get(n.id)
            if isinstance(v, V):
                return V(v.ty, "v_" + n.id, v.real)
            if v == "angle":
                raise TranslateError(f"parameter {n.id} used outside cos / sin / exp / a factory call")
            raise TranslateError(f"unknown name {n.id}")
        if isinstance(n, ast.UnaryOp) and isinstance(n.op, ast.USub):
            x = self.expr(n.operand)
            if x.ty != S:
                raise TranslateError("unary minus of a matrix")
            return V(S, f"(-{x.lean})", x.real)
        if isinstance(n, ast.BinOp):
            return self.binop(n)
        if isinstance(n, ast.Call):
            return self.call(n)
        raise TranslateError(f"unsupported expression {ast.unparse(n)}")

    def binop(self, n):
        if isinstance(n.op, ast.Pow):
            e = n.right
            if (_const(n.left, (int,)) and n.left.value == 2 and isinstance(e, ast.UnaryOp) and isinstance(e.op, ast.USub)
                    and _const(e.operand, (float,)) and e.operand.value == 0.5):
                return V(S, "S.r", True)
            raise TranslateError(f"power {ast.unparse(n)} (only 2 ** (-0.5))")
        if isinstance(n.op, ast.Div):
            x, inv = self.expr(n.left), self.inverse(n.right)
            if x.ty == M:
                return V(M, f"(Mat.smul {inv.lean} {x.lean})")
            return V(S, f"({x.lean} * {inv.lean})", x.real and inv.real)
        x, y = self.expr(n.left), self.expr(n.right)
        if isinstance(n.op, (ast.Add, ast.Sub)):
            if x.ty != S or y.ty != S:
                raise TranslateError("sum of matrices")
            r = y.lean if isinstance(n.op, ast.Add) else f"-{y.lean}"
            return V(S, f"({x.lean} + {r})", x.real and y.real)
        if isinstance(n.op, ast.Mult):
            if x.ty == S and y.ty == S:
                return V(S, f"({x.lean} * {y.lean})", x.real and y.real)
            if x.ty == S and y.ty == M:
                return V(M, f"(Mat.smul {x.lean} {y.lean})")
            if x.ty == M and y.ty == S:
                return V(M, f"(Mat.smul {y.lean} {x.lean})")
            return V(M, f"(Mat.mul {x.lean} {y.lean})")
        raise TranslateError(f"operator {type(n.op).__name__}")

    def call(self, n):
        if n.keywords or any(isinstance(a, ast.Starred) for a in n.args):
            raise TranslateError(f"keyword / starred arguments: {ast.unparse(n)}")
        f = n.func
        if isinstance(f, ast.Name) and f.id == "float" and len(n.args) == 1:
            x = self.expr(n.args[0])
            if x.ty != S or not x.real:
                raise TranslateError(f"float() of something that is not a real constant: {ast.unparse(n)}")
            return x
        if _is_sqrt2(n):
            return V(S, "((1 + 1) * S.r)", True)
        if _is_mod_attr(f, ("sympy",), "Matrix") and len(n.args) == 1:
            return self.matrix(n.args[0])
        if _is_mod_attr(f, ("sympy",), "simplify") and len(n.args) == 1:
            return self.expr(n.args[0])
        if _is_mod_attr(f, ("sympy",), "exp") and len(n.args) == 1:
            return self.exp(n.args[0])
        if (_is_mod_attr(f, ("sympy",), "cos") or _is_mod_attr(f, ("sympy",), "sin")) and len(n.args) == 1:
            return self.trig(f.attr, n.args[0])
        if isinstance(f, ast.Name) and f.id not in self.env:
            g = self.fn.__globals__.get(f.id)
            if inspect.isfunction(g) and g.__module__ == self.fn.__module__:
                k = len(inspect.signature(g).parameters)
                if k != len(n.args):
                    raise TranslateError(f"{f.id} takes {k} argument(s), called with {len(n.args)}")
                self.mt.need(g)           # raises if g is not translatable
                self.calls.append(g.__name__)
                return V(M, "(" + " ".join([f"tr_{g.__name__} S"] + [self.angle(a) for a in n.args]) + ")")
        raise TranslateError(f"unsupported call {ast.unparse(n)}")

    def matrix(self, lit):
        if not isinstance(lit, ast.List) or not lit.elts or not all(isinstance(r, ast.List) for r in lit.elts):
            raise TranslateError("sympy.Matrix of something that is not a literal list of lists")
        w = len(lit.elts[0].elts)
        if w == 0 or any(len(r.elts) != w for r in lit.elts):
            raise TranslateError("ragged / empty matrix literal")
        rows = []
        for r in lit.elts:
            es = [self.expr(e) for e in r.elts]
            if any(e.ty != S for e in es):
                raise TranslateError("matrix entry that is a matrix")
            rows.append("[" + ", ".join(e.lean for e in es) + "]")
        return V(M, "(Mat.ofLists [" + ",\n      ".join(rows) + "])")

    # ------------------------------------------------------------------ the function
    def translate(self):
        src = textwrap.dedent(inspect.getsource(self.fn))
        fd = ast.parse(src).body[0]
        if not isinstance(fd, ast.FunctionDef) or fd.decorator_list:
            raise TranslateError("not a plain function definition")
        a = fd.args
        if a.vararg or a.kwarg or a.kwonlyargs or a.defaults or a.posonlyargs or a.kw_defaults:
            raise TranslateError("only plain positional parameters")
        params = [p.arg for p in a.args]
        for p in params:
            if p in self.env:
                raise TranslateError(f"duplicate parameter {p}")
            self.env[p] = "angle"
        body = list(fd.body)
        if body and isinstance(body[0], ast.Expr) and _const(body[0].value, (str,)):
            body = body[1:]
        if not body or not isinstance(body[-1], ast.Return) or body[-1].value is None:
            raise TranslateError("the body must end in `return <expr>`")
        lets = []
        for st in body[:-1]:
            if not (isinstance(st, ast.Assign) and len(st.targets) == 1 and isinstance(st.targets[0], ast.Name)):
                raise TranslateError(f"unsupported statement {ast.unparse(st)[:60]}")
            nm = st.targets[0].id
            if nm in self.env:
                raise TranslateError(f"re-assignment of {nm}")
            v = self.expr(st.value)
            self.env[nm] = v
            lets.append(f"  let v_{nm} := {v.lean}\n")
        res = self.expr(body[-1].value)
        if res.ty != M:
            raise TranslateError("the factory does not return a matrix")
        rel = self.fn.__module__.replace(".", "/") + ".py"
        binders = "".join(f" (v_{p} : Ang R)" for p in params)
        text = (f"/-- translated from `{rel}:{self.fn.__name__}` -/\n"
                f"def tr_{self.fn.__name__} (S : Scal R){binders} : Mat R :=\n" + "".join(lets) + f"  {res.lean}\n")
        return text, len(params)


class ModuleTranslator:
    """translates every function defined in the module; `defs` keeps dependency order (callee before caller)"""

    def __init__(self, module):
        self.module = module
        self.defs = {}     # name -> (lean text, number of parameters)
        self.failed = {}   # name -> reason
        self._busy = set()

    def need(self, fn):
        nm = fn.__name__
        if nm in self.defs:
            return
        if nm in self.failed:
            raise TranslateError(f"calls {nm}, which is not translatable ({self.failed[nm]})")
        if nm in self._busy:
            raise TranslateError(f"recursive factory {nm}")
        self._busy.add(nm)
        try:
            try:
                out = FunctionTranslator(fn, self).translate()
            except TranslateError as e:
                self.failed[nm] = str(e)
                raise
            except (OSError, TypeError, SyntaxError, IndexError) as e:
                self.failed[nm] = f"{type(e).__name__}: {e}"
                raise TranslateError(self.failed[nm])
            self.defs[nm] = out
        finally:
            self._busy.discard(nm)

    def run(self):
        fns = [v for v in vars(self.module).values() if inspect.isfunction(v) and v.__module__ == self.module.__name__]
        fns.sort(key=lambda f: f.__code__.co_firstlineno)
        self.order = [f.__name__ for f in fns]
        for f in fns:
            try:
                self.need(f)
            except TranslateError:
                pass
        return self


def gate_bindings():
    """[(gate name, factory function or None, number of factory parameters)] of circuits/_builtin_gates.py in definition order, read
    off the live objects exactly as harness/tables_c02.py:gate_table does"""
    from orquestra.quantum.circuits import _builtin_gates as bg
    from orquestra.quantum.circuits import _gates
    rows = []
    for attr, v in vars(bg).items():
        if isinstance(v, _gates.MatrixFactoryGate):
            g = v
        elif inspect.isfunction(v) and v.__qualname__.startswith("make_parametric_gate_prototype.<locals>"):
            g = v()
        else:
            continue
        f = g.matrix_factory
        try:
            k = len(inspect.signature(f).parameters)
        except (TypeError, ValueError):
            k = 0
        rows.append((g.name, f if inspect.isfunction(f) else None, k))
    return rows


def translate():
    import importlib
    mod = importlib.import_module(MODULE)
    return ModuleTranslator(mod).run()


def render(mt=None):
    """text of lean/OQ/Generated/TranslatedC02.lean"""
    mt = mt or translate()
    out = ["-- generated by harness/translate_t10.py from /repo's current source (circuits/_matrices.py, _builtin_gates.py) — do not edit",
           "import OQ.Exec.Scal", "set_option linter.unusedVariables false", "namespace OQ.Generated.TranslatedMatrices", "open OQ",
           "variable {R : Type} [Zero R] [One R] [Add R] [Mul R] [Neg R]", ""]
    for nm in mt.defs:                       # dependency order
        out.append(mt.defs[nm][0])
    for nm in mt.order:
        if nm in mt.failed:
            out.append(f"-- tr_{nm}: NOT TRANSLATABLE ({mt.failed[nm]}) — the current source left the supported subset\n".replace("\n", " ") + "\n")
    # which factory is bound to which gate name
    out += ["/-- `<gate>.matrix` = `matrix_factory(*params)`: the factory each built-in gate of `_builtin_gates.py` is bound to (read off the",
            "    live gate objects), applied to a parameter list of the factory's arity; `none` otherwise -/",
            "def tr_builtinMatrix (S : Scal R) (name : String) (ps : List (Ang R)) : Option (Mat R) :=", "  match name, ps with"]
    notes = []
    for gname, f, k in gate_bindings():
        if f is None or f.__module__ != mt.module.__name__ or f.__name__ not in mt.defs or mt.defs[f.__name__][1] != k \
                or getattr(mt.module, f.__name__, None) is not f:
            notes.append(f"-- gate {gname}: its matrix factory has no translated definition")
            continue
        vs = [f"a{i}" for i in range(k)]
        out.append(f'  | "{gname}", [{", ".join(vs)}] => some (' + " ".join([f"tr_{f.__name__} S"] + vs) + ")")
    out += ["  | _, _ => none", ""] + notes + ["", "end OQ.Generated.TranslatedMatrices"]
    return "\n".join(out) + "\n"
