/-
  `circuits/_unitary_tools.py` + the matrix-level core of `Circuit.to_unitary` /
  `GateOperation.apply` (Mathlib-free).  Shared by C01, C04, C08, C16, C18.
  Basis index convention of the code: qubit 0 is the MOST significant bit.
-/
import OQ.Exec.Scal
namespace OQ.Lift
variable {R : Type} [Zero R] [One R] [Add R] [Mul R]

/-- `_basis_bitstring(i, n)` = `bin(i)[2:].zfill(n)` as a list of bits, for `i < 2^n`. -/
def basisBitstring (i n : Nat) : List Nat :=
  (List.range n).map (fun q => (i / 2 ^ (n - 1 - q)) % 2)

/-- `_permute(vector, permutation)` -/
def permute (v : List Nat) (perm : List Nat) : List Nat := perm.map (fun i => v.getD i 0)

/-- index of the unit vector `reduce(kron, basis[bit] for bit in state)`: bits read MSB first -/
def bitsToIndex (bits : List Nat) : Nat := bits.foldl (fun acc b => 2 * acc + b) 0

/-- `sorted(order) == list(range(len(order)))` -/
def isPermutation (order : List Nat) : Bool :=
  (List.range order.length).all (fun i => order.count i == 1)

/-- `_permutation_matrix(target_indices_order)`; `none` = `ValueError("Not all qubits given")`.
    Column `i` is the unit vector of the permuted bitstring of `i`. -/
def permutationMatrix (order : List Nat) : Option (Mat R) :=
  if !isPermutation order then none
  else
    let n := order.length
    some (Mat.ofFn (2 ^ n) (2 ^ n) (fun row col =>
      if row = bitsToIndex (permute (basisBitstring col n) order) then 1 else 0))

/-- `_permutation_making_qubits_adjacent(qubit_indices, num_qubits)` -/
def permMakingAdjacent (qs : List Nat) (n : Nat) : List Nat :=
  qs ++ (List.range n).filter (fun i => !qs.contains i)

def listMin : List Nat → Nat
  | [] => 0
  | x :: xs => xs.foldl min x
def listMax : List Nat → Nat
  | [] => 0
  | x :: xs => xs.foldl max x

/-- `_lift_matrix(matrix, qubit_indices, num_qubits)`.
    `none` models the exceptions of the code: empty index tuple (`min()` of nothing), duplicated
    indices (permutation check), an index ≥ num_qubits (negative power / shape error). -/
def liftMatrix (m : Mat R) (qs : List Nat) (n : Nat) : Option (Mat R) :=
  if qs.isEmpty then none
  else
    let smallest := listMin qs
    let largest := listMax qs
    if n ≤ largest then none
    else
      let shifted := qs.map (fun q => q - smallest)
      let span := largest - smallest + 1
      if span < qs.length then none else
      match permutationMatrix (R := R) (permMakingAdjacent shifted span) with
      | none => none
      | some p =>
        let innerGate := Mat.kron m (Mat.identity (2 ^ (span - qs.length)))
        let inner := Mat.mul (Mat.mul (Mat.transpose p) innerGate) p
        some (Mat.kron (Mat.kron (Mat.identity (2 ^ smallest)) inner) (Mat.identity (2 ^ (n - largest - 1))))

/-- a gate operation, reduced to what the embedding needs: the gate's matrix and its qubits -/
structure Op (R : Type) where
  m : Mat R
  qs : List Nat
deriving Inhabited

/-- `reduce(operator.matmul, lifted_matrices)` – `reduce` of an empty sequence raises (`none`) -/
def reduceMul : List (Mat R) → Option (Mat R)
  | [] => none
  | m :: ms => some (ms.foldl Mat.mul m)

/-- `Circuit.to_unitary()`: product over the REVERSED operation list -/
def toUnitary (n : Nat) (ops : List (Op R)) : Option (Mat R) :=
  match (ops.reverse.mapM (fun o => liftMatrix o.m o.qs n)) with
  | none => none
  | some ms => reduceMul ms

/-- `log2(len)` is an integer: `len` is a power of two; returns the exponent -/
def log2Exact (len : Nat) : Option Nat :=
  let k := Nat.log2 len
  if 2 ^ k = len then some k else none

/-- `GateOperation.apply(amplitude_vector)`: `none` = an exception (not a power of two → ValueError,
    or the lift fails). The vector is a `len × 1` matrix. -/
def applyOp (o : Op R) (v : Mat R) : Option (Mat R) :=
  match log2Exact v.r with
  | none => none
  | some n =>
    match liftMatrix o.m o.qs n with
    | none => none
    | some l => some (Mat.mul l v)

/-- applying the operations one at a time, in program order -/
def applyAll (ops : List (Op R)) (v : Mat R) : Option (Mat R) :=
  ops.foldlM (fun acc o => applyOp o acc) v

/-- `_circuit_size_by_operations` / `Circuit.n_qubits`: max of the declared width and 1 + largest index -/
def nQubits (declared : Nat) (ops : List (Op R)) : Nat :=
  ops.foldl (fun acc o => max acc (listMax o.qs + (if o.qs.isEmpty then 0 else 1))) declared

end OQ.Lift
