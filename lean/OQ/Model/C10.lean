/-
  C10 — statistics computed from measurements (Mathlib-free executable model).
  Mirrors  src/orquestra/quantum/measurements/measurements.py
             (_convert_bitstrings_to_vector, get_expectation_value_from_frequencies,
              Measurements.get_counts / add_counts / from_counts / get_distribution /
              get_expectation_values)
           src/orquestra/quantum/measurements/parities.py
             (check_parity_of_vector, get_parities_from_measurements).

  The scalar type `R` is only required to have the operations the code uses; the driver runs the
  model at `R = Rat`, the theorems hold over every field of characteristic 0 (ℚ, ℝ, ℂ).
  A shot (one measured bitstring, tuple `(0,1,1)` / string `"011"`) is a `List Bool`.
-/
namespace OQ.C10

/-- what the Python code raises (or, for `nan`, silently returns) -/
inductive Err
  | type      -- TypeError   (operator is not Ising)
  | index     -- IndexError  (no bitstrings at all; qubit index ≥ width)
  | value     -- ValueError  (numpy reshape / broadcasting / inhomogeneous array)
  | runtime   -- RuntimeError (MeasurementOutcomeDistribution refuses the dictionary)
  | nan       -- no exception: numpy divides by a zero total and returns NaN
  deriving DecidableEq, Repr

abbrev Shot := List Bool

/-- `[f(x) for x in xs]` where `f` may raise: the first exception aborts the comprehension -/
def mapE {α β : Type} (f : α → Except Err β) : List α → Except Err (List β)
  | [] => .ok []
  | x :: xs =>
    match f x with
    | .error e => .error e
    | .ok y =>
      match mapE f xs with
      | .error e => .error e
      | .ok ys => .ok (y :: ys)

/-! ### `Counter` / dict as an insertion-ordered association list -/

abbrev Counts := List (Shot × Nat)

def Counts.get : Counts → Shot → Nat
  | [], _ => 0
  | (k', v) :: rest, k => if k' = k then v else Counts.get rest k

/-- `counter[k] += 1` (a new key is appended: dicts keep insertion order) -/
def Counts.bump : Counts → Shot → Counts
  | [], k => [(k, 1)]
  | (k', v) :: rest, k => if k' = k then (k', v + 1) :: rest else (k', v) :: Counts.bump rest k

def Counts.total (c : Counts) : Nat := (c.map (fun p => p.2)).sum

/-- `Measurements.get_counts`: `dict(Counter(convert_tuples_to_bitstrings(self.bitstrings)))` -/
def getCounts (shots : List Shot) : Counts := shots.foldl Counts.bump []

/-- `Measurements.add_counts`: `self.bitstrings += [tuple(bits)] * counts[bitstring]` per key in dict
    order (`[x] * k` is empty for `k ≤ 0`). -/
def addCounts (bitstrings : List Shot) (counts : List (Shot × Int)) : List Shot :=
  counts.foldl (fun acc p => acc ++ List.replicate p.2.toNat p.1) bitstrings

/-- `Measurements.from_counts` -/
def fromCounts (counts : List (Shot × Int)) : List Shot := addCounts [] counts

/-- `_is_key_length_fixed` -/
def sameLength : List Shot → Bool
  | [] => true
  | k :: ks => ks.all (fun x => x.length == k.length)

/-- `Measurements.get_distribution`: `counts[b] / num_measurements` per key, handed to
    `MeasurementOutcomeDistribution(..)`, which raises RuntimeError on an empty dictionary or on keys of
    different lengths and otherwise keeps a dictionary whose values sum to 1 unchanged
    (they do, exactly: theorem `distribution_sum_one`). -/
def getDistribution {R : Type} [Div R] [IntCast R] (shots : List Shot) : Except Err (List (Shot × R)) :=
  let counts := getCounts shots
  let n : Int := shots.length
  let dist := counts.map (fun p => (p.1, (((p.2 : Nat) : Int) : R) / ((n : Int) : R)))
  if dist.isEmpty then .error .runtime
  else if !sameLength (dist.map (fun p => p.1)) then .error .runtime
  else .ok dist

/-! ### parity of the marked qubits, expectation value of a Z-string from frequencies -/

/-- `array.reshape(r, w)` of a flat list -/
def rowsOf {α : Type} : Nat → Nat → List α → List (List α)
  | 0, _, _ => []
  | r + 1, w, xs => xs.take w :: rowsOf r w (xs.drop w)

/-- `_convert_bitstrings_to_vector(keys)`: width = length of the FIRST key (IndexError when there is
    none), all characters concatenated, `.reshape(-1, width)` (ValueError when the width is 0 or does
    not divide the number of characters). -/
def convertBitstringsToVector (keys : List Shot) : Except Err (List Shot) :=
  match keys with
  | [] => .error .index
  | k0 :: _ =>
    let w := k0.length
    let all := keys.flatten
    if w = 0 then .error .value
    else if all.length % w ≠ 0 then .error .value
    else .ok (rowsOf (all.length / w) w all)

/-- `row[q]` inside numpy fancy indexing: IndexError outside the row -/
def bitOf (r : Shot) (q : Nat) : Except Err Nat :=
  match r[q]? with
  | some b => .ok b.toNat
  | none => .error .index

/-- `(row[marked].sum() + 1) % 2` -/
def rowParity (marked : List Nat) (r : Shot) : Except Err Nat :=
  match mapE (bitOf r) marked with
  | .error e => .error e
  | .ok bits => .ok ((bits.sum + 1) % 2)

/-- `check_parity_of_vector(rows, marked)`: all ones when nothing is marked, else
    `(rows[:, marked].sum(axis=1) + 1) % 2` (IndexError for a marked qubit outside the row). -/
def checkParityOfVector (rows : List Shot) (marked : List Nat) : Except Err (List Nat) :=
  if marked.isEmpty then .ok (rows.map (fun _ => 1))
  else mapE (rowParity marked) rows

/-- numpy broadcasting of `counts_array * parity_array` (both 1-d) -/
def broadcastMul (counts : List Nat) (signs : List Int) : Except Err (List Int) :=
  if signs.length = counts.length then .ok (List.zipWith (fun (c : Nat) (s : Int) => (c : Int) * s) counts signs)
  else if signs.length = 1 then .ok (counts.map (fun (c : Nat) => (c : Int) * signs.headD 0))
  else if counts.length = 1 then .ok (signs.map (fun s => ((counts.headD 0 : Nat) : Int) * s))
  else .error .value

/-- `get_expectation_value_from_frequencies(marked_qubits, bitstring_frequencies)` -/
def expectationFromFrequencies {R : Type} [Add R] [Zero R] [Div R] [IntCast R]
    (marked : List Nat) (freq : Counts) : Except Err R :=
  match convertBitstringsToVector (freq.map (fun p => p.1)) with
  | .error e => .error e
  | .ok rows =>
    match checkParityOfVector rows marked with
    | .error e => .error e
    | .ok par =>
      let signs := par.map (fun p => ((p : Nat) : Int) * 2 - 1)
      let num : Int := (((freq.map (fun p => p.2)).sum : Nat) : Int)
      match broadcastMul (freq.map (fun p => p.2)) signs with
      | .error e => .error e
      | .ok prods =>
        if num = 0 then .error .nan
        else .ok ((prods.map (fun x => ((x : Int) : R) / ((num : Int) : R))).sum)

/-! ### Ising operators -/

inductive Pauli | X | Y | Z
  deriving DecidableEq, Repr

/-- a `PauliTerm`: coefficient and the dictionary `_ops` (qubit ↦ letter, identities already dropped) -/
structure Term (R : Type) where
  coeff : R
  ops : List (Nat × Pauli)

/-- `PauliTerm.qubits` -/
def Term.qubits {R : Type} (t : Term R) : List Nat := t.ops.map (fun p => p.1)

/-- `PauliTerm.is_ising`: `set(ops.values()) == {"Z"} or is_constant` -/
def Term.isIsing {R : Type} (t : Term R) : Bool := t.ops.all (fun p => p.2 == Pauli.Z)

/-- `set.symmetric_difference` -/
def symmDiff (a b : List Nat) : List Nat :=
  a.filter (fun q => !b.contains q) ++ b.filter (fun q => !a.contains q)

/-- `enumerate` -/
def withIdx {α : Type} : Nat → List α → List (Nat × α)
  | _, [] => []
  | i, x :: xs => (i, x) :: withIdx (i + 1) xs

/-- `ExpectationValues(values, [correlations], [estimator_covariances])`; a covariance entry `none`
    is a non-finite float (division by a zero denominator, no exception). -/
structure ExpectationValues (R : Type) where
  values : List R
  correlations : List (List R)
  covariances : List (List (Option R))

/-- entry `[i, j]` of the correlation matrix as the double loop fills it: the diagonal is
    `coefficient**2`, `[i, j]` with `j < i` is computed from the symmetric difference of the supports
    with term `i` first, and `[j, i]` is a copy of `[i, j]`. -/
def corrEntry {R : Type} [Add R] [Zero R] [Mul R] [Div R] [IntCast R]
    (freq : Counts) (a b : Nat × Term R) : Except Err R :=
  if a.1 = b.1 then .ok (a.2.coeff * a.2.coeff)
  else if b.1 < a.1 then
    match expectationFromFrequencies (R := R) (symmDiff a.2.qubits b.2.qubits) freq with
    | .error e => .error e
    | .ok x => .ok (a.2.coeff * b.2.coeff * x)
  else
    match expectationFromFrequencies (R := R) (symmDiff b.2.qubits a.2.qubits) freq with
    | .error e => .error e
    | .ok x => .ok (b.2.coeff * a.2.coeff * x)

/-- `x / denominator` on a numpy array: non-finite (no exception) when the denominator is 0 -/
def divOrNan {R : Type} [Div R] [IntCast R] (x : R) (d : Int) : Option R :=
  if d = 0 then none else some (x / ((d : Int) : R))

/-- `term.coefficient * get_expectation_value_from_frequencies(term.qubits, bitstring_frequencies)` -/
def termValue {R : Type} [Add R] [Zero R] [Mul R] [Div R] [IntCast R]
    (freq : Counts) (t : Term R) : Except Err R :=
  match expectationFromFrequencies (R := R) t.qubits freq with
  | .error e => .error e
  | .ok x => .ok (t.coeff * x)

/-- `(correlations - values[:, None] * values[None, :]) / denominator` -/
def covMatrix {R : Type} [Mul R] [Sub R] [Div R] [IntCast R]
    (corr : List (List R)) (values : List R) (denom : Int) : List (List (Option R)) :=
  List.zipWith (fun row vi => List.zipWith (fun c vj => divOrNan (c - vi * vj) denom) row values) corr values

/-- `Measurements.get_expectation_values(ising_operator, use_bessel_correction)` -/
def getExpectationValues {R : Type} [Add R] [Zero R] [Mul R] [Sub R] [Div R] [IntCast R]
    (shots : List Shot) (terms : List (Term R)) (bessel : Bool) : Except Err (ExpectationValues R) :=
  if !(terms.all Term.isIsing) then .error .type
  else
    let freq := getCounts shots
    let n : Int := shots.length
    match mapE (termValue freq) terms with
    | .error e => .error e
    | .ok values =>
      let it := withIdx 0 terms
      match mapE (fun a => mapE (corrEntry freq a) it) it with
      | .error e => .error e
      | .ok corr =>
        let denom : Int := if bessel then n - 1 else n
        .ok ⟨values, corr, covMatrix corr values denom⟩

/-! ### parities -/

/-- `Parities(values, [correlations])`: (even, odd) tallies per term and per ordered pair of terms -/
structure Parities where
  values : List (Nat × Nat)
  correlations : List (List (Nat × Nat))

def dot (a b : List Nat) : Nat := (List.zipWith (fun x y => x * y) a b).sum

/-- `check_parity_of_vector(bitstrings_vector, qubits)` as `get_parities_from_measurements` reaches it:
    `np.array([*keys])` of no tuples at all is a 1-d empty array, on which `[:, idx]` raises IndexError
    (only reached for a term with at least one qubit). -/
def parityOf (rows : List Shot) (marked : List Nat) : Except Err (List Nat) :=
  if rows.isEmpty && !marked.isEmpty then .error .index else checkParityOfVector rows marked

/-- `[(parity * counts).sum(), ((1 - parity) * counts).sum()]` for one term -/
def termTally {R : Type} (rows : List Shot) (counts : List Nat) (t : Term R) : Except Err (Nat × Nat) :=
  match parityOf rows t.qubits with
  | .error e => .error e
  | .ok par => .ok (dot par counts, dot (par.map (fun p => 1 - p)) counts)

/-- the tallies of one ordered pair: `|parity1 - parity2|` is 0 where the parities agree -/
def pairTally {R : Type} (rows : List Shot) (counts : List Nat) (t1 t2 : Term R) : Except Err (Nat × Nat) :=
  match parityOf rows t1.qubits with
  | .error e => .error e
  | .ok p1 =>
    match parityOf rows t2.qubits with
    | .error e => .error e
    | .ok p2 =>
      let differ := List.zipWith (fun (x y : Nat) => (((x : Nat) : Int) - ((y : Nat) : Int)).natAbs) p1 p2
      .ok (dot (differ.map (fun d => 1 - d)) counts, dot differ counts)

/-- `get_parities_from_measurements(measurements, ising_operator)`.  `np.array([*keys])` of tuples of
    different lengths raises ValueError. -/
def getParities {R : Type} (measurements : List Shot) (terms : List (Term R)) : Except Err Parities :=
  if !(terms.all Term.isIsing) then .error .type
  else
    let freq := getCounts measurements
    let rows := freq.map (fun p => p.1)
    let counts := freq.map (fun p => p.2)
    if !sameLength rows then .error .value
    else
      match mapE (termTally rows counts) terms with
      | .error e => .error e
      | .ok values =>
        match mapE (fun t1 => mapE (pairTally rows counts t1) terms) terms with
        | .error e => .error e
        | .ok corr => .ok ⟨values, corr⟩

end OQ.C10
