/-
  C04 / T13 — the numpy EXTERNALS of the translated `Wavefunction` views (`get_probabilities`, `get_outcome_probs`,
  `sample_from_wavefunction`; `OQ.Generated.Wf.Ext`, harness/tables_t13.py) instantiated in the terms of the C04 model (Mathlib-free;
  compiled into the driver): a numeric wavefunction is the list of its amplitudes over any scalar type `R` with the record `Scal R`;
  `np.abs(·) ** 2` is `normSq` entrywise; the random generator is the list `draws` of indices that `rng.choice` draws (as in
  OQ/Model/C04.lean): `rng.choice(a, size, p)` returns `a[i]` for the drawn `i` – `Exc.other 1` stands for "not something rng.choice
  can return" (wrong number of draws, an index outside `a`), the model's `Err.draw`.
-/
import OQ.Model.C04
import OQ.Generated.TranslatedC12Wf
namespace OQ.C04.T13
open OQ.Generated OQ.PyT

/-- `rng.choice(a, size=n, p=…)` when the generator draws the indices `draws` -/
def choose {α : Type} (draws : List Nat) (a : List α) (size : Int) : Except Exc (List α) :=
  if (draws.length : Int) ≠ size then .error (.other 1)
  else match draws.mapM (fun i => a[i]?) with
    | none => .error (.other 1)
    | some l => .ok l

section
variable {R : Type} [Zero R] [One R] [Add R] [Mul R] [Neg R]

abbrev VExt (R : Type) := Wf.Ext (List R) (List R) R (List R) R Unit Unit Unit Bool Unit Unit (List Nat) (List Nat) (List (List Char))

def viewExt (k : Scal R) (isOne : R → Bool) : VExt R where
  complex_of := fun _ => .ok ()
  np_complex128 := ()
  np_float64 := ()
  np_array_object_flatten := fun v => .ok v
  np_array_dtype_flatten := fun v _ => .ok v
  isinstance_ndarray := fun _ => true
  isinstance_Matrix := fun _ => false
  attr_free_symbols := fun _ => false
  getattr_free_symbols := fun _ => false
  np_abs_sq := fun v => v.map (normSq k)
  np_sum := fun a => a.foldl (· + ·) 0
  np_isclose_one := isOne
  gt_one := fun _ => false
  np_array_c128 := fun l => .ok l
  len_input := fun v => (v.length : Int)
  len_vector := fun v => (v.length : Int)
  np_array_complex := fun v => .ok v
  sympy_Matrix := fun v => .ok v
  int_log2 := fun n => if n ≤ 0 then .error .ValueError else .ok (Nat.log2 n.toNat : Nat)
  copy := fun v => v
  subs := fun v _ => v
  get_ordering := fun _ => .ok ()
  asarray_take := fun v _ => .ok v
  default_rng := fun seed => seed
  isinstance_list_or_ndarray := fun _ => false
  first_of := fun x => x
  choice_objects := fun draws a size _ => choose draws a size
  choice_strings := fun draws a size _ => choose draws a size
  setitem := fun v _ _ => (v, .ok ())
  setitem_all := fun _ o => (o, .ok ())
  truthy_FS := fun b => b
  iter_vector := fun v => v
  iter_probs := fun a => a
  as_input := fun v => v
  num_of_int := fun _ => 0
  iter_strings := fun s => s

end
end OQ.C04.T13
