/-
  C08 — circuit-level constructions: inverse, controlled circuit, gate layers, ancillas
  (Mathlib-free executable model).
  Mirrors  src/orquestra/quantum/circuits/_gates.py      (gate wrappers: `controlled`, `dagger`, `power`, `exp`, `matrix`, `num_qubits`)
           src/orquestra/quantum/circuits/_circuit.py    (`Circuit.__init__`, `__add__`, `inverse`, `controlled`, `to_unitary`)
           src/orquestra/quantum/circuits/_generators.py (`apply_gate_to_qubits`, `create_layer_of_gates`, `add_ancilla_register`).
  Externals (sympy `Matrix.exp`, `Matrix.__pow__`; the iteration order of a Python `set`) are parameters.
-/
import OQ.Exec.Scal
import OQ.Model.Lift
import OQ.Model.Gates
namespace OQ.C08

/-! ### gates (`_gates.py`) -/

/-- A gate object.  `base` is a `MatrixFactoryGate` (built-in or custom) reduced to what the circuit-level
    constructions look at: its name, its (already evaluated) matrix, `num_qubits`, the `is_hermitian` flag.
    The other constructors are the wrapper dataclasses `ControlledGate`, `Dagger`, `Exponential`, `Power`. -/
inductive Gate (R : Type) where
  | base (name : String) (m : Mat R) (nq : Nat) (herm : Bool)
  | ctrl (g : Gate R) (k : Nat)
  | dag (g : Gate R)
  | exp (g : Gate R)
  | pow (g : Gate R) (e : Rat)
deriving Inhabited

/-- what the code delegates to sympy: `Matrix.exp()` and `Matrix.__pow__(exponent)`;
    `none` = sympy raises (e.g. negative power of a singular matrix). -/
structure Ext (R : Type) where
  mexp : Mat R → Option (Mat R)
  mpow : Mat R → Rat → Option (Mat R)

namespace Gate
variable {R : Type}

/-- `num_qubits` -/
def nq : Gate R → Nat
  | base _ _ n _ => n
  | ctrl g k => nq g + k
  | dag g => nq g
  | exp g => nq g
  | pow g _ => nq g

/-- `.power(exponent)`: `ControlledGate.power` pushes the power under the controls,
    every other class wraps itself in `Power`. -/
def power : Gate R → Rat → Gate R
  | ctrl g k, e => ctrl (power g e) k
  | g, e => pow g e

/-- `.dagger` (`_gates.py:225` ff.):
    MatrixFactoryGate → itself if `is_hermitian` else `Dagger(self)`;
    ControlledGate → ControlledGate(wrapped.dagger, k);  Dagger → wrapped;
    Exponential → wrapped.dagger.exp;  Power → wrapped.dagger.power(exponent). -/
def dagger : Gate R → Gate R
  | base nm m n h => if h then base nm m n h else dag (base nm m n h)
  | ctrl g k => ctrl (dagger g) k
  | dag g => g
  | exp g => exp (dagger g)
  | pow g e => power (dagger g) e

/-- `.controlled(j)`:
    MatrixFactoryGate / Exponential → ControlledGate(self, j);  ControlledGate(w,k) → ControlledGate(w, k+j);
    Dagger(w) → w.controlled(j).dagger;  Power(w,e) → w.controlled(j).power(e). -/
def controlled : Gate R → Nat → Gate R
  | base nm m n h, j => ctrl (base nm m n h) j
  | ctrl g k, j => ctrl g (k + j)
  | dag g, j => dagger (controlled g j)
  | exp g, j => ctrl (exp g) j
  | pow g e, j => power (controlled g j) e

variable [Zero R] [One R]

/-- `sympy.Matrix.diag(sympy.eye(d), m)` -/
def ctrlMat (d : Nat) (m : Mat R) : Mat R :=
  Mat.ofFn (d + m.r) (d + m.c) (fun i j =>
    if i < d ∧ j < d then (if i = j then 1 else 0)
    else if d ≤ i ∧ d ≤ j then m.get (i - d) (j - d) else 0)

/-- `sympy.Matrix.adjoint()` with the conjugation of the scalar record -/
def adj (k : Scal R) (m : Mat R) : Mat R := Mat.ofFn m.c m.r (fun i j => k.cj (m.get j i))

/-- `.matrix`:
    ControlledGate: `diag(eye(2**num_qubits − 2**wrapped.num_qubits), wrapped.matrix)`;
    Dagger: `wrapped.matrix.adjoint()`;  Exponential: `wrapped.matrix.exp()`;  Power: `wrapped.matrix ** exponent`. -/
def matrix (k : Scal R) (x : Ext R) : Gate R → Option (Mat R)
  | base _ m _ _ => some m
  | ctrl g c => (matrix k x g).map (ctrlMat (2 ^ (nq g + c) - 2 ^ nq g))
  | dag g => (matrix k x g).map (adj k)
  | exp g => (matrix k x g).bind x.mexp
  | pow g e => (matrix k x g).bind (fun m => x.mpow m e)

end Gate

/-! ### circuits (`_circuit.py`), generic in the gate type -/

/-- `GateOperation(gate, qubit_indices)` -/
structure GOp (G : Type) where
  gate : G
  qs : List Nat
deriving Inhabited

/-- `Circuit`: `_operations`, `_n_qubits` -/
structure Circ (G : Type) where
  ops : List (GOp G)
  n : Nat
deriving Inhabited

variable {G : Type}

/-- `_circuit_size_by_operations`: 0 for no operations, else 1 + the largest qubit index.
    (Every operation names at least one qubit; an operation without qubits is outside the model.) -/
def sizeByOps (ops : List (GOp G)) : Nat :=
  if ops.isEmpty then 0 else ((ops.flatMap (fun o => o.qs)).foldl max 0) + 1

/-- `Circuit(operations, n_qubits)`: a truthy `n_qubits` is stored as is, `None`/0 means "by operations". -/
def mkCirc (ops : List (GOp G)) (declared : Nat) : Circ G :=
  ⟨ops, if declared ≠ 0 then declared else sizeByOps ops⟩

/-- `circuit + operation` (`_append_operation`) -/
def appendOp (c : Circ G) (o : GOp G) : Circ G :=
  mkCirc (c.ops ++ [o]) (max c.n (o.qs.foldl max 0 + 1))

/-- `circuit + circuit` (`_append_circuit`) -/
def appendCirc (c d : Circ G) : Circ G :=
  mkCirc (c.ops ++ d.ops) (max c.n d.n)

/-- `Circuit.inverse()` (`_circuit.py:157`): reversed order, each gate replaced by its dagger, same `n_qubits`. -/
def inverse (dg : G → G) (c : Circ G) : Circ G :=
  mkCirc (c.ops.reverse.map (fun o => ⟨dg o.gate, o.qs⟩)) c.n

/-- `i + 1 if i >= control_index else i` -/
def shiftIdx (ci i : Nat) : Nat := if ci ≤ i then i + 1 else i

/-- `Circuit.controlled(control_index)` (`_circuit.py:175`): every gate gets one control in front,
    indices ≥ control_index move up by one; the result is `Circuit(c_ops)` (width by operations). -/
def controlledCirc (ctl : G → G) (ci : Nat) (c : Circ G) : Circ G :=
  mkCirc (c.ops.map (fun o => ⟨ctl o.gate, ci :: o.qs.map (shiftIdx ci)⟩)) 0

/-! ### builders (`_generators.py`) -/

inductive BuildErr where
  /-- `assert len(parameters) == len(unique_qubit_idx)` failed -/
  | assertion
deriving Repr, DecidableEq

/-- `apply_gate_to_qubits(circuit, qubit_indices, gate_factory, parameters)` (`_generators.py:37`).
    `order` is the iteration order of `set(qubit_indices)` – an external of CPython; its law
    (a duplicate-free enumeration of the listed qubits) is a hypothesis of the theorems.
    `rows = none` is `parameters=None` (then `fixed` is the gate itself), `rows = some ps` pairs the
    rows positionally with `order` (`zip`) and calls `factory(*row)`. -/
def applyGateToQubits {P : Type} (c : Circ G) (order : List Nat) (factory : P → G) (fixed : G)
    (rows : Option (List P)) : Except BuildErr (Circ G) :=
  match rows with
  | some ps =>
    if ps.length ≠ order.length then .error .assertion
    else .ok ((order.zip ps).foldl (fun acc qp => appendOp acc ⟨factory qp.2, [qp.1]⟩) c)
  | none => .ok (order.foldl (fun acc q => appendOp acc ⟨fixed, [q]⟩) c)

/-- `create_layer_of_gates(number_of_qubits, gate_factory, parameters)` (`_generators.py:14`):
    `apply_gate_to_qubits(Circuit(), range(n), …)`; `order` is the iteration order of `set(range(n))`. -/
def createLayer {P : Type} (order : List Nat) (factory : P → G) (fixed : G)
    (rows : Option (List P)) : Except BuildErr (Circ G) :=
  applyGateToQubits (mkCirc [] 0) order factory fixed rows

/-- `add_ancilla_register(circuit, n_ancilla_qubits)` (`_generators.py:73`):
    `extended += I(circuit.n_qubits + i)` for `i in range(n_ancilla_qubits)`. -/
def addAncilla (iGate : G) (c : Circ G) (k : Nat) : Circ G :=
  (List.range k).foldl (fun acc i => appendOp acc ⟨iGate, [c.n + i]⟩) c

/-! ### `Circuit.to_unitary()` through the shared embedding model -/

section unitary
variable {R : Type} [Zero R] [One R] [Add R] [Mul R]

/-- the matrices of the gates next to their qubits; `none` if sympy raised for some gate, or if a matrix is
    not `2^|qs| × 2^|qs|` (then the products inside `_lift_matrix` raise a shape error) -/
def toOps (k : Scal R) (x : Ext R) (c : Circ (Gate R)) : Option (List (Lift.Op R)) :=
  c.ops.mapM (fun o => (Gate.matrix k x o.gate).bind (fun m =>
    if m.r = 2 ^ o.qs.length ∧ m.c = 2 ^ o.qs.length then some (⟨m, o.qs⟩ : Lift.Op R) else none))

/-- `Circuit.to_unitary()` -/
def unitary (k : Scal R) (x : Ext R) (c : Circ (Gate R)) : Option (Mat R) :=
  (toOps k x c).bind (Lift.toUnitary c.n)

/-- the identity gate `I` of `_builtin_gates.py` -/
def iGate : Gate R := .base "I" Gates.i 1 true

/-- `is_hermitian` flags of `_builtin_gates.py` (everything else, and every custom gate, is `False`) -/
def builtinHerm (name : String) : Bool :=
  ["X", "Y", "Z", "H", "I", "GPi", "CNOT", "CZ", "SWAP", "Delay"].contains name

/-- `num_qubits` of the built-in gates -/
def builtinNq (name : String) : Nat :=
  if ["CNOT", "CZ", "SWAP", "ISWAP", "CPHASE", "XX", "YY", "ZZ", "XY", "MS"].contains name then 2 else 1

/-- a built-in gate object: `none` for an unknown name / wrong number of parameters -/
def builtinGate [Neg R] (k : Scal R) (name : String) (angles : List (Ang R)) : Option (Gate R) :=
  (Gates.builtinMatrix k name angles).map (fun m => .base name m (builtinNq name) (builtinHerm name))

end unitary

end OQ.C08
