/-
  C11 — operators and result artefacts survive dict / file / text round trips
  (Mathlib-free executable model).
  Mirrors  src/orquestra/quantum/operators/_io.py            (convert_op_to_dict / convert_dict_to_op,
                                                              save_/load_operator, save_/load_operator_set)
           src/orquestra/quantum/operators/_pauli_operators.py (PauliTerm.from_iterable, PauliSum.__add__,
                                                              PauliSum.simplify, __repr__ of term and sum,
                                                              the string parser)
           src/orquestra/quantum/utils.py                    (convert_array_to_dict / convert_dict_to_array,
                                                              ValueEstimate, save_/load_list, nmeas estimate)
           src/orquestra/quantum/measurements/{measurements,expectation_values,parities}.py
           src/orquestra/quantum/circuits/layouts.py         (layers / connectivity / ordering)

  Externals are parameters:
    * `negl re im`      – `np.isclose(coefficient, 0.0)` (the library's 1e-8 zero tolerance)
    * `order`           – iteration order of the frozenset `term.operations`
    * `showC` / `readC` – `str(coefficient)` and `complex(text)`
    * `ser` / `de`      – `json.dumps` / `json.load` (rapidjson or stdlib) on the dictionary forms
    * `toL` / `ofL` / `truthy` – `ndarray.tolist()`, `np.array(list)`, truth value of a JSON list
-/
namespace OQ.C11

/-! ## Operators -/

inductive Pauli | X | Y | Z | I
deriving DecidableEq, Repr, Inhabited

/-- `PauliTerm._ops`: an insertion-ordered dict qubit ↦ operator, as an association list. -/
abbrev Ops := List (Nat × Pauli)

/-- a `PauliTerm`; the coefficient type is a parameter (a Python number object for printing,
    an exact value for the dictionary form). -/
structure Term (κ : Type) where
  ops : Ops
  coef : κ
deriving DecidableEq, Repr

/-- `PauliSum.terms` -/
abbrev PSum (κ : Type) := List (Term κ)

/-- a Python number used as coefficient: an `int`/`float` (`real`) or a `complex` (`cplx`). -/
inductive Coef
  | real (re : Rat)
  | cplx (re im : Rat)
deriving DecidableEq, Repr

def Coef.re : Coef → Rat
  | .real r => r
  | .cplx r _ => r
def Coef.im : Coef → Rat
  | .real _ => 0
  | .cplx _ i => i

/-- Python `a + b` on numbers: the result is complex iff one of them is. -/
def Coef.add (a b : Coef) : Coef :=
  match a, b with
  | .real x, .real y => .real (x + y)
  | _, _ => .cplx (a.re + b.re) (a.im + b.im)
/-- the `int` 0 with which `sum(...)` starts -/
def Coef.zeroInt : Coef := .real 0
/-- Python `a * b` on complex values -/
def cmul (a b : Rat × Rat) : Rat × Rat := (a.1 * b.1 - a.2 * b.2, a.1 * b.2 + a.2 * b.1)

inductive Err | value
deriving DecidableEq, Repr

/-- the class invariant of `PauliTerm` (established by `__init__`): `_ops` is a dict (distinct keys)
    holding no identity. -/
def Term.WF {κ : Type} (t : Term κ) : Prop :=
  (t.ops.map (fun p => p.1)).Nodup ∧ ∀ p ∈ t.ops, p.2 ≠ Pauli.I

/-! ### the dictionary form (`convert_op_to_dict`) -/

structure PauliOpD where
  qubit : Int
  op : Pauli
deriving DecidableEq, Repr

structure CoefD where
  real : Rat
  imag : Option Rat
deriving DecidableEq, Repr

structure TermD where
  pauliOps : List PauliOpD
  coefficient : CoefD
deriving DecidableEq, Repr

/-- `{"terms": [...]}` -/
structure OpD where
  terms : List TermD
deriving DecidableEq, Repr

/-- one `term_dict`; `order` is the iteration order of the frozenset `term.operations`. -/
def termToDict (order : Ops → Ops) (t : Term Coef) : TermD :=
  { pauliOps := (order t.ops).map (fun o => ⟨(o.1 : Int), o.2⟩),
    coefficient :=
      match t.coef with
      | .cplx re im => ⟨re, some im⟩      -- isinstance(term.coefficient, complex)
      | .real re => ⟨re, none⟩ }

/-- `convert_op_to_dict` (a `PauliTerm` is passed as its one-element `.terms`). -/
def opToDict (order : Ops → Ops) (s : PSum Coef) : OpD := ⟨s.map (termToDict order)⟩

/-! ### `convert_dict_to_op` -/

/-- `len(set(idx_list)) == len(idx_list)` -/
def allDistinct {α : Type} [DecidableEq α] : List α → Bool
  | [] => true
  | x :: xs => !xs.contains x && allDistinct xs

/-- `PauliTerm.from_iterable(terms, coefficient)` followed by `PauliTerm.__init__`:
    duplicate indices and negative indices raise `ValueError`; identities are dropped. -/
def fromIterable (terms : List (Pauli × Int)) (c : Coef) : Except Err (Term Coef) :=
  if !allDistinct (terms.map (fun p => p.2)) then .error .value
  else
    let resultDict := (terms.filter (fun p => p.1 ≠ Pauli.I)).map (fun p => (p.2, p.1))
    if resultDict.any (fun p => p.1 < 0) then .error .value
    else .ok ⟨resultDict.map (fun p => (p.1.toNat, p.2)), c⟩

/-- equality of the frozensets `term.operations` of two terms (the key of `simplify`) -/
def sameKey (a b : Ops) : Bool := a.isPerm b

/-- `like_terms[key].append(term)` / `like_terms[key] = [term]` on an `OrderedDict` -/
def insertGroup (gs : List (List (Term Coef))) (t : Term Coef) : List (List (Term Coef)) :=
  match gs with
  | [] => [[t]]
  | g :: rest =>
    match g with
    | [] => g :: insertGroup rest t
    | h :: _ => if sameKey h.ops t.ops then (g ++ [t]) :: rest else g :: insertGroup rest t

def groups (s : PSum Coef) : List (List (Term Coef)) := s.foldl insertGroup []

/-- `sum(t.coefficient for t in term_list)` -/
def sumCoef (g : List (Term Coef)) : Coef := g.foldl (fun acc t => acc.add t.coef) Coef.zeroInt

/-- the body of the second loop of `simplify` for one group -/
def simplifyGroup (negl : Rat → Rat → Bool) (g : List (Term Coef)) : Option (Term Coef) :=
  match g with
  | [] => none
  | first :: rest =>
    if rest.isEmpty && !negl first.coef.re first.coef.im then some first
    else
      let coeff := sumCoef g
      if !negl coeff.re coeff.im then some ⟨first.ops, coeff⟩ else none

/-- `PauliSum.simplify` -/
def simplify (negl : Rat → Rat → Bool) (s : PSum Coef) : PSum Coef :=
  (groups s).filterMap (simplifyGroup negl)

/-- `PauliSum.__add__(self, term)`: copy all terms, then simplify -/
def addTerm (negl : Rat → Rat → Bool) (full : PSum Coef) (t : Term Coef) : PSum Coef :=
  simplify negl (full ++ [t])

/-- the coefficient read from a `term_dict`: `real`, plus `1j * imag` when `imag` is truthy -/
def coefOfDict (d : CoefD) : Coef :=
  match d.imag with
  | some i =>
    if i ≠ 0 then
      let prod := cmul (0, 1) (i, 0)            -- 1j * imag
      .cplx (d.real + prod.1) (0 + prod.2)      -- real + (…)
    else .real d.real
  | none => .real d.real

/-- `convert_dict_to_op` -/
def dictToOp (negl : Rat → Rat → Bool) (d : OpD) : Except Err (PSum Coef) :=
  d.terms.foldlM (fun full td => do
    let operator := td.pauliOps.map (fun p => (p.op, p.qubit))
    let t ← fromIterable operator (coefOfDict td.coefficient)
    pure (addTerm negl full t)) []

/-- `save_operator` then `load_operator` (path or open file: both end in `json.load`) -/
def saveOperator (ser : OpD → String) (order : Ops → Ops) (s : PSum Coef) : String :=
  ser (opToDict order s)

def loadOperator (de : String → Option OpD) (negl : Rat → Rat → Bool) (text : String) :
    Except Err (PSum Coef) :=
  match de text with
  | some d => dictToOp negl d
  | none => .error .value

/-- `save_operator_set` / `load_operator_set`: `{"operators": [...]}` -/
def saveOperatorSet (ser : List OpD → String) (order : Ops → Ops) (l : List (PSum Coef)) : String :=
  ser (l.map (opToDict order))

def loadOperatorSet (de : String → Option (List OpD)) (negl : Rat → Rat → Bool) (text : String) :
    Except Err (List (PSum Coef)) :=
  match de text with
  | some ds => ds.mapM (dictToOp negl)
  | none => .error .value

/-! ## Text: `__repr__` and the string parser (on `List Char`) -/

def pauliChar : Pauli → Char
  | .X => 'X' | .Y => 'Y' | .Z => 'Z' | .I => 'I'

def digitChar (d : Nat) : Char :=
  match d with
  | 0 => '0' | 1 => '1' | 2 => '2' | 3 => '3' | 4 => '4'
  | 5 => '5' | 6 => '6' | 7 => '7' | 8 => '8' | _ => '9'

def digitVal (c : Char) : Option Nat :=
  if c = '0' then some 0 else if c = '1' then some 1 else if c = '2' then some 2
  else if c = '3' then some 3 else if c = '4' then some 4 else if c = '5' then some 5
  else if c = '6' then some 6 else if c = '7' then some 7 else if c = '8' then some 8
  else if c = '9' then some 9 else none

/-- decimal digits, least significant first -/
def digitsLE : Nat → Nat → List Char
  | 0, n => [digitChar (n % 10)]
  | fuel + 1, n => if n < 10 then [digitChar n] else digitChar (n % 10) :: digitsLE fuel (n / 10)

/-- `str(n)` for a non-negative `int` -/
def showNat (n : Nat) : List Char := (digitsLE n n).reverse

/-- `str(i)` for an `int` -/
def showInt (i : Int) : List Char :=
  if i < 0 then '-' :: showNat (-i).toNat else showNat i.toNat

/-- `int(digits)` -/
def readNat (s : List Char) : Nat := s.foldl (fun acc c => acc * 10 + (digitVal c).getD 0) 0

/-- `sep.join(parts)` -/
def joinWith (sep : List Char) : List (List Char) → List Char
  | [] => []
  | [x] => x
  | x :: y :: rest => x ++ sep ++ joinWith sep (y :: rest)

/-- `[f"{self[index]}{index}" for index in self._ops]` -/
def reprOps (ops : Ops) : List (List Char) := ops.map (fun p => pauliChar p.2 :: showNat p.1)

/-- `PauliTerm.__repr__` -/
def reprTerm {κ : Type} (showC : κ → List Char) (t : Term κ) : List Char :=
  let termStrs := reprOps t.ops
  let termStrs := if termStrs.isEmpty then [['I']] else termStrs
  showC t.coef ++ '*' :: joinWith ['*'] termStrs

/-- `PauliSum.__repr__`; `zero` is the `int` 0 of `PauliTerm("I0", 0)` -/
def reprSum {κ : Type} (showC : κ → List Char) (zero : κ) (s : PSum κ) : List Char :=
  if s.isEmpty then reprTerm showC ⟨[], zero⟩
  else joinWith [' ', '+', ' '] (s.map (reprTerm showC))

/-- the first bracket character of a text, if any -/
def firstBracket : List Char → Option Char
  | [] => none
  | c :: rest => if c = '(' ∨ c = ')' then some c else firstBracket rest

/-- the look-ahead `[^(]*\)` of the sum-splitting regex matches here -/
def closesFirst (rest : List Char) : Bool := firstBracket rest = some ')'

/-- `re.split(r"\+(?![^(]*\))", text)` -/
def splitPlus : List Char → List (List Char)
  | [] => [[]]
  | c :: rest =>
    if c = '+' ∧ ¬ closesFirst rest then [] :: splitPlus rest
    else
      match splitPlus rest with
      | [] => [[c]]
      | h :: t => (c :: h) :: t

/-- `text.split("*")` -/
def splitStar : List Char → List (List Char)
  | [] => [[]]
  | c :: rest =>
    if c = '*' then [] :: splitStar rest
    else
      match splitStar rest with
      | [] => [[c]]
      | h :: t => (c :: h) :: t

def isSpace (c : Char) : Bool := c = ' '
/-- ASCII whitespace removed by `str.strip()`: the characters with `str.isspace()`, i.e. blank, U+0009–U+000D and the four
    separator controls U+001C–U+001F (T19: the last four were missing; found by the translation tie of `PauliSum.__init__`) -/
def isWhite (c : Char) : Bool :=
  c = ' ' ∨ c = '\t' ∨ c = '\n' ∨ c = '\r' ∨ c = Char.ofNat 11 ∨ c = Char.ofNat 12
    ∨ c = Char.ofNat 28 ∨ c = Char.ofNat 29 ∨ c = Char.ofNat 30 ∨ c = Char.ofNat 31
/-- C's `isspace` (what `complex(text)` skips: U+001C–U+001F are NOT skipped there) -/
def isCSpace (c : Char) : Bool :=
  c = ' ' ∨ c = '\t' ∨ c = '\n' ∨ c = '\r' ∨ c = Char.ofNat 11 ∨ c = Char.ofNat 12

def stripBy (p : Char → Bool) (s : List Char) : List Char :=
  ((s.dropWhile p).reverse.dropWhile p).reverse

/-- `_is_in_brackets` -/
def isInBrackets (s : List Char) : Bool := s.head? = some '(' ∧ s.getLast? = some ')'

/-- `_parse_complex`; `readC` is Python's `complex(text)` (`none` = `ValueError`) -/
def parseComplex (readC : List Char → Option (Rat × Rat)) (s : List Char) : Option (Rat × Rat) :=
  match readC (s.filter (fun c => c ≠ ' ')) with
  | none => none
  | some v => if v.1 ≠ 0 ∧ v.2 ≠ 0 ∧ ¬ isInBrackets s then none else some v

def pauliOfChar (c : Char) : Option Pauli :=
  if c = 'X' ∨ c = 'x' then some .X else if c = 'Y' ∨ c = 'y' then some .Y
  else if c = 'Z' ∨ c = 'z' then some .Z else if c = 'I' ∨ c = 'i' then some .I else none

/-- `_parse_operator`: `re.match(r"([XYZI])([0-9]+)$", s, re.I)` (ASCII); `$` also matches before a
    final newline. -/
def parseOperator (s : List Char) : Option (Nat × Pauli) :=
  match s with
  | [] => none
  | c :: rest =>
    match pauliOfChar c with
    | none => none
    | some p =>
      let digits := if rest.getLast? = some '\n' then rest.dropLast else rest
      if digits.isEmpty then none
      else if digits.all (fun d => (digitVal d).isSome) then some (readNat digits, p) else none

/-- `d[k] = v` on an insertion-ordered dict -/
def upsert (d : Ops) (k : Nat) (v : Pauli) : Ops :=
  match d with
  | [] => [(k, v)]
  | (k', v') :: rest => if k' = k then (k', v) :: rest else (k', v') :: upsert rest k v

/-- `dict(pairs)` -/
def dictOf (pairs : List (Nat × Pauli)) : Ops := pairs.foldl (fun d p => upsert d p.1 p.2) []

/-- `_parse_operators_and_coefficient` (`none` = `ValueError`) -/
def parseOpsAndCoef (readC : List Char → Option (Rat × Rat)) (termStr : List Char) :
    Option (Option (Rat × Rat) × Ops) :=
  -- re.split(r"\ *\*\ *", term_str.strip(" "))  =  split on '*', every part stripped of spaces
  let parts := (splitStar (stripBy isSpace termStr)).map (stripBy isSpace)
  let (coef, operatorsStrs) :=
    match parts with
    | [] => (none, parts)
    | p0 :: rest =>
      match parseComplex readC p0 with
      | some c => (some c, rest)
      | none => (none, parts)
  let operatorsStrs := operatorsStrs.filter (fun s => s ≠ ['I'])
  match operatorsStrs.mapM parseOperator with
  | none => none
  | some pairs =>
    let operatorsDict := dictOf pairs
    if operatorsDict.length ≠ operatorsStrs.length then none
    else some (coef, dictOf pairs)

/-- `PauliTerm(text)`: the coefficient defaults to 1.0; identities are dropped by `__init__` -/
def parseTerm (readC : List Char → Option (Rat × Rat)) (s : List Char) : Option (Term (Rat × Rat)) :=
  match parseOpsAndCoef readC s with
  | none => none
  | some (coef, ops) => some ⟨ops.filter (fun p => p.2 ≠ Pauli.I), coef.getD (1, 0)⟩

/-- `PauliSum(text)` -/
def parseSum (readC : List Char → Option (Rat × Rat)) (s : List Char) : Option (PSum (Rat × Rat)) :=
  ((splitPlus s).map (stripBy isWhite)).mapM (parseTerm readC)

/-! ### the facts about `str(coefficient)` the parser relies on (checked on every generated
    coefficient by the correspondence run, assumed in the theorems) -/

/-- every `+` of the text is followed, inside the text, by a `)` before any `(` -/
def plusClosed : List Char → Bool
  | [] => true
  | c :: rest => (c ≠ '+' || closesFirst rest) && plusClosed rest

/-- the text of a coefficient is safe for the parser: no `*`, no blank, `+` only inside brackets,
    the first bracket (if any) opens -/
def coefTextOK (s : List Char) : Bool :=
  s.all (fun c => c ≠ '*' && !isWhite c) && plusClosed s && firstBracket s ≠ some ')'

/-! ## Numeric arrays (`convert_array_to_dict` / `convert_dict_to_array`) -/

/-- an ndarray: real part and, iff `np.iscomplexobj`, imaginary part -/
structure CArr (A : Type) where
  re : A
  im : Option A
deriving DecidableEq, Repr

/-- `{"real": …, "imag": …}` -/
structure ArrD (L : Type) where
  real : L
  imag : Option L
deriving DecidableEq, Repr

def arrayToDict {A L : Type} (toL : A → L) (a : CArr A) : ArrD L :=
  match a.im with
  | some i => ⟨toL a.re, some (toL i)⟩
  | none => ⟨toL a.re, none⟩

/-- `array + 1j * np.array(imag)` is the array with real part `array` and imaginary part `imag`
    (numpy arithmetic on finite values). -/
def dictToArray {A L : Type} (ofL : L → A) (truthy : L → Bool) (d : ArrD L) : CArr A :=
  let array := ofL d.real
  match d.imag with
  | some i => if truthy i then ⟨array, some (ofL i)⟩ else ⟨array, none⟩
  | none => ⟨array, none⟩

/-- `if frames is not None: [f(x) for x in frames]` – the optional list of frames (an absent key and a
    JSON null both read as `None` through `dict.get`) -/
def mapFrames {α β : Type} (f : α → β) : Option (List α) → Option (List β)
  | some l => some (l.map f)
  | none => none

/-! ### ExpectationValues -/

structure EV (A : Type) where
  values : CArr A
  correlations : Option (List (CArr A))
  estimatorCovariances : Option (List (CArr A))
deriving DecidableEq, Repr

structure EVD (L : Type) where
  frames : List Unit
  expectationValues : ArrD L
  correlations : Option (List (ArrD L))
  estimatorCovariances : Option (List (ArrD L))
deriving DecidableEq, Repr

def evToDict {A L : Type} (toL : A → L) (e : EV A) : EVD L :=
  { frames := [],
    expectationValues := arrayToDict toL e.values,
    correlations := mapFrames (arrayToDict toL) e.correlations,
    estimatorCovariances := mapFrames (arrayToDict toL) e.estimatorCovariances }

def evFromDict {A L : Type} (ofL : L → A) (truthy : L → Bool) (d : EVD L) : EV A :=
  { values := dictToArray ofL truthy d.expectationValues,
    correlations := mapFrames (dictToArray ofL truthy) d.correlations,
    estimatorCovariances := mapFrames (dictToArray ofL truthy) d.estimatorCovariances }

/-! ### Parities -/

structure Par (A : Type) where
  values : CArr A
  correlations : Option (List (CArr A))
deriving DecidableEq, Repr

structure ParD (L : Type) where
  values : ArrD L
  correlations : Option (List (ArrD L))
deriving DecidableEq, Repr

def parToDict {A L : Type} (toL : A → L) (p : Par A) : ParD L :=
  { values := arrayToDict toL p.values,
    correlations := mapFrames (arrayToDict toL) p.correlations }

def parFromDict {A L : Type} (ofL : L → A) (truthy : L → Bool) (d : ParD L) : Par A :=
  { values := dictToArray ofL truthy d.values,
    correlations := mapFrames (dictToArray ofL truthy) d.correlations }

/-! ### ValueEstimate -/

structure VE where
  value : Rat
  precision : Option Rat
deriving DecidableEq, Repr

/-- `{"value": …, "precision": …}`; outer `none` = key absent, inner `none` = JSON null -/
structure VED where
  value : Rat
  precision : Option (Option Rat)
deriving DecidableEq, Repr

def veToDict (v : VE) : VED := ⟨v.value, some v.precision⟩

def veFromDict (d : VED) : VE :=
  match d.precision with
  | some p => ⟨d.value, p⟩
  | none => ⟨d.value, none⟩

/-! ### measurement-count estimate -/

structure NmeasD (L : Type) where
  K : Rat
  nterms : Int
  frameMeas : Option (ArrD L)
deriving DecidableEq, Repr

def nmeasToDict {A L : Type} (toL : A → L) (nmeas : Rat) (nterms : Int) (frameMeas : Option (CArr A)) : NmeasD L :=
  ⟨nmeas, nterms, frameMeas.map (arrayToDict toL)⟩

/-- `load_nmeas_estimate`: `frame_meas` is converted when the key is present, else `None` -/
def nmeasFromDict {A L : Type} (ofL : L → A) (truthy : L → Bool) (d : NmeasD L) : Rat × Int × Option (CArr A) :=
  (d.K, d.nterms, d.frameMeas.map (dictToArray ofL truthy))

/-! ### tuples and lists: Measurements, layers, connectivity, ordering, plain lists -/

/-- a Python tuple (JSON turns it into a list) -/
structure PyTuple (α : Type) where
  elems : List α
deriving DecidableEq, Repr

/-- `tuple_to_bitstring` -/
def tupleToBitstring (t : PyTuple Int) : List Char := (t.elems.map showInt).flatten

/-- `result[k] += 1` on a Counter -/
def bumpCount (c : List (List Char × Nat)) (k : List Char) : List (List Char × Nat) :=
  match c with
  | [] => [(k, 1)]
  | (k', v) :: rest => if k' = k then (k', v + 1) :: rest else (k', v) :: bumpCount rest k

/-- `Measurements.get_counts` -/
def getCounts (bitstrings : List (PyTuple Int)) : List (List Char × Nat) :=
  (bitstrings.map tupleToBitstring).foldl bumpCount []

structure MeasD where
  counts : List (List Char × Nat)
  bitstrings : List (List Int)
deriving DecidableEq, Repr

/-- the dictionary written by `Measurements.save` -/
def measToDict (bitstrings : List (PyTuple Int)) : MeasD :=
  ⟨getCounts bitstrings, bitstrings.map (fun b => b.elems.map (fun x => x))⟩

/-- `Measurements.load_from_file`: only `bitstrings` is read, each restored to a tuple -/
def measFromDict (d : MeasD) : List (PyTuple Int) := d.bitstrings.map (fun b => ⟨b⟩)

/-- what `json.load(json.dumps(x))` returns for layers given as lists of lists of tuples -/
def jsonLayers (l : List (List (PyTuple Int))) : List (List (List Int)) := l.map (fun layer => layer.map (fun t => t.elems))
def layersToDict (l : List (List (PyTuple Int))) : List (List (PyTuple Int)) := l
def layersFromDict (d : List (List (List Int))) : List (List (PyTuple Int)) := d.map (fun layer => layer.map (fun x => ⟨x⟩))

def jsonConnectivity (l : List (PyTuple Int)) : List (List Int) := l.map (fun t => t.elems)
def connectivityToDict (l : List (PyTuple Int)) : List (PyTuple Int) := l
def connectivityFromDict (d : List (List Int)) : List (PyTuple Int) := d.map (fun x => ⟨x⟩)

/-- `save_list` / `save_circuit_ordering`: `{"list": array}` / `{"ordering": ordering}`; the loader returns the field -/
def listToDict {α : Type} (l : List α) : List α := l
def listFromDict {α : Type} (d : List α) : List α := d

/-- save to a file and load it again: `de (ser d)` is what `json.load` returns for the text
    `json.dumps` wrote (`norm` = the change JSON makes to the value: tuples become lists). -/
def saveThenLoad {D D' O : Type} (ser : D → String) (de : String → Option D') (fromDict : D' → O) (d : D) : Option O :=
  (de (ser d)).map fromDict

end OQ.C11
