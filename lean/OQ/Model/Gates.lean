/-
  The 27 built-in gate matrices of `circuits/_matrices.py` as functions of the ring constants
  (`Scal`) and half-angle points (`Ang`).  Mathlib-free; shared by C01, C02, C07, C08, C16, C18.
  `u3` is written in the closed form sympy's `simplify` returns:
     [[cos θ/2, −e^{iλ} sin θ/2], [e^{iφ} sin θ/2, e^{i(φ+λ)} cos θ/2]].
-/
import OQ.Exec.Scal
namespace OQ.Gates
variable {R : Type} [Zero R] [One R] [Add R] [Mul R] [Neg R]

def m2 (a b c d : R) : Mat R := Mat.ofLists [[a, b], [c, d]]
def m4 (rows : List (List R)) : Mat R := Mat.ofLists rows

def x : Mat R := m2 0 1 1 0
def y (k : Scal R) : Mat R := m2 0 (-k.i) k.i 0
def z : Mat R := m2 1 0 0 (-1)
def h (k : Scal R) : Mat R := m2 k.r k.r k.r (-k.r)
def i : Mat R := m2 1 0 0 1
def s (k : Scal R) : Mat R := m2 1 0 0 k.i
def t (k : Scal R) : Mat R := m2 1 0 0 k.z
def sx (k : Scal R) : Mat R :=
  m2 ((1 + k.i) * k.half) ((1 + -k.i) * k.half) ((1 + -k.i) * k.half) ((1 + k.i) * k.half)

def rx (k : Scal R) (a : Ang R) : Mat R := m2 a.ch (-(k.i * a.sh)) (-(k.i * a.sh)) a.ch
def ry (a : Ang R) : Mat R := m2 a.ch (-a.sh) a.sh a.ch
def rz (k : Scal R) (a : Ang R) : Mat R := m2 (a.ehm k) 0 0 (a.ehp k)
/-- `phase_factor * [[c − i/√2 s, −i/√2 s], [−i/√2 s, c + i/√2 s]]` with phase_factor = c + i s -/
def rh (k : Scal R) (a : Ang R) : Mat R :=
  let pf := a.ehp k
  let u := k.i * k.r * a.sh
  m2 (pf * (a.ch + -u)) (pf * (-u)) (pf * (-u)) (pf * (a.ch + u))
def phase (k : Scal R) (a : Ang R) : Mat R := m2 1 0 0 (a.eip k)
def u3 (k : Scal R) (th ph la : Ang R) : Mat R :=
  m2 th.ch (-(la.eip k * th.sh)) (ph.eip k * th.sh) (ph.eip k * la.eip k * th.ch)
def gpi (k : Scal R) (a : Ang R) : Mat R := m2 0 (a.eim k) (a.eip k) 0
def gpi2 (k : Scal R) (a : Ang R) : Mat R :=
  m2 k.r (k.r * (-(k.i * a.eim k))) (k.r * (-(k.i * a.eip k))) k.r

def cnot : Mat R := m4 [[1,0,0,0],[0,1,0,0],[0,0,0,1],[0,0,1,0]]
def cz : Mat R := m4 [[1,0,0,0],[0,1,0,0],[0,0,1,0],[0,0,0,-1]]
def swap : Mat R := m4 [[1,0,0,0],[0,0,1,0],[0,1,0,0],[0,0,0,1]]
def iswap (k : Scal R) : Mat R := m4 [[1,0,0,0],[0,0,k.i,0],[0,k.i,0,0],[0,0,0,1]]

def cphase (k : Scal R) (a : Ang R) : Mat R := m4 [[1,0,0,0],[0,1,0,0],[0,0,1,0],[0,0,0,a.eip k]]
def xx (k : Scal R) (a : Ang R) : Mat R :=
  let c := a.ch; let ms := -(k.i * a.sh)
  m4 [[c,0,0,ms],[0,c,ms,0],[0,ms,c,0],[ms,0,0,c]]
def yy (k : Scal R) (a : Ang R) : Mat R :=
  let c := a.ch; let ms := -(k.i * a.sh); let ps := k.i * a.sh
  m4 [[c,0,0,ps],[0,c,ms,0],[0,ms,c,0],[ps,0,0,c]]
def zz (k : Scal R) (a : Ang R) : Mat R :=
  m4 [[a.ehm k,0,0,0],[0,a.ehp k,0,0],[0,0,a.ehp k,0],[0,0,0,a.ehm k]]
def xy (k : Scal R) (a : Ang R) : Mat R :=
  let c := a.ch; let ps := k.i * a.sh
  m4 [[1,0,0,0],[0,c,ps,0],[0,ps,c,0],[0,0,0,1]]
/-- MS(φ₀, φ₁): entries use e^{±i(φ₀+φ₁)}, e^{±i(φ₀−φ₁)} -/
def ms (k : Scal R) (p0 p1 : Ang R) : Mat R :=
  let sp := Ang.add p0 p1
  let sm := Ang.add p0 (Ang.neg p1)
  let mi := -k.i
  m4 [[k.r, 0, 0, k.r * (mi * sp.eim k)],
      [0, k.r, k.r * (mi * sm.eim k), 0],
      [0, k.r * (mi * sm.eip k), k.r, 0],
      [k.r * (mi * sp.eip k), 0, 0, k.r]]
def delay : Mat R := i

/-- name → matrix, `none` for an unknown name or a wrong number of parameters
    (`Delay`'s duration is not an angle and is ignored, as in the code). -/
def builtinMatrix (k : Scal R) (name : String) (ps : List (Ang R)) : Option (Mat R) :=
  match name, ps with
  | "X", [] => some x | "Y", [] => some (y k) | "Z", [] => some z | "H", [] => some (h k)
  | "I", [] => some i | "S", [] => some (s k) | "SX", [] => some (sx k) | "T", [] => some (t k)
  | "RX", [a] => some (rx k a) | "RY", [a] => some (ry a) | "RZ", [a] => some (rz k a)
  | "RH", [a] => some (rh k a) | "PHASE", [a] => some (phase k a)
  | "U3", [a, b, c] => some (u3 k a b c) | "GPi", [a] => some (gpi k a) | "GPi2", [a] => some (gpi2 k a)
  | "CNOT", [] => some cnot | "CZ", [] => some cz | "SWAP", [] => some swap | "ISWAP", [] => some (iswap k)
  | "CPHASE", [a] => some (cphase k a) | "XX", [a] => some (xx k a) | "YY", [a] => some (yy k a)
  | "ZZ", [a] => some (zz k a) | "XY", [a] => some (xy k a) | "MS", [a, b] => some (ms k a b)
  | "Delay", _ => some delay
  | _, _ => none

def builtinNames : List String :=
  ["X","Y","Z","H","I","S","SX","T","RX","RY","RZ","RH","PHASE","U3","GPi","GPi2",
   "CNOT","CZ","SWAP","ISWAP","CPHASE","XX","YY","ZZ","XY","MS","Delay"]

end OQ.Gates
