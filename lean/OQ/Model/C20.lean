/-
  C20 — value-returning operations never modify their arguments (Mathlib-free executable model).

  An OBJECT STORE with exactly the mutable fields the Python classes have
    Circuit._operations/_n_qubits      (src/orquestra/quantum/circuits/_circuit.py)
    PauliTerm._ops/coefficient, PauliSum.terms   (operators/_pauli_operators.py)
    Measurements.bitstrings            (measurements/measurements.py)
    MeasurementOutcomeDistribution.distribution_dict (distributions/_measurement_outcome_distribution.py)
    Wavefunction._amplitude_vector     (wavefunction.py)
  Python containers (list / dict / ndarray) are cells of their own, so aliasing is expressible:
  `PauliSum(terms)`, `Measurements(bitstrings)`, `Wavefunction(complex ndarray)` ALIAS their argument,
  `Circuit(operations)` and `MeasurementOutcomeDistribution(d)` COPY it (`list(...)`, re-keying).
  Gates and gate operations are frozen dataclasses: immutable values, no cell.

  Every listed operation has three layers
    `valueOf`  what is returned, as a function of the OBSERVATIONS of the arguments only,
    `effects`  what happens on the store, written with the primitives the code uses
               (`alloc` = a new object, `write` = an in-place update such as `+=`, `*=`, `d[k] = v`, `pop`),
    `step`     = both.
  The store is append-only for allocation; `write` can hit ANY cell, so a wrong implementation
  (e.g. `subdistribution` popping from its source, the code before d900b77) is expressible: `effectsSubPop`.
-/
namespace OQ.C20

abbrev Ref := Nat

/-! ## immutable values -/

/-- Gaussian rational: exact stand-in for a Python int/float/complex coefficient or amplitude -/
structure Coef where
  re : Rat
  im : Rat
deriving DecidableEq, Repr, Inhabited

namespace Coef
def zero : Coef := ⟨0, 0⟩
def one : Coef := ⟨1, 0⟩
def add (a b : Coef) : Coef := ⟨a.re + b.re, a.im + b.im⟩
def mul (a b : Coef) : Coef := ⟨a.re * b.re - a.im * b.im, a.re * b.im + a.im * b.re⟩
def conj (a : Coef) : Coef := ⟨a.re, -a.im⟩
def normSq (a : Coef) : Rat := a.re * a.re + a.im * a.im
/-- `np.isclose(c, 0.0)` on the inputs of the correspondence run (dyadic, |c| ≥ 2⁻¹⁰ or 0): exact zero test -/
def negl (a : Coef) : Bool := a.re == 0 && a.im == 0
end Coef

inductive P | X | Y | Z
deriving DecidableEq, Repr, Inhabited

inductive Param
  | sym (s : String)
  | num (q : Rat)
deriving DecidableEq, Repr

/-- the gate classes of `_gates.py` (all `@dataclass(frozen=True)`) -/
inductive Gate
  | base (name : String) (params : List Param) (herm : Bool)   -- MatrixFactoryGate
  | ctrl (g : Gate) (n : Nat)                                    -- ControlledGate
  | dag (g : Gate)                                               -- Dagger
  | pow (g : Gate) (e : Rat)                                     -- Power
  | exp (g : Gate)                                               -- Exponential
deriving DecidableEq, Repr

/-- `GateOperation(gate, qubit_indices)` -/
structure GOp where
  gate : Gate
  qubits : List Nat
deriving DecidableEq, Repr

/-- `.power(e)`: `ControlledGate` pushes the power inside, everything else wraps in `Power`.
    (`Power.__post_init__` rejects gates with free symbols; gates reaching here come out of an existing
    `Power`, whose parameters the wrappers never change, so that check cannot fire in the listed operations.) -/
def Gate.power : Gate → Rat → Gate
  | .ctrl g n, e => .ctrl (g.power e) n
  | .base nm ps h, e => .pow (.base nm ps h) e
  | .dag g, e => .pow (.dag g) e
  | .pow g e', e => .pow (.pow g e') e
  | .exp g, e => .pow (.exp g) e

/-- `.dagger` of each class -/
def Gate.dagger : Gate → Gate
  | .base nm ps true => .base nm ps true
  | .base nm ps false => .dag (.base nm ps false)
  | .ctrl g n => .ctrl g.dagger n
  | .dag g => g
  | .pow g e => g.dagger.power e
  | .exp g => .exp g.dagger

/-- `.controlled(k)` of each class -/
def Gate.controlled : Gate → Nat → Gate
  | .base nm ps h, k => .ctrl (.base nm ps h) k
  | .ctrl g n, k => .ctrl g (n + k)
  | .dag g, k => (g.controlled k).dagger
  | .pow g e, k => (g.controlled k).power e
  | .exp g, k => .ctrl (.exp g) k

inductive Err | badref | value | runtime | notimpl | index
deriving DecidableEq, Repr

/-- `sub_symbols` with a symbol ↦ number map -/
def Param.bind (m : List (String × Rat)) : Param → Param
  | .num q => .num q
  | .sym s => match m.lookup s with
    | some v => .num v
    | none => .sym s

/-- `.bind(symbols_map)`; `Power` and `Exponential` raise `NotImplementedError` -/
def Gate.bind (m : List (String × Rat)) : Gate → Except Err Gate
  | .base nm ps h => .ok (.base nm (ps.map (Param.bind m)) h)
  | .ctrl g n => match g.bind m with
    | .ok g' => .ok (g'.controlled n)
    | .error e => .error e
  | .dag g => match g.bind m with
    | .ok g' => .ok g'.dagger
    | .error e => .error e
  | .pow _ _ => .error .notimpl
  | .exp _ => .error .notimpl

def GOp.bind (m : List (String × Rat)) (o : GOp) : Except Err GOp :=
  match o.gate.bind m with
  | .ok g => .ok ⟨g, o.qubits⟩
  | .error e => .error e

def bindAll (m : List (String × Rat)) : List GOp → Except Err (List GOp)
  | [] => .ok []
  | o :: os => match o.bind m, bindAll m os with
    | .ok o', .ok os' => .ok (o' :: os')
    | .error e, _ => .error e
    | _, .error e => .error e

/-- `_circuit_size_by_operations`; `none` = `max()` of an empty sequence (`ValueError`) -/
def sizeByOps (ops : List GOp) : Option Nat :=
  if ops = [] then some 0
  else match ops.flatMap (·.qubits) with
    | [] => none
    | q :: qs => some (qs.foldl max q + 1)

/-- `n_qubits` as the constructor stores it: a truthy argument is kept, otherwise computed -/
def ctorQubits (ops : List GOp) (nq : Option Nat) : Option Nat :=
  match nq with
  | some (n + 1) => some (n + 1)
  | _ => sizeByOps ops

def inverseOps (ops : List GOp) : List GOp :=
  ops.reverse.map (fun o => ⟨o.gate.dagger, o.qubits⟩)

def controlledOps (ops : List GOp) (k : Nat) : List GOp :=
  ops.map (fun o => ⟨o.gate.controlled 1, k :: o.qubits.map (fun i => if i ≥ k then i + 1 else i)⟩)

/-! ## Pauli algebra on values (`_ops` is an insertion-ordered dict: association list) -/

abbrev POps := List (Nat × P)
abbrev TermV := POps × Coef

def dictGet (d : POps) (i : Nat) : Option P := d.lookup i
def dictSet : POps → Nat → P → POps
  | [], i, p => [(i, p)]
  | (j, q) :: rest, i, p => if j = i then (j, p) :: rest else (j, q) :: dictSet rest i p
def dictDel (d : POps) (i : Nat) : POps := d.filter (fun kv => kv.1 != i)

/-- `OPERATOR_MAP` / `COEFF_MAP` -/
def pauliProd : P → P → P × Coef
  | .X, .Y => (.Z, ⟨0, 1⟩) | .X, .Z => (.Y, ⟨0, -1⟩)
  | .Y, .X => (.Z, ⟨0, -1⟩) | .Y, .Z => (.X, ⟨0, 1⟩)
  | .Z, .X => (.Y, ⟨0, 1⟩) | .Z, .Y => (.X, ⟨0, -1⟩)
  | p, _ => (p, Coef.one)   -- equal letters never reach here

/-- `_multiply_by_operator(op, index)` on `result_ops = self._ops.copy()` -/
def mulByOp (t : TermV) (op : P) (index : Nat) : TermV :=
  match dictGet t.1 index with
  | none => (dictSet t.1 index op, t.2)
  | some q =>
    if q = op then (dictDel t.1 index, t.2)
    else let pc := pauliProd q op; (dictSet t.1 index pc.1, t.2.mul pc.2)

/-- the intermediate terms `PauliTerm.__mul__` constructs (each one a NEW PauliTerm):
    `self.copy(1)`, one per letter of `other`, and the final `copy(coefficient)` -/
def termMulSteps (a b : TermV) : List TermV :=
  let start : TermV := (a.1, Coef.one)
  let mids := (b.1.foldl (fun (acc : List TermV × TermV) kv =>
      let nxt := mulByOp acc.2 kv.2 kv.1; (acc.1 ++ [nxt], nxt)) ([], start))
  let last := mids.2
  [start] ++ mids.1 ++ [(last.1, last.2.mul (a.2.mul b.2))]

def termMulV (a b : TermV) : TermV :=
  let last := b.1.foldl (fun (acc : TermV) kv => mulByOp acc kv.2 kv.1) (a.1, Coef.one)
  (last.1, last.2.mul (a.2.mul b.2))

def termScaleV (a : TermV) (c : Coef) : TermV := (a.1, a.2.mul c)

def insertKey (kv : Nat × P) : POps → POps
  | [] => [kv]
  | x :: xs => if kv.1 ≤ x.1 then kv :: x :: xs else x :: insertKey kv xs

/-- `term.operations` (a frozenset of items) in canonical form: sorted by qubit -/
def opsKey (d : POps) : POps := d.foldr insertKey []

/-- OrderedDict of like terms: key ↦ positions, in order of first appearance -/
def groupInsert : List (POps × List Nat) → POps → Nat → List (POps × List Nat)
  | [], k, i => [(k, [i])]
  | (k', is) :: rest, k, i => if k' = k then (k', is ++ [i]) :: rest else (k', is) :: groupInsert rest k i

def groupTerms (vs : List TermV) : List (POps × List Nat) :=
  (vs.zipIdx).foldl (fun g vi => groupInsert g (opsKey vi.1.1) vi.2) []

/-- what `simplify` does with one group: keep the very same term object, or build a new one, or drop -/
inductive Decision
  | share (i : Nat)        -- `terms.append(first_term)`: the SAME object is put into the result
  | fresh (v : TermV)      -- `term_list[0].copy(new_coefficient=coeff)`
deriving DecidableEq, Repr

def coefAt (vs : List TermV) (i : Nat) : Coef := match vs[i]? with | some v => v.2 | none => Coef.zero

def decideGroup (vs : List TermV) (g : POps × List Nat) : Option Decision :=
  match g.2 with
  | [] => none
  | i :: rest =>
    if rest = [] ∧ ¬ (coefAt vs i).negl then some (.share i)
    else
      let c := (i :: rest).foldl (fun acc j => acc.add (coefAt vs j)) Coef.zero
      if c.negl then none
      else match vs[i]? with
        | some v => some (.fresh (v.1, c))
        | none => none

def simplifyD (vs : List TermV) : List Decision := (groupTerms vs).filterMap (decideGroup vs)

def decisionValue (vs : List TermV) : Decision → Option TermV
  | .share i => vs[i]?
  | .fresh v => some v

/-- value of `PauliSum(terms).simplify()` -/
def simplifyV (vs : List TermV) : List TermV := (simplifyD vs).filterMap (decisionValue vs)

def identityTerm : TermV := ([], Coef.one)

def productsV (va vb : List TermV) : List TermV := va.flatMap (fun l => vb.map (fun r => termMulV l r))

def conjV (t : TermV) : TermV := (t.1, t.2.conj)

/-- `_efficient_exponentiation` on values; `mul` is the `*` of the type, `one` its `identity()` -/
def effExp {α : Type} (mul : α → α → α) (one : α) (x : α) : (fuel : Nat) → Nat → α
  | 0, _ => one
  | fuel + 1, n =>
    if n = 0 then one
    else if n % 2 = 1 then mul x (effExp mul one x fuel (n - 1))
    else let r := effExp mul one x fuel (n / 2); mul r r

def sumMulV (va vb : List TermV) : List TermV := simplifyV (productsV va vb)

/-! ## the store -/

abbrev Bits := List Nat
abbrev DDict := List (Bits × Rat)

inductive Cell
  | olist (ops : List GOp)                 -- a Python list of gate operations
  | circuit (ops : Ref) (nq : Nat)         -- Circuit._operations, Circuit._n_qubits
  | pdict (ops : POps)                     -- a dict qubit ↦ letter
  | term (ops : Ref) (coef : Coef)         -- PauliTerm._ops, PauliTerm.coefficient
  | tlist (ts : List Ref)                  -- a Python list of PauliTerm objects
  | psum (ts : Ref)                        -- PauliSum.terms
  | blist (bs : List Bits)                 -- a Python list of bit tuples
  | meas (bs : Ref)                        -- Measurements.bitstrings
  | ddict (d : DDict)                      -- a dict outcome ↦ probability
  | dist (d : Ref)                         -- MeasurementOutcomeDistribution.distribution_dict
  | arr (a : List Coef)                    -- a complex ndarray
  | wf (a : Ref)                           -- Wavefunction._amplitude_vector
deriving DecidableEq, Repr

abbrev Heap := List Cell

/-- a new Python object -/
def alloc (h : Heap) (c : Cell) : Heap × Ref := (h ++ [c], h.length)
/-- an in-place update of an existing object (`+=` on a list, `d[k] = v`, `d.pop(k)`, `*=`) -/
def write (h : Heap) (r : Ref) (c : Cell) : Heap := h.set r c

/-! ### observations: everything the public API shows of an object, followed through its fields -/

inductive Obs
  | oplist (ops : List GOp)
  | circuit (ops : List GOp) (nq : Nat)
  | pdict (ops : POps)
  | term (t : TermV)
  | tlist (ts : List TermV)
  | psum (ts : List TermV)
  | blist (bs : List Bits)
  | meas (bs : List Bits)
  | ddict (d : DDict)
  | dist (d : DDict)
  | arr (a : List Coef)
  | wf (a : List Coef)
deriving DecidableEq, Repr

def getOps (h : Heap) (r : Ref) : Option (List GOp) :=
  match h[r]? with | some (.olist o) => some o | _ => none
def getPdict (h : Heap) (r : Ref) : Option POps :=
  match h[r]? with | some (.pdict o) => some o | _ => none
def getTerm (h : Heap) (r : Ref) : Option TermV :=
  match h[r]? with
  | some (.term d c) => match getPdict h d with | some o => some (o, c) | none => none
  | _ => none
def getTerms (h : Heap) : List Ref → Option (List TermV)
  | [] => some []
  | r :: rs => match getTerm h r, getTerms h rs with
    | some v, some vs => some (v :: vs)
    | _, _ => none
def getTlist (h : Heap) (r : Ref) : Option (List Ref) :=
  match h[r]? with | some (.tlist l) => some l | _ => none
def getBlist (h : Heap) (r : Ref) : Option (List Bits) :=
  match h[r]? with | some (.blist l) => some l | _ => none
def getDdict (h : Heap) (r : Ref) : Option DDict :=
  match h[r]? with | some (.ddict l) => some l | _ => none
def getArr (h : Heap) (r : Ref) : Option (List Coef) :=
  match h[r]? with | some (.arr l) => some l | _ => none

def view? (h : Heap) (r : Ref) : Option Obs :=
  match h[r]? with
  | none => none
  | some (.olist o) => some (.oplist o)
  | some (.circuit l nq) => match getOps h l with | some o => some (.circuit o nq) | none => none
  | some (.pdict o) => some (.pdict o)
  | some (.term d c) => match getPdict h d with | some o => some (.term (o, c)) | none => none
  | some (.tlist l) => match getTerms h l with | some vs => some (.tlist vs) | none => none
  | some (.psum l) => match getTlist h l with
    | some rs => (match getTerms h rs with | some vs => some (.psum vs) | none => none)
    | none => none
  | some (.blist b) => some (.blist b)
  | some (.meas l) => match getBlist h l with | some b => some (.meas b) | none => none
  | some (.ddict d) => some (.ddict d)
  | some (.dist l) => match getDdict h l with | some d => some (.dist d) | none => none
  | some (.arr a) => some (.arr a)
  | some (.wf l) => match getArr h l with | some a => some (.wf a) | none => none

/-- the term objects inside a sum / a list of terms (their identity is what `simplify` may share) -/
def termRefs (h : Heap) (r : Ref) : List Ref :=
  match h[r]? with
  | some (.tlist l) => l
  | some (.psum l) => (getTlist h l).getD []
  | some (.term _ _) => [r]
  | _ => []

/-! ### measurement / distribution values -/

def countInsert : List (Bits × Nat) → Bits → List (Bits × Nat)
  | [], b => [(b, 1)]
  | (b', n) :: rest, b => if b' = b then (b', n + 1) :: rest else (b', n) :: countInsert rest b

/-- `dict(Counter(bitstrings))`: first-appearance order -/
def countsV (bs : List Bits) : List (Bits × Nat) := bs.foldl countInsert []

def dsum (d : DDict) : Rat := (d.map (·.2)).foldl (· + ·) 0

/-- `new_counts[k] = v + new_counts.get(k, 0)` -/
def ddAdd : DDict → Bits → Rat → DDict
  | [], k, v => [(k, v)]
  | (k', v') :: rest, k, v => if k' = k then (k', v' + v) :: rest else (k', v') :: ddAdd rest k v

/-- `key[i]` on a tuple with Python's indexing: a negative `i` counts from the end.  Out-of-range
    positions are excluded by `subCheck` before this is used (the default is never reached). -/
def pyIndex (k : Bits) (i : Int) : Nat :=
  if 0 ≤ i then k.getD i.toNat 0 else k.getD ((k.length : Int) + i).toNat 0

/-- `tuple(key[i] for i in active_qubits)` -/
def subKey (k : Bits) (qs : List Int) : Bits := qs.map (pyIndex k)

def marginalSteps (d : DDict) (qs : List Int) : List DDict :=
  (d.foldl (fun (acc : List DDict × DDict) kv =>
      let nxt := ddAdd acc.2 (subKey kv.1 qs) kv.2; (acc.1 ++ [nxt], nxt)) ([], [])).1

def marginalV (d : DDict) (qs : List Int) : DDict :=
  d.foldl (fun acc kv => ddAdd acc (subKey kv.1 qs) kv.2) []

/-- `preprocess_distibution_dict`: a FRESH dict with the same items (later duplicate keys overwrite) -/
def ddSet : DDict → Bits → Rat → DDict
  | [], k, v => [(k, v)]
  | (k', v') :: rest, k, v => if k' = k then (k', v) :: rest else (k', v') :: ddSet rest k v
def preprocessV (d : DDict) : DDict := d.foldl (fun acc kv => ddSet acc kv.1 kv.2) []

def isDistribution (d : DDict) : Bool :=
  match d with
  | [] => false
  | (k, _) :: _ => d.all (fun kv => decide (0 ≤ kv.2)) && d.all (fun kv => kv.1.length == k.length)

def ratAbs (x : Rat) : Rat := if x < 0 then -x else x

/-- `math.isclose(norm, 1)` with the default tolerances (`rel_tol = 1e-9`, `abs_tol = 0`):
    `|norm - 1| ≤ 1e-9 · max(|norm|, 1)`.  (`is_normalized`) -/
def isNormalized (norm : Rat) : Bool :=
  decide (ratAbs (norm - 1) ≤ (1 / 1000000000 : Rat) * (if ratAbs norm < 1 then 1 else ratAbs norm))

/-- `np.isclose(p, 1.0)` with the default tolerances (`rtol = 1e-5`, `atol = 1e-8`):
    `|p - 1| ≤ 1e-8 + 1e-5 · 1`.  (`Wavefunction._check_normalization`) -/
def isUnitProbability (p : Rat) : Bool :=
  decide (ratAbs (p - 1) ≤ (1 / 100000000 : Rat) + (1 / 100000 : Rat))

/-- the constructor of MeasurementOutcomeDistribution on an (already re-keyed) dict.
    `is_normalized` is `math.isclose(norm, 1)`; the float sum and the exact sum differ by rounding only
    (the correspondence inputs stay away from the boundary of the tolerance). -/
def distCtorV (d : DDict) (normalize : Bool) : Except Err DDict :=
  if ¬ isDistribution d then .error .runtime
  else if isNormalized (dsum d) then .ok d
  else if normalize then
    if dsum d = 0 then .error .value
    else .ok (d.map (fun kv => (kv.1, kv.2 * (1 / dsum d))))
  else .ok d

def isPow2 (n : Nat) : Bool := n != 0 && (n &&& (n - 1)) == 0

def probsV (a : List Coef) : List Rat := a.map Coef.normSq

/-! ## calls -/

inductive Call
  -- raw Python containers handed to the library (the initial pool)
  | litOps (ops : List GOp)
  | litTerms (ts : List Ref)
  | litBits (bs : List Bits)
  | litDict (d : DDict)
  | litArr (a : List Coef)
  -- circuits
  | circNew (l : Ref) (nq : Option Nat)
  | circAdd (a b : Ref)
  | circAddOp (a : Ref) (op : GOp)
  | circBind (a : Ref) (m : List (String × Rat))
  | circInverse (a : Ref)
  | circControlled (a : Ref) (k : Nat)
  -- Pauli terms and sums
  | termNew (ops : POps) (c : Coef)
  | termCopy (t : Ref) (c : Option Coef)
  | termMul (a b : Ref)
  | termScale (a : Ref) (c : Coef)
  | termAdd (a b : Ref)
  | termPow (a : Ref) (n : Nat)
  | sumNew (l : Ref)
  | sumAdd (a b : Ref)
  | sumMul (a b : Ref)
  | sumRMul (a : Ref) (c : Coef)
  | sumPow (a : Ref) (n : Nat)
  | sumSimplify (a : Ref)
  | opConj (a : Ref)
  -- measurements
  | measNew (l : Ref)
  | measFromCounts (counts : List (Bits × Nat))
  | measDistribution (m : Ref)
  | measRepresenting (d : Ref) (n : Nat) (samples : List Bits)
  -- distributions
  | distNew (d : Ref) (normalize : Bool)
  | distSub (d : Ref) (qs : List Int)
  -- wavefunctions
  | wfNew (a : Ref)
  | wfBind (w : Ref)
  -- reports (plain data computed from the arguments)
  | measCounts (m : Ref)
  | wfProbs (w : Ref)
  | report (kind : String) (args : List Ref)
deriving Repr

/-- the store objects a call receives (receiver first) -/
def Call.refs : Call → List Ref
  | .litOps _ | .litBits _ | .litDict _ | .litArr _ => []
  | .litTerms ts => ts
  | .circNew l _ => [l]
  | .circAdd a b => [a, b]
  | .circAddOp a _ => [a]
  | .circBind a _ => [a]
  | .circInverse a => [a]
  | .circControlled a _ => [a]
  | .termNew _ _ => []
  | .termCopy t _ => [t]
  | .termMul a b => [a, b]
  | .termScale a _ => [a]
  | .termAdd a b => [a, b]
  | .termPow a _ => [a]
  | .sumNew l => [l]
  | .sumAdd a b => [a, b]
  | .sumMul a b => [a, b]
  | .sumRMul a _ => [a]
  | .sumPow a _ => [a]
  | .sumSimplify a => [a]
  | .opConj a => [a]
  | .measNew l => [l]
  | .measFromCounts _ => []
  | .measDistribution m => [m]
  | .measRepresenting d _ _ => [d]
  | .distNew d _ => [d]
  | .distSub d _ => [d]
  | .wfNew a => [a]
  | .wfBind w => [w]
  | .measCounts m => [m]
  | .wfProbs w => [w]
  | .report _ args => args

inductive Val
  | obj (o : Obs)                          -- a new object (or, for `wfBind`, the receiver itself)
  | counts (c : List (Bits × Nat))
  | probs (p : List Rat)
  | digest (kind : String) (args : List Obs)   -- a report whose numeric content is not modelled: a pure read
deriving DecidableEq, Repr

inductive Outcome
  | ok (v : Val)
  | err (e : Err)
deriving DecidableEq, Repr

def allSome {α : Type} : List (Option α) → Option (List α)
  | [] => some []
  | none :: _ => none
  | some x :: xs => match allSome xs with | some ys => some (x :: ys) | none => none

def termPowV (a : TermV) (n : Nat) : TermV := effExp termMulV identityTerm a (n + 1) n
def sumPowV (a : List TermV) (n : Nat) : List TermV := effExp sumMulV [identityTerm] a (n + 1) n

/-- `hermitian_conjugated(PauliSum)`: `acc = PauliSum(); for t: acc += t.copy(conj)` (each `+=` simplifies) -/
def sumConjV (va : List TermV) : List TermV :=
  va.foldl (fun acc t => simplifyV (acc ++ [conjV t])) []

def otherTerms : Obs → Option (List TermV)
  | .psum vb => some vb
  | .term vb => some [vb]
  | _ => none

/-- the right operand of `PauliSum.__mul__`: a sum's terms, or `[PauliTerm.identity() * other]` -/
def mulOperand (ob : Obs) (vb : List TermV) : List TermV :=
  match ob with
  | .term t => [termMulV identityTerm t]
  | _ => vb

/-- `counts[b] / num_measurements` for every counted bitstring -/
def freqV (bs : List Bits) : DDict := (countsV bs).map (fun c => (c.1, (c.2 : Rat) / (bs.length : Rat)))

/-- the argument checks of `subdistribution` (both `ValueError`; `max([])` raises it too), then what
    tuple indexing does with an index counted from the end: accepted down to `-len(key)`, below that
    `key[i]` raises `IndexError` (on the first key, before anything is returned) -/
def subCheck (d : DDict) (qs : List Int) : Option Err :=
  match qs, d with
  | [], _ => some .value
  | _, [] => some .badref
  | q :: qs', (k, _) :: _ =>
    if qs'.foldl max q + 1 > (k.length : Int) then some .value
    else if ¬ (q :: qs').Nodup then some .value
    else if (q :: qs').any (fun i => decide (i < -(k.length : Int))) then some .index
    else none

/-- WHAT A CALL RETURNS, as a function of the observations of its arguments only. -/
def valueOf (c : Call) (vs : List (Option Obs)) : Outcome :=
  match c with
  | .litOps ops => .ok (.obj (.oplist ops))
  | .litBits bs => .ok (.obj (.blist bs))
  | .litDict d => .ok (.obj (.ddict d))
  | .litArr a => .ok (.obj (.arr a))
  | .litTerms _ => match allSome vs with
    | some os => (match allSome (os.map (fun o => match o with | .term t => some t | _ => none)) with
      | some ts => .ok (.obj (.tlist ts))
      | none => .err .badref)
    | none => .err .badref
  | .circNew _ nq => match vs with
    | [some (.oplist ops)] => (match ctorQubits ops nq with
      | some n => .ok (.obj (.circuit ops n))
      | none => .err .value)
    | _ => .err .badref
  | .circAdd _ _ => match vs with
    | [some (.circuit oa na), some (.circuit ob nb)] =>
      (match ctorQubits (oa ++ ob) (some (max na nb)) with
      | some n => .ok (.obj (.circuit (oa ++ ob) n))
      | none => .err .value)
    | _ => .err .badref
  | .circAddOp _ op => match vs with
    | [some (.circuit oa na)] => (match op.qubits with
      | [] => .err .value
      | q :: qs => match ctorQubits (oa ++ [op]) (some (max na (qs.foldl max q + 1))) with
        | some n => .ok (.obj (.circuit (oa ++ [op]) n))
        | none => .err .value)
    | _ => .err .badref
  | .circBind _ m => match vs with
    | [some (.circuit oa na)] => (match bindAll m oa with
      | .ok ops => (match ctorQubits ops (some na) with
        | some n => .ok (.obj (.circuit ops n))
        | none => .err .value)
      | .error e => .err e)
    | _ => .err .badref
  | .circInverse _ => match vs with
    | [some (.circuit oa na)] => (match ctorQubits (inverseOps oa) (some na) with
      | some n => .ok (.obj (.circuit (inverseOps oa) n))
      | none => .err .value)
    | _ => .err .badref
  | .circControlled _ k => match vs with
    | [some (.circuit oa _)] => (match ctorQubits (controlledOps oa k) none with
      | some n => .ok (.obj (.circuit (controlledOps oa k) n))
      | none => .err .value)
    | _ => .err .badref
  | .termNew ops c => .ok (.obj (.term (ops, c)))
  | .termCopy _ c => match vs with
    | [some (.term t)] => .ok (.obj (.term (t.1, c.getD t.2)))
    | _ => .err .badref
  | .termMul _ _ => match vs with
    | [some (.term a), some (.term b)] => .ok (.obj (.term (termMulV a b)))
    | _ => .err .badref
  | .termScale _ c => match vs with
    | [some (.term a)] => .ok (.obj (.term (termScaleV a c)))
    | _ => .err .badref
  | .termAdd _ _ => match vs with
    | [some (.term a), some (.term b)] => .ok (.obj (.psum (simplifyV [a, b])))
    | _ => .err .badref
  | .termPow _ n => match vs with
    | [some (.term a)] => .ok (.obj (.term (termPowV a n)))
    | _ => .err .badref
  | .sumNew _ => match vs with
    | [some (.tlist ts)] => .ok (.obj (.psum ts))
    | _ => .err .badref
  | .sumAdd _ _ => match vs with
    | [some (.psum va), some ob] => (match otherTerms ob with
      | some vb => .ok (.obj (.psum (simplifyV (va ++ vb))))
      | none => .err .badref)
    | _ => .err .badref
  | .sumMul _ _ => match vs with
    | [some (.psum va), some ob] => (match otherTerms ob with
      | some vb => .ok (.obj (.psum (sumMulV va (mulOperand ob vb))))
      | none => .err .badref)
    | _ => .err .badref
  | .sumRMul _ c => match vs with
    | [some (.psum va)] => .ok (.obj (.psum (simplifyV (va.map (termScaleV · c)))))
    | _ => .err .badref
  | .sumPow _ n => match vs with
    | [some (.psum va)] => .ok (.obj (.psum (sumPowV va n)))
    | _ => .err .badref
  | .sumSimplify _ => match vs with
    | [some (.psum va)] => .ok (.obj (.psum (simplifyV va)))
    | _ => .err .badref
  | .opConj _ => match vs with
    | [some (.term a)] => .ok (.obj (.term (conjV a)))
    | [some (.psum va)] => .ok (.obj (.psum (sumConjV va)))
    | _ => .err .badref
  | .measNew _ => match vs with
    | [some (.blist bs)] => .ok (.obj (.meas bs))
    | _ => .err .badref
  | .measFromCounts counts => .ok (.obj (.meas (counts.flatMap (fun c => List.replicate c.2 c.1))))
  | .measDistribution _ => match vs with
    | [some (.meas bs)] => (match distCtorV (preprocessV (freqV bs)) true with
      | .ok d => .ok (.obj (.dist d))
      | .error e => .err e)
    | _ => .err .badref
  | .measRepresenting _ _ samples => match vs with
    | [some (.dist _)] => .ok (.obj (.meas samples))
    | _ => .err .badref
  | .distNew _ nrm => match vs with
    | [some (.ddict d)] => (match distCtorV (preprocessV d) nrm with
      | .ok d' => .ok (.obj (.dist d'))
      | .error e => .err e)
    | _ => .err .badref
  | .distSub _ qs => match vs with
    | [some (.dist d)] => (match subCheck d qs with
      | some e => .err e
      | none => match distCtorV (preprocessV (marginalV d qs)) (isNormalized (dsum d)) with
        | .ok d' => .ok (.obj (.dist d'))
        | .error e => .err e)
    | _ => .err .badref
  | .wfNew _ => match vs with
    | [some (.arr a)] =>
      if ¬ isPow2 a.length then .err .value
      else if isUnitProbability ((probsV a).foldl (· + ·) 0) then .ok (.obj (.wf a)) else .err .value
    | _ => .err .badref
  | .wfBind _ => match vs with
    | [some (.wf a)] => .ok (.obj (.wf a))
    | _ => .err .badref
  | .measCounts _ => match vs with
    | [some (.meas bs)] => .ok (.counts (countsV bs))
    | _ => .err .badref
  | .wfProbs _ => match vs with
    | [some (.wf a)] => .ok (.probs (probsV a))
    | _ => .err .badref
  | .report kind _ => match allSome vs with
    | some os => .ok (.digest kind os)
    | none => .err .badref

/-! ## effects: what each call does to the store, with the code's primitives -/

/-- `PauliTerm(ops, coef)`: a fresh `_ops` dict and a fresh term object -/
def allocTerm (h : Heap) (v : TermV) : Heap × Ref :=
  let d := alloc h (.pdict v.1)
  alloc d.1 (.term d.2 v.2)

def allocTerms (h : Heap) : List TermV → Heap × List Ref
  | [] => (h, [])
  | v :: vs =>
    let t := allocTerm h v
    let r := allocTerms t.1 vs
    (r.1, t.2 :: r.2)

/-- `PauliSum(list)`: a list object and a sum object ALIASING it -/
def mkSum (h : Heap) (rs : List Ref) : Heap × Ref :=
  let l := alloc h (.tlist rs)
  alloc l.1 (.psum l.2)

/-- `Circuit(operations=ops, …)`: `list(operations)` makes the circuit's own list -/
def mkCircuit (h : Heap) (ops : List GOp) (nq : Nat) : Heap × Ref :=
  let l := alloc h (.olist ops)
  alloc l.1 (.circuit l.2 nq)

/-- terms with their addresses -/
abbrev Located := List (Ref × TermV)

/-- build the result list of `simplify`: shared objects keep their address, new ones are allocated -/
def allocDecisions (h : Heap) (lts : Located) : List Decision → Heap × Located
  | [] => (h, [])
  | .share i :: ds =>
    let r := allocDecisions h lts ds
    match lts[i]? with
    | some p => (r.1, p :: r.2)
    | none => r
  | .fresh v :: ds =>
    let t := allocTerm h v
    let r := allocDecisions t.1 lts ds
    (r.1, (t.2, v) :: r.2)

/-- `PauliSum(terms).simplify()` on located terms: returns the new sum and its located terms -/
def simplifyE (h : Heap) (lts : Located) : Heap × Ref × Located :=
  let r := allocDecisions h lts (simplifyD (lts.map (·.2)))
  let s := mkSum r.1 (r.2.map (·.1))
  (s.1, s.2, r.2)

/-- `a * b` for two terms: every intermediate term is a new object; the last one is the result -/
def termMulE (h : Heap) (a b : TermV) : Heap × Ref :=
  let steps := termMulSteps a b
  let g := allocTerms h steps.dropLast
  allocTerm g.1 (termMulV a b)

/-- all products `l * r` (each with its intermediates), located -/
def productsE (h : Heap) (va vb : List TermV) : Heap × Located :=
  (productsV' va vb).foldl (fun (acc : Heap × Located) lr =>
    let t := termMulE acc.1 lr.1 lr.2
    (t.1, acc.2 ++ [(t.2, termMulV lr.1 lr.2)])) (h, [])
where productsV' (va vb : List TermV) : List (TermV × TermV) := va.flatMap (fun l => vb.map (fun r => (l, r)))

/-- `PauliSum * PauliSum` on values already read: products, `PauliSum(products)`, `.simplify()` -/
def sumMulE (h : Heap) (va vb : List TermV) : Heap × Ref × Located :=
  let p := productsE h va vb
  let s := mkSum p.1 (p.2.map (·.1))
  simplifyE s.1 p.2

def locate (rs : List Ref) (vs : List TermV) : Located := rs.zip vs

/-- `_efficient_exponentiation` for a term, on the store -/
def termPowE (h : Heap) (x : TermV) : (fuel : Nat) → Nat → Heap × Ref × TermV
  | 0, _ => let t := allocTerm h identityTerm; (t.1, t.2, identityTerm)
  | fuel + 1, n =>
    if n = 0 then let t := allocTerm h identityTerm; (t.1, t.2, identityTerm)
    else if n % 2 = 1 then
      let r := termPowE h x fuel (n - 1)
      let t := termMulE r.1 x r.2.2
      (t.1, t.2, termMulV x r.2.2)
    else
      let r := termPowE h x fuel (n / 2)
      let t := termMulE r.1 r.2.2 r.2.2
      (t.1, t.2, termMulV r.2.2 r.2.2)

/-- `_efficient_exponentiation` for a sum, on the store -/
def sumPowE (h : Heap) (x : List TermV) : (fuel : Nat) → Nat → Heap × Ref × List TermV
  | 0, _ =>
    let t := allocTerm h identityTerm; let s := mkSum t.1 [t.2]; (s.1, s.2, [identityTerm])
  | fuel + 1, n =>
    if n = 0 then
      let t := allocTerm h identityTerm; let s := mkSum t.1 [t.2]; (s.1, s.2, [identityTerm])
    else if n % 2 = 1 then
      let r := sumPowE h x fuel (n - 1)
      let m := sumMulE r.1 x r.2.2
      (m.1, m.2.1, sumMulV x r.2.2)
    else
      let r := sumPowE h x fuel (n / 2)
      let m := sumMulE r.1 r.2.2 r.2.2
      (m.1, m.2.1, sumMulV r.2.2 r.2.2)

/-- `acc = PauliSum(); for t in terms: acc += t.copy(conj)` – `+=` is `__add__`: copies, then simplifies -/
def sumConjE (h : Heap) (va : List TermV) : Heap × Ref × Located :=
  let s0 := mkSum h []
  va.foldl (fun (acc : Heap × Ref × Located) t =>
    let c := allocTerm acc.1 (conjV t)                        -- term.copy(conjugate)
    let o := mkSum c.1 [c.2]                                  -- PauliSum([other])
    let cps := allocTerms o.1 (acc.2.2.map (·.2) ++ [conjV t])  -- [term.copy() for term in chain(...)]
    let n := mkSum cps.1 cps.2                                -- new_op
    simplifyE n.1 (locate cps.2 (acc.2.2.map (·.2) ++ [conjV t]))) (s0.1, s0.2, [])

/-- `MeasurementOutcomeDistribution(d, normalize)`: `preprocess` builds a FRESH dict, normalisation
    multiplies IN PLACE (`d[key] *= 1/norm`) – on that fresh dict –, then the object is created. -/
def distCtorE (h : Heap) (d : DDict) (normalize : Bool) : Heap × Ref :=
  let p := alloc h (.ddict (preprocessV d))
  let h1 := match distCtorV (preprocessV d) normalize with
    | .ok d' => if d' = preprocessV d then p.1 else write p.1 p.2 (.ddict d')
    | .error _ => p.1
  alloc h1 (.dist p.2)

def effects (h : Heap) (c : Call) (vs : List (Option Obs)) : Heap × Option Ref :=
  match c with
  | .litOps ops => let a := alloc h (.olist ops); (a.1, some a.2)
  | .litBits bs => let a := alloc h (.blist bs); (a.1, some a.2)
  | .litDict d => let a := alloc h (.ddict d); (a.1, some a.2)
  | .litArr x => let a := alloc h (.arr x); (a.1, some a.2)
  | .litTerms ts => let a := alloc h (.tlist ts); (a.1, some a.2)
  | .circNew _ nq => match vs with
    | [some (.oplist ops)] =>
      let c := mkCircuit h ops ((ctorQubits ops nq).getD 0); (c.1, some c.2)
    | _ => (h, none)
  | .circAdd _ _ => match vs with
    | [some (.circuit oa na), some (.circuit ob nb)] =>
      let l := alloc h (.olist (oa ++ ob))                      -- [*circuit.operations, *other.operations]
      let c := mkCircuit l.1 (oa ++ ob) ((ctorQubits (oa ++ ob) (some (max na nb))).getD 0); (c.1, some c.2)
    | _ => (h, none)
  | .circAddOp _ op => match vs with
    | [some (.circuit oa na)] =>
      let l := alloc h (.olist (oa ++ [op]))                    -- [*circuit.operations, other]
      let n := match op.qubits with | [] => 0 | q :: qs => qs.foldl max q + 1
      let c := mkCircuit l.1 (oa ++ [op]) ((ctorQubits (oa ++ [op]) (some (max na n))).getD 0); (c.1, some c.2)
    | _ => (h, none)
  | .circBind _ m => match vs with
    | [some (.circuit oa na)] =>
      (match bindAll m oa with
      | .ok ops =>
        let l := alloc h (.olist ops)                           -- [op.bind(symbols_map) for op in …]
        let c := mkCircuit l.1 ops ((ctorQubits ops (some na)).getD 0); (c.1, some c.2)
      | .error _ => (h, none))
    | _ => (h, none)
  | .circInverse _ => match vs with
    | [some (.circuit oa na)] =>
      let l := alloc h (.olist (inverseOps oa))
      let c := mkCircuit l.1 (inverseOps oa) ((ctorQubits (inverseOps oa) (some na)).getD 0); (c.1, some c.2)
    | _ => (h, none)
  | .circControlled _ k => match vs with
    | [some (.circuit oa _)] =>
      let l := alloc h (.olist (controlledOps oa k))            -- c_ops, filled by append
      let c := mkCircuit l.1 (controlledOps oa k) ((ctorQubits (controlledOps oa k) none).getD 0); (c.1, some c.2)
    | _ => (h, none)
  | .termNew ops c => let t := allocTerm h (ops, c); (t.1, some t.2)
  | .termCopy _ c => match vs with
    | [some (.term t)] => let n := allocTerm h (t.1, c.getD t.2); (n.1, some n.2)
    | _ => (h, none)
  | .termMul _ _ => match vs with
    | [some (.term a), some (.term b)] => let t := termMulE h a b; (t.1, some t.2)
    | _ => (h, none)
  | .termScale _ c => match vs with
    | [some (.term a)] => let t := allocTerm h (termScaleV a c); (t.1, some t.2)
    | _ => (h, none)
  | .termAdd ra rb => match vs with
    | [some (.term a), some (.term b)] =>
      let s := mkSum h [ra, rb]                                 -- PauliSum([self, other]) holds the ARGUMENTS
      let r := simplifyE s.1 [(ra, a), (rb, b)]; (r.1, some r.2.1)
    | _ => (h, none)
  | .termPow _ n => match vs with
    | [some (.term a)] =>
      let c := allocTerm h a                                    -- self.copy()
      let r := termPowE c.1 a (n + 1) n; (r.1, some r.2.1)
    | _ => (h, none)
  | .sumNew l => match vs with
    | [some (.tlist _)] => let s := alloc h (.psum l); (s.1, some s.2)   -- self.terms = terms (alias)
    | _ => (h, none)
  | .sumAdd _ rb => match vs with
    | [some (.psum va), some ob] =>
      (match otherTerms ob with
      | some vb =>
        let o := match ob with | .term _ => mkSum h [rb] | _ => (h, rb)     -- PauliSum([other]) for a term
        let cps := allocTerms o.1 (va ++ vb)                    -- term.copy() for every term of both
        let n := mkSum cps.1 cps.2
        let r := simplifyE n.1 (locate cps.2 (va ++ vb)); (r.1, some r.2.1)
      | none => (h, none))
    | _ => (h, none)
  | .sumMul _ _ => match vs with
    | [some (.psum va), some ob] =>
      (match otherTerms ob with
      | some vb =>
        let t := match ob with
          | .term t =>
            let i := allocTerm h identityTerm                   -- PauliTerm.identity()
            (termMulE i.1 identityTerm t).1                     -- … * other
          | _ => h
        let r := sumMulE t va (mulOperand ob vb); (r.1, some r.2.1)
      | none => (h, none))
    | _ => (h, none)
  | .sumRMul _ c => match vs with
    | [some (.psum va)] =>
      let cps := allocTerms h va                                -- term.copy()
      let sc := allocTerms cps.1 (va.map (termScaleV · c))      -- … * other
      let n := mkSum sc.1 sc.2
      let r := simplifyE n.1 (locate sc.2 (va.map (termScaleV · c))); (r.1, some r.2.1)
    | _ => (h, none)
  | .sumPow _ n => match vs with
    | [some (.psum va)] => let r := sumPowE h va (n + 1) n; (r.1, some r.2.1)
    | _ => (h, none)
  | .sumSimplify ra => match vs with
    | [some (.psum va)] =>
      let r := simplifyE h (locate (termRefs h ra) va); (r.1, some r.2.1)   -- may share the receiver's terms
    | _ => (h, none)
  | .opConj _ => match vs with
    | [some (.term a)] => let t := allocTerm h (conjV a); (t.1, some t.2)
    | [some (.psum va)] => let r := sumConjE h va; (r.1, some r.2.1)
    | _ => (h, none)
  | .measNew l => match vs with
    | [some (.blist _)] => let m := alloc h (.meas l); (m.1, some m.2)   -- self.bitstrings = bitstrings
    | _ => (h, none)
  | .measFromCounts counts =>
    let l := alloc h (.blist [])                              -- cls(): self.bitstrings = []
    let m := alloc l.1 (.meas l.2)
    let h' := counts.foldl (fun (acc : Heap × List Bits) c =>  -- self.bitstrings += [tuple] * n   (in place)
      (write acc.1 l.2 (.blist (acc.2 ++ List.replicate c.2 c.1)), acc.2 ++ List.replicate c.2 c.1)) (m.1, [])
    (h'.1, some m.2)
  | .measDistribution _ => match vs with
    | [some (.meas bs)] =>
      let l := alloc h (.ddict (freqV bs))                      -- the local `distribution` dict
      let r := distCtorE l.1 (freqV bs) true; (r.1, some r.2)
    | _ => (h, none)
  | .measRepresenting _ _ samples => match vs with
    | [some (.dist d)] =>
      let c := alloc h (.ddict d)                               -- copy.deepcopy(distribution_dict)
      let l := alloc c.1 (.blist samples)                       -- bitstring_samples (local list, += / remove)
      let m := alloc l.1 (.meas l.2); (m.1, some m.2)
    | _ => (h, none)
  | .distNew _ nrm => match vs with
    | [some (.ddict d)] => let r := distCtorE h d nrm; (r.1, some r.2)
    | _ => (h, none)
  | .distSub _ qs => match vs with
    | [some (.dist d)] =>
      let nc := alloc h (.ddict [])                             -- new_counts = {}
      let ks := alloc nc.1 (.blist (d.map (·.1)))               -- copy.deepcopy(list(keys))
      let h1 := (marginalSteps d qs).foldl (fun acc s => write acc nc.2 (.ddict s)) ks.1   -- new_counts[k] = …
      let r := distCtorE h1 (marginalV d qs) (isNormalized (dsum d)); (r.1, some r.2)
    | _ => (h, none)
  | .wfNew l => match vs with
    | [some (.arr _)] => let w := alloc h (.wf l); (w.1, some w.2)   -- np.asarray: no copy
    | _ => (h, none)
  | .wfBind w => match vs with
    | [some (.wf _)] => (h, some w)                             -- `return self`
    | _ => (h, none)
  | .measCounts _ => (h, none)
  | .wfProbs _ => (h, none)
  | .report _ _ => (h, none)

structure StepResult where
  ref : Option Ref
  out : Outcome
deriving Repr

def argViews (h : Heap) (c : Call) : List (Option Obs) := c.refs.map (view? h)

/-- one public call on the store -/
def step (h : Heap) (c : Call) : Heap × StepResult :=
  match valueOf c (argViews h c) with
  | .err e => (h, ⟨none, .err e⟩)
  | .ok v => let p := effects h c (argViews h c); (p.1, ⟨p.2, .ok v⟩)

/-- a history of calls on shared objects -/
def run (h : Heap) : List Call → Heap × List StepResult
  | [] => (h, [])
  | c :: cs =>
    let s := step h c
    let r := run s.1 cs
    (r.1, s.2 :: r.2)

/-- THE CODE BEFORE d900b77: `subdistribution` popped every key out of `self.distribution_dict` -/
def effectsSubPop (h : Heap) (rd : Ref) (qs : List Int) : Heap × Option Ref :=
  match h[rd]? with
  | some (.dist dr) => match getDdict h dr with
    | some d =>
      let nc := alloc h (.ddict [])
      let h1 := write nc.1 dr (.ddict [])                     -- self.distribution_dict.pop(key) for every key
      let r := distCtorE h1 (marginalV d qs) (isNormalized (dsum d)); (r.1, some r.2)
    | none => (h, none)
  | _ => (h, none)

end OQ.C20
