/-
  C03 — Pauli operator arithmetic (Mathlib-free executable model).
  Mirrors  src/orquestra/quantum/operators/_pauli_operators.py  line by line:
    OPERATOR_MAP / COEFF_MAP (regenerated into OQ/Generated/PauliTables.lean),
    PauliTerm._multiply_by_operator, __mul__, __rmul__, __truediv__, __pow__, __add__, __radd__, __sub__, __rsub__, __eq__, __hash__,
    PauliSum.__mul__, __rmul__, __truediv__, __pow__, __add__, __radd__, __sub__, __rsub__, __eq__, simplify,
    _efficient_exponentiation, _validate_type.
  Data (`Term`, `PSum`, `denote`) come from OQ/Model/Pauli.lean.

  Generic over the scalar type `R` (operations only).  What the code takes from numpy / floats enters as
  parameters:  `negl c`   = `np.isclose(c, 0.0)`,
               `close a b` = `np.allclose(a, b)`,
               `hk c`      = `(round(re·HASH_PRECISION), round(im·HASH_PRECISION))` (the coefficient part of `__hash__`),
               `recip x`   = `1.0 / x`  (`none` = ZeroDivisionError).
-/
import OQ.Model.Pauli
import OQ.Generated.PauliTables
namespace OQ.C03
open OQ.Pauli

variable {R : Type} [Zero R] [One R] [Add R] [Mul R] [Neg R]

/-! ### scalars of the generated table -/

def natTo : Nat → R
  | 0 => 0
  | n + 1 => natTo n + 1

def intTo : Int → R
  | .ofNat n => natTo n
  | .negSucc n => -(natTo (n + 1))

/-- the Gaussian integer `(re, im)` of `COEFF_MAP` as a scalar -/
def phase (k : Scal R) (g : Int × Int) : R := intTo g.1 + k.i * intTo g.2

/-! ### dict operations on the insertion-ordered association list `_ops` -/

/-- `_ops.get(q)` -/
def lookup (ops : List (Nat × P)) (q : Nat) : Option P := (ops.find? (fun p => p.1 == q)).map (·.2)

/-- `del result_ops[index]` -/
def opsErase (ops : List (Nat × P)) (idx : Nat) : List (Nat × P) := ops.filter (fun p => p.1 != idx)

/-- `result_ops[index] = op` for a key that is present (keeps its position) -/
def opsSet (ops : List (Nat × P)) (idx : Nat) (op : P) : List (Nat × P) :=
  ops.map (fun p => if p.1 == idx then (idx, op) else p)

/-- `PauliTerm._multiply_by_operator(op, index)` (the `else: raise ValueError` branch is unreachable: `op : P`) -/
def mulByOp (k : Scal R) (t : Term R) (op : P) (idx : Nat) : Term R :=
  match lookup t.ops idx with
  | none => ⟨t.ops ++ [(idx, op)], t.coeff⟩                                  -- case 1: qubit not used yet
  | some a =>
    if a = op then ⟨opsErase t.ops idx, t.coeff⟩                             -- case 2: equal operators cancel
    else ⟨opsSet t.ops idx (Gen.opTable a op), t.coeff * phase k (Gen.coeffTable a op)⟩   -- case 3

/-- the keys of `_ops` (each once) in dict order -/
def keys (ops : List (Nat × P)) : List Nat :=
  ops.foldl (fun acc p => if acc.contains p.1 then acc else acc ++ [p.1]) []

/-- `PauliTerm.__mul__(PauliTerm)`.  `for op, index in other` iterates the SET `other.qubits` in an order the
    code does not control: `order` is that order (every key of `u` exactly once). -/
def mulTermOrd (k : Scal R) (order : List Nat) (t u : Term R) : Term R :=
  let r0 : Term R := ⟨t.ops, 1⟩                                  -- self.copy(new_coefficient=1)
  let r := order.foldl (fun r q => match lookup u.ops q with
                                    | some op => mulByOp k r op q
                                    | none => r) r0
  ⟨r.ops, r.coeff * (t.coeff * u.coeff)⟩                         -- result_term.copy(result_term.coefficient * new_coeff)

/-- the product with the dict order as iteration order (what the driver runs) -/
def mulTerm (k : Scal R) (t u : Term R) : Term R := mulTermOrd k (keys u.ops) t u

/-- `self.copy(self.coefficient * complex(other))` -/
def scaleTerm (t : Term R) (x : R) : Term R := ⟨t.ops, t.coeff * x⟩

/-- `PauliTerm("I0", x)` -/
def constTerm (x : R) : Term R := ⟨[], x⟩

/-- `PauliTerm.identity()` -/
def identityTerm : Term R := constTerm 1

/-! ### simplify -/

/-- `term.operations == other.operations` (frozensets of dict items) -/
def opsEq (a b : List (Nat × P)) : Bool :=
  a.all (fun p => lookup b p.1 == some p.2) && b.all (fun p => lookup a p.1 == some p.2)

/-- one value `[first, *rest]` of the OrderedDict `like_terms` -/
structure Group (R : Type) where
  first : Term R
  rest : List (Term R)

/-- `if key in like_terms: like_terms[key].append(term) else: like_terms[key] = [term]` -/
def insertGroup : List (Group R) → Term R → List (Group R)
  | [], t => [⟨t, []⟩]
  | g :: gs, t => if opsEq g.first.ops t.ops then ⟨g.first, g.rest ++ [t]⟩ :: gs else g :: insertGroup gs t

def likeTerms (s : PSum R) : List (Group R) := s.foldl insertGroup []

/-- `sum(t.coefficient for t in term_list)` (starts from 0) -/
def Group.coeffSum (g : Group R) : R := (g.first :: g.rest).foldl (fun acc t => acc + t.coeff) 0

def simplifyGroup (negl : R → Bool) (g : Group R) : List (Term R) :=
  if g.rest.isEmpty && !negl g.first.coeff then [g.first]
  else
    let c := g.coeffSum
    if !negl c then [⟨g.first.ops, c⟩] else []

/-- `PauliSum.simplify()` -/
def simplify (negl : R → Bool) (s : PSum R) : PSum R := (likeTerms s).flatMap (simplifyGroup negl)

/-! ### sums -/

/-- `PauliSum.__add__` on two term lists -/
def addS (negl : R → Bool) (s1 s2 : PSum R) : PSum R := simplify negl (s1 ++ s2)

/-- the list comprehension over `itertools.product(self.terms, other_terms)` -/
def productTerms (k : Scal R) (s1 s2 : PSum R) : PSum R :=
  s1.flatMap (fun l => s2.map (fun r => mulTerm k l r))

/-- `PauliSum.__mul__` with `other_terms` already determined -/
def mulS (k : Scal R) (negl : R → Bool) (s1 s2 : PSum R) : PSum R := simplify negl (productTerms k s1 s2)

/-- `PauliSum.__rmul__(number)` -/
def rmulS (negl : R → Bool) (s : PSum R) (x : R) : PSum R := simplify negl (s.map (fun t => scaleTerm t x))

/-- `_efficient_exponentiation` -/
def effExp {α : Type} (mul : α → α → α) (one : α) (x : α) (p : Nat) : α :=
  if h0 : p = 0 then one
  else if p % 2 = 1 then mul x (effExp mul one x (p - 1))
  else
    let r := effExp mul one x (p / 2)
    mul r r
termination_by p
decreasing_by all_goals omega

/-! ### values and operator dispatch (numbers, terms and sums mixed on either side) -/

inductive Val (R : Type) where
  | num (x : R)
  | term (t : Term R)
  | sum (s : PSum R)

inductive Err where
  | type | value | zerodiv | scope
deriving DecidableEq, Repr

def Err.toString : Err → String
  | .type => "err:type" | .value => "err:value" | .zerodiv => "err:zerodiv" | .scope => "err:scope"

/-- `a + b` (`__add__`, falling back to `__radd__` when the left operand is a number) -/
def addV (negl : R → Bool) : Val R → Val R → Except Err (Val R)
  | .term t, .sum s => .ok (.sum (addS negl s [t]))                     -- `return other + self`
  | .term t, .term u => .ok (.sum (simplify negl [t, u]))
  | .term t, .num x => .ok (.sum (simplify negl [t, constTerm x]))      -- `self + PauliTerm("I0", other)`
  | .num x, .term t => .ok (.sum (simplify negl [t, constTerm x]))      -- `__radd__`
  | .sum s, .term t => .ok (.sum (addS negl s [t]))
  | .sum s, .num x => .ok (.sum (addS negl s [constTerm x]))
  | .sum s, .sum s' => .ok (.sum (addS negl s s'))
  | .num x, .sum s => .ok (.sum (addS negl s [constTerm x]))            -- `__radd__`: `self + other`
  | .num _, .num _ => .error .scope                                      -- plain Python numbers: not the library

/-- `-1.0 * other` -/
def negV (negl : R → Bool) : Val R → Val R
  | .num x => .num ((-1) * x)
  | .term t => .term (scaleTerm t (-1))                                      -- `PauliTerm.__rmul__`
  | .sum s => .sum (rmulS negl s (-1))                                   -- `PauliSum.__rmul__`

/-- `a - b`: `self + -1.0 * other` resp. `other + -1.0 * self` -/
def subV (negl : R → Bool) (a b : Val R) : Except Err (Val R) :=
  match a, b with
  | .num _, .num _ => .error .scope
  | _, _ => addV negl a (negV negl b)

/-- `a * b` -/
def mulV (k : Scal R) (negl : R → Bool) : Val R → Val R → Except Err (Val R)
  | .term t, .sum s => .ok (.sum (simplify negl (mulS k negl [t] s)))   -- `(PauliSum([self]) * other).simplify()`
  | .term t, .term u => .ok (.term (mulTerm k t u))
  | .term t, .num x => .ok (.term (scaleTerm t x))
  | .num x, .term t => .ok (.term (scaleTerm t x))                           -- `__rmul__`: `self * other`
  | .sum s, .sum s' => .ok (.sum (mulS k negl s s'))
  | .sum s, .term t => .ok (.sum (mulS k negl s [mulTerm k identityTerm t]))
  | .sum s, .num x => .ok (.sum (mulS k negl s [scaleTerm (identityTerm (R := R)) x]))
  | .num x, .sum s => .ok (.sum (rmulS negl s x))                        -- `PauliSum.__rmul__`
  | .num _, .num _ => .error .scope

/-- `a / b`: `self * (1.0 / other)`; `1.0 / operator` and `number / operator` are TypeErrors -/
def divV (k : Scal R) (negl : R → Bool) (recip : R → Option R) : Val R → Val R → Except Err (Val R)
  | .num _, .num _ => .error .scope
  | _, .term _ => .error .type
  | _, .sum _ => .error .type
  | a, .num y =>
    match recip y with
    | none => .error .zerodiv
    | some r => mulV k negl a (.num r)

/-- `a ** p` for an `int` p (other exponent types are ValueErrors raised before any arithmetic) -/
def powV (k : Scal R) (negl : R → Bool) : Val R → Int → Except Err (Val R)
  | .num _, _ => .error .scope
  | .term t, p =>
    if p < 0 then .error .value
    else .ok (.term (effExp (mulTerm k) identityTerm t p.toNat))       -- `_efficient_exponentiation(self.copy(), power)`
  | .sum s, p =>
    if p < 0 then .error .value
    else .ok (.sum (effExp (mulS k negl) [identityTerm] s p.toNat))

/-- the exponent as Python passes it: an `int`, or anything else (float, complex, operator, …) -/
inductive Expo where
  | int (p : Int)
  | other

/-- `a ** e`: `if not isinstance(power, int) or power < 0: raise ValueError` -/
def powE (k : Scal R) (negl : R → Bool) (v : Val R) : Expo → Except Err (Val R)
  | .int p => powV k negl v p
  | .other => match v with
    | .num _ => .error .scope
    | _ => .error .value

/-- the matrix a value denotes on `n` qubits: a number is that multiple of the identity -/
def Val.denote (k : Scal R) (n : Nat) : Val R → Mat R
  | .num x => Mat.smul x (Mat.identity (2 ^ n))
  | .term t => t.denote k n
  | .sum s => PSum.denote k n s

/-! ### equality -/

/-- `PauliTerm.__eq__(PauliTerm)` -/
def eqTerm (close : R → R → Bool) (t u : Term R) : Bool :=
  close t.coeff u.coeff && ((close t.coeff 0 && close u.coeff 0) || opsEq t.ops u.ops)

section eq
variable {K : Type} [DecidableEq K]

/-- two set entries are the same element: equal hash (modelled as equal hashed tuple) and `existing == new` -/
def sameEntry (close : R → R → Bool) (hk : R → K) (existing new : Term R) : Bool :=
  decide (hk existing.coeff = hk new.coeff) && opsEq existing.ops new.ops && eqTerm close existing new

/-- `set(terms)` -/
def mkSet (close : R → R → Bool) (hk : R → K) (s : PSum R) : PSum R :=
  s.foldl (fun acc t => if acc.any (fun e => sameEntry close hk e t) then acc else acc ++ [t]) []

/-- `PauliSum.__eq__(PauliSum)`: length test, then `set(self.terms) == set(other.terms)` -/
def eqSum (close : R → R → Bool) (hk : R → K) (s1 s2 : PSum R) : Bool :=
  if s1.length != s2.length then false
  else
    let a := mkSet close hk s1
    let b := mkSet close hk s2
    a.length == b.length && a.all (fun t => b.any (fun e => sameEntry close hk e t))

/-- `PauliSum.__eq__(PauliTerm)` -/
def eqSumTerm (close : R → R → Bool) (hk : R → K) (s : PSum R) (t : Term R) : Bool :=
  if s.length == 0 then close t.coeff 0 else eqSum close hk s [t]

/-- `a == b` (numbers on the left fall back to the reflected `__eq__`) -/
def eqV (close : R → R → Bool) (hk : R → K) : Val R → Val R → Except Err Bool
  | .term t, .num x => .ok (eqTerm close t (constTerm x))
  | .term t, .sum s => .ok (eqSumTerm close hk s t)                      -- `return other == self`
  | .term t, .term u => .ok (eqTerm close t u)
  | .sum s, .num x => .ok (eqSumTerm close hk s (constTerm x))              -- `self == PauliTerm("I0", complex(other))`
  | .sum s, .term t => .ok (eqSumTerm close hk s t)
  | .sum s, .sum s' => .ok (eqSum close hk s s')
  | .num x, .term t => .ok (eqTerm close t (constTerm x))
  | .num x, .sum s => .ok (eqSumTerm close hk s (constTerm x))
  | .num _, .num _ => .error .scope
end eq

/-! ### the instantiation the driver runs: R = Cyc8 (only ℚ(i) ⊂ ℚ(ζ₈) is ever reached) -/

namespace Run

def sq (q : Rat) : Rat := q * q

/-- |x|² of a Gaussian rational -/
def normSq (x : Cyc8) : Rat := sq x.a + sq x.c

/-- `np.isclose(c, 0.0)`: |c| ≤ 1e-8 -/
def negl (x : Cyc8) : Bool := normSq x ≤ 1 / (10 : Rat) ^ 16

/-- `np.allclose(a, b)`: |a − b| ≤ 1e-8 + 1e-5·|b|, decided exactly by squaring twice -/
def close (a b : Cyc8) : Bool :=
  let d := normSq (a - b)
  let nb := normSq b
  let t : Rat := 1 / (10 : Rat) ^ 8
  let r : Rat := 1 / (10 : Rat) ^ 5
  let lhs := d - sq t - sq r * nb           -- |d|² − t² − r²|b|²  ≤  2·t·r·|b|
  if lhs ≤ 0 then true else sq lhs ≤ 4 * sq t * sq r * nb

/-- Python `round` (half to even) -/
def roundHalfEven (q : Rat) : Int :=
  let f := (q + 1 / 2).floor
  if (f : Rat) == q + 1 / 2 && f % 2 != 0 then f - 1 else f

/-- CPython's `hash(n)` of an int of magnitude below 2^61 - 1: the identity, except `hash(-1) = -2` (T19: the hashes of the tuples
    `(-1, …)` and `(-2, …)` therefore collide, and two terms whose coefficients round to -1 and -2 land in the same bucket) -/
def pyIntHash (n : Int) : Int := if n = -1 then -2 else n

/-- coefficient part of `PauliTerm.__hash__` as far as the HASH VALUE depends on it -/
def hk (x : Cyc8) : Int × Int :=
  (pyIntHash (roundHalfEven (x.a * (Gen.hashPrecision : Rat))), pyIntHash (roundHalfEven (x.c * (Gen.hashPrecision : Rat))))

/-- `1.0 / x` -/
def recip (x : Cyc8) : Option Cyc8 := if x = 0 then none else some (Cyc8.inv x)

end Run

end OQ.C03
