/-
  C18 — decomposition of circuits (Mathlib-free executable model).
  Mirrors  src/orquestra/quantum/decompositions/_decomposition.py          (rule chaining)
           src/orquestra/quantum/decompositions/_orquestra_decompositions.py (U3GateToRotation,
                                                                            decompose_orquestra_circuit)
  plus the few fields of `circuits/_gates.py` / `_circuit.py` the rules read
  (`gate.name`, `gate.params`, `isinstance(gate, ControlledGate)`, `wrapped_gate`, `num_control_qubits`,
  `gate.controlled(k)`, `Circuit.__init__`), and – for the semantic comparison – the gate matrices.

  `none` always means "the Python call raises".
-/
import OQ.Exec.Scal
import OQ.Model.Gates
import OQ.Model.Lift
namespace OQ.C18

/-! ## `_decomposition.py`: generic rule chaining (any operation type) -/

/-- a `DecompositionRule`: `predicate` and `production`; each may raise (`none`) -/
structure Rule (Op : Type) where
  predicate : Op → Option Bool
  production : Op → Option (List Op)

/-- `[y for x in xs for y in f(x)]` where `f` may raise: evaluated left to right, any exception aborts -/
def flatMapM {α β : Type} (f : α → Option (List β)) : List α → Option (List β)
  | [] => some []
  | a :: as =>
    match f a with
    | none => none
    | some l =>
      match flatMapM f as with
      | none => none
      | some r => some (l ++ r)

/-- `current_rule.production(operation) if current_rule.predicate(operation) else [operation]` -/
def applyRule {Op : Type} (r : Rule Op) (op : Op) : Option (List Op) :=
  match r.predicate op with
  | none => none
  | some true => r.production op
  | some false => some [op]

/-- `decompose_operation(operation, decomposition_rules)`: the first rule is applied to the operation,
    every operation it produced is decomposed with the REMAINING rules. -/
def decomposeOperation {Op : Type} : List (Rule Op) → Op → Option (List Op)
  | [], op => some [op]
  | r :: rs, op =>
    match applyRule r op with
    | none => none
    | some new => flatMapM (decomposeOperation rs) new

/-- `decompose_operations(operations, decomposition_rules)` -/
def decomposeOperations {Op : Type} (rules : List (Rule Op)) (ops : List Op) : Option (List Op) :=
  flatMapM (decomposeOperation rules) ops

/-! ## the gate / operation objects, reduced to what the rules (and the semantics) read -/

/-- A gate object.  `α` = type of a gate parameter (opaque to the decomposition: numbers, symbols, expressions),
    `R` = scalars of gate matrices.
    * `mf name params m` – a `MatrixFactoryGate` (`m = none`: a built-in prototype, matrix from the built-in
      table by `name`; `m = some M`: any other factory, e.g. a custom gate, with its matrix `M`).  Gate objects
      of other classes whose only visible fields are a name and params (`Power`: name `"<inner>^<e>"`,
      `Exponential`: name `"Exponential"`) are passed as `mf` too.
    * `controlled w k` – `ControlledGate(wrapped_gate = w, num_control_qubits = k)`
    * `dagger w` – `Dagger(w)` -/
inductive Gate (α : Type) (R : Type) where
  | mf (name : String) (params : List α) (m : Option (Mat R))
  | controlled (wrapped : Gate α R) (k : Nat)
  | dagger (wrapped : Gate α R)
deriving Inhabited

namespace Gate
variable {α R : Type}

/-- `gate.name` (`CONTROLLED_GATE_NAME = "Control"`, `Dagger.name = wrapped.name + "_Dagger"`) -/
def name : Gate α R → String
  | mf n _ _ => n
  | controlled _ _ => "Control"
  | dagger w => w.name ++ "_Dagger"

/-- `gate.params` (wrappers forward to the wrapped gate) -/
def params : Gate α R → List α
  | mf _ p _ => p
  | controlled w _ => w.params
  | dagger w => w.params

/-- `isinstance(gate, ControlledGate)` -/
def isControlled : Gate α R → Bool
  | controlled _ _ => true
  | _ => false

/-- `MatrixFactoryGate.controlled(k)` = `ControlledGate(self, k)`; `__post_init__` raises for `k < 1` -/
def mfControlled (g : Gate α R) (k : Nat) : Option (Gate α R) :=
  if k < 1 then none else some (controlled g k)

end Gate

/-- an element of `Circuit.operations`: a `GateOperation(gate, qubit_indices)` or an operation of another
    class (`MultiPhaseOperation`, `ResetOperation`), which has `qubit_indices` and `params` but no `gate` -/
inductive Operation (α : Type) (R : Type) where
  | gate (g : Gate α R) (qs : List Nat)
  | other (tag : String) (qs : List Nat)
deriving Inhabited

namespace Operation
variable {α R : Type}
def qs : Operation α R → List Nat
  | gate _ q => q
  | other _ q => q
end Operation

/-! ## `_orquestra_decompositions.py`: the bundled rule `U3GateToRotation` -/
section U3
variable {α R : Type}

def rzGate (a : α) : Gate α R := .mf "RZ" [a] none
def ryGate (a : α) : Gate α R := .mf "RY" [a] none

/-- `U3GateToRotation.predicate`:
    `isinstance(operation, GateOperation) and (operation.gate.name == "U3" or
       isinstance(operation.gate, ControlledGate) and operation.gate.wrapped_gate.name == "U3")` -/
def u3Predicate : Operation α R → Option Bool
  | .other _ _ => some false
  | .gate g _ =>
    some (g.name == "U3" ||
      (match g with
       | .controlled w _ => w.name == "U3"
       | _ => false))

/-- `U3GateToRotation.production`:
    `theta, phi, lambda_ = operation.params` (raises unless there are exactly three);
    `[RZ(phi), RY(theta), RZ(lambda_)]`, each `.controlled(num_control_qubits)` when the gate is a
    `ControlledGate`, placed on `operation.qubit_indices`, and the list REVERSED.
    (A non-gate operation never reaches this function through the chaining – the predicate is false – and a
    direct call raises.) -/
def u3Production : Operation α R → Option (List (Operation α R))
  | .other _ _ => none
  | .gate g qs =>
    match g.params with
    | [th, ph, la] =>
      let dec : List (Gate α R) := [rzGate ph, ryGate th, rzGate la]
      let pre : Gate α R → Option (Gate α R) := fun x =>
        match g with
        | .controlled _ k => x.mfControlled k
        | _ => some x
      match dec.mapM pre with
      | none => none
      | some gs => some ((gs.map (fun x => Operation.gate x qs)).reverse)
    | _ => none

def u3Rule : Rule (Operation α R) := ⟨u3Predicate, u3Production⟩

end U3

/-! ## `Circuit.__init__` and `decompose_orquestra_circuit` -/
section Circ
variable {α R : Type}

/-- `_circuit_size_by_operations`: `0` for no operations, else `max(all qubit indices) + 1`
    (`max()` of an empty sequence raises). -/
def sizeByOps (ops : List (Operation α R)) : Option Nat :=
  if ops.isEmpty then some 0
  else
    match ops.flatMap Operation.qs with
    | [] => none
    | q :: rest => some (rest.foldl max q + 1)

/-- a `Circuit`: its operations and its `n_qubits` -/
structure Circuit (α : Type) (R : Type) where
  ops : List (Operation α R)
  n : Nat
deriving Inhabited

/-- `Circuit(operations, n_qubits=declared)` for a natural number `declared` (`0` is falsy: the width is then
    computed from the operations) -/
def mkCircuit (ops : List (Operation α R)) (declared : Nat) : Option (Circuit α R) :=
  if declared ≠ 0 then some ⟨ops, declared⟩
  else (sizeByOps ops).map (fun n => ⟨ops, n⟩)

/-- `decompose_orquestra_circuit(circuit, rules)` =
    `Circuit(decompose_operations(circuit.operations, rules), n_qubits=circuit.n_qubits)` -/
def decomposeCircuit (rules : List (Rule (Operation α R))) (c : Circuit α R) : Option (Circuit α R) :=
  match decomposeOperations rules c.ops with
  | none => none
  | some ops' => mkCircuit ops' c.n

end Circ

/-! ## gate matrices (for the semantic comparison) -/
section Sem
variable {R : Type} [Zero R] [One R] [Add R] [Mul R] [Neg R]

/-- `ControlledGate.matrix` = `sympy.Matrix.diag(eye(2**num_qubits - 2**wrapped.num_qubits), wrapped.matrix)`
    with `d = 2**wrapped.num_qubits` read off the wrapped matrix and `D = d * 2**k`. -/
def ctrlMatrix (k : Nat) (m : Mat R) : Mat R :=
  let d := m.r
  let D := d * 2 ^ k
  let o := D - d
  Mat.ofFn D D (fun i j => if i < o ∨ j < o then (if i = j then 1 else 0) else m.get (i - o) (j - o))

/-- `gate.matrix`; `none`: not a built-in name / wrong number of parameters (the factory call raises) -/
def gateMatrix (k : Scal R) : Gate (Ang R) R → Option (Mat R)
  | .mf _ _ (some m) => some m
  | .mf name ps none => Gates.builtinMatrix k name ps
  | .controlled w c => (gateMatrix k w).map (ctrlMatrix c)
  | .dagger w => (gateMatrix k w).map (fun m => Mat.ofFn m.c m.r (fun i j => k.cj (m.get j i)))

/-- the operations of a circuit as `(matrix, qubits)` pairs; `none` if some operation is not a gate operation
    (`to_unitary` raises `ValueError`) or its gate has no matrix -/
def liftOps (k : Scal R) (ops : List (Operation (Ang R) R)) : Option (List (Lift.Op R)) :=
  ops.mapM (fun o =>
    match o with
    | .other _ _ => none
    | .gate g qs => (gateMatrix k g).map (fun m => (⟨m, qs⟩ : Lift.Op R)))

/-- `Circuit.to_unitary()` -/
def circuitUnitary (k : Scal R) (c : Circuit (Ang R) R) : Option (Mat R) :=
  match liftOps k c.ops with
  | none => none
  | some l => Lift.toUnitary c.n l

end Sem

end OQ.C18
