/-
  C09 — operator ↔ matrix conversions (Mathlib-free executable model).
  Mirrors  operators/_openfermion_utils/sparse_tools.py   (get_sparse_operator, expectation),
           operators/_openfermion_utils/operator_utils.py (hermitian_conjugated, is_hermitian),
           operators/_utils.py  (get_pauliop_from_matrix, get_pauliop_from_coeffs_and_labels,
                                 reverse_qubit_order, get_expectation_value),
           the parts of operators/_pauli_operators.py these go through
             (PauliSum.__add__ → simplify, PauliTerm.__eq__/__hash__, PauliSum.__eq__),
           utils.dec2bin / bin2dec.
  Generic over the scalar type (operation classes only + the explicit `Scal R`); the driver runs it
  at `Cyc8`.  A `PauliTerm` input is the one-term sum `[t]` (`term.terms == [term]`) except where the
  code branches on the type (`hermitianConjugatedTerm`, `isHermitianTerm`).
-/
import OQ.Model.Pauli
namespace OQ.C09
open OQ OQ.Pauli

variable {R : Type} [Zero R] [One R] [Add R] [Mul R] [Neg R]

/-! ### numeric tolerances of the library as abstract predicates -/

/-- The three float comparisons the code performs on coefficients.  The driver instantiates them
    exactly (`x = 0`, `a = b`, `a = b`); the theorems say which laws they need. -/
structure Tol (R : Type) where
  /-- `np.isclose(x, 0.0)` (simplify) -/
  negl : R → Bool
  /-- `np.allclose(a, b)` (`PauliTerm.__eq__`) -/
  close : R → R → Bool
  /-- equal `round(re·10⁶), round(im·10⁶)` (`PauliTerm.__hash__`) -/
  hashEq : R → R → Bool

def Tol.exact [DecidableEq R] : Tol R := ⟨fun x => decide (x = 0), fun a b => decide (a = b), fun a b => decide (a = b)⟩

/-! ### get_sparse_operator -/

/-- `sorted(qubit_term.operations)`: tuples `(index, letter)`; indices are distinct dict keys, so the
    order is the order of the indices. -/
def sortedOps (ops : List (Nat × P)) : List (Nat × P) := ops.mergeSort (fun a b => decide (a.1 ≤ b.1))

/-- one pass of the loop `for qubit_num, operator_str in sorted(...)`: state = (sparse_operators, tensor_factor) -/
def opsStep (k : Scal R) (st : List (Mat R) × Nat) (qp : Nat × P) : List (Mat R) × Nat :=
  let l := if qp.1 > st.2 then st.1 ++ [Mat.identity (2 ^ (qp.1 - st.2))] else st.1
  (l ++ [pauliMat k (some qp.2)], qp.1 + 1)

/-- the list `sparse_operators` of one term: `[coefficient, identity blocks and Pauli matrices …]` -/
def sparseOperators (k : Scal R) (n : Nat) (t : Term R) : List (Mat R) :=
  let st := (sortedOps t.ops).foldl (opsStep k) ([Mat.ofFn 1 1 (fun _ _ => t.coeff)], 0)
  if st.2 < n ∨ t.ops.isEmpty then st.1 ++ [Mat.identity (2 ^ (n - st.2))] else st.1

/-- `_kronecker_operators` = `reduce(scipy.sparse.kron, ops)`; a scalar first element acts as a 1×1
    matrix.  (`reduce` of the empty list raises; the list always starts with the coefficient.) -/
def kroneckerOperators : List (Mat R) → Mat R
  | [] => Mat.identity 1
  | a :: l => l.foldl Mat.kron a

variable [DecidableEq R]

/-- `sparse_matrix.tocoo(copy=False).data` of a CSC matrix: the stored (non-zero) values, column by column -/
def colMajorData (M : Mat R) : List R :=
  (List.range M.c).flatMap (fun j => (List.range M.r).filterMap (fun i =>
    if M.get i j = 0 then none else some (M.get i j)))

/-- `sparse_matrix.nonzero()` of a compressed matrix: positions of the non-zero entries as
    `(row, col)`, sorted in C (row-major) order -/
def rowMajorNonzero (M : Mat R) : List (Nat × Nat) :=
  (List.range M.r).flatMap (fun i => (List.range M.c).filterMap (fun j =>
    if M.get i j = 0 then none else some (i, j)))

structure Triplet (R : Type) where
  row : Nat
  col : Nat
  val : R
deriving Repr

/-- the triplets one term contributes.  The code writes `(column, row) = sparse_matrix.nonzero()`,
    i.e. `column` holds the ROW indices (row-major order) and `row` the COLUMN indices, and pairs them
    position by position with the column-major `data`. -/
def termTriplets (k : Scal R) (n : Nat) (t : Term R) : List (Triplet R) :=
  let M := kroneckerOperators (sparseOperators k n t)
  List.zipWith (fun v (p : Nat × Nat) => ⟨p.2, p.1, v⟩) (colMajorData M) (rowMajorNonzero M)

/-- `coo_matrix((values, (rows, cols)), shape=(d, d))` densified: duplicates are summed -/
def cooToDense (d : Nat) (ts : List (Triplet R)) : Mat R :=
  Mat.ofFn d d (fun i j => ts.foldl (fun acc t => if t.row = i ∧ t.col = j then acc + t.val else acc) 0)

/-- `get_sparse_operator(operator, n_qubits)`, densified (`.toarray()`); `none` = `ValueError`
    ("Invalid number of qubits specified."). -/
def getSparseOperator (k : Scal R) (s : PSum R) (n : Nat) : Option (Mat R) :=
  if n < s.nQubits then none
  else
    let ts := s.flatMap (termTriplets k n)
    if s.isEmpty then some (Mat.ofFn (2 ^ n) (2 ^ n) (fun _ _ => 0))   -- `if not values_list`
    else some (cooToDense (2 ^ n) ts)

/-- `n_qubits=None`: the operator's own width -/
def getSparseOperatorDefault (k : Scal R) (s : PSum R) : Option (Mat R) := getSparseOperator k s s.nQubits

/-! ### PauliSum.simplify / `+=` -/

/-- `term.operations` are frozensets: equal when they contain the same pairs -/
def sameOps (a b : List (Nat × P)) : Bool :=
  a.length == b.length && a.all (fun x => b.contains x)

/-- `like_terms[key].append(term)` on the OrderedDict of groups (first-occurrence order) -/
def groupInsert : List (List (Term R)) → Term R → List (List (Term R))
  | [], t => [[t]]
  | [] :: gs, t => [] :: groupInsert gs t
  | (h :: g) :: gs, t => if sameOps h.ops t.ops then (h :: g ++ [t]) :: gs else (h :: g) :: groupInsert gs t

def sumCoeffs (g : List (Term R)) : R := g.foldl (fun acc u => acc + u.coeff) 0

/-- what one group of like terms contributes to the simplified sum -/
def groupResult (tol : Tol R) : List (Term R) → Option (Term R)
  | [] => none
  | [t] => if tol.negl t.coeff then none else some t
  | t :: rest => let c := sumCoeffs (t :: rest); if tol.negl c then none else some ⟨t.ops, c⟩

/-- `PauliSum.simplify` -/
def simplify (tol : Tol R) (s : PSum R) : PSum R :=
  (s.foldl groupInsert []).filterMap (groupResult tol)

/-- `acc += term`  (`PauliSum.__add__` with a `PauliTerm`: copy all terms, then simplify) -/
def addTerm (tol : Tol R) (acc : PSum R) (t : Term R) : PSum R := simplify tol (acc ++ [t])

/-! ### hermitian_conjugated / is_hermitian -/

/-- `hermitian_conjugated(PauliTerm)` -/
def hermitianConjugatedTerm (k : Scal R) (t : Term R) : Term R := ⟨t.ops, k.cj t.coeff⟩

/-- `hermitian_conjugated(PauliSum)`: starts from `PauliSum()` and `+=`s every conjugated term -/
def hermitianConjugated (k : Scal R) (tol : Tol R) (s : PSum R) : PSum R :=
  s.foldl (fun acc t => addTerm tol acc (hermitianConjugatedTerm k t)) []

/-- `PauliTerm.__eq__(a, b)` -/
def termEq (tol : Tol R) (a b : Term R) : Bool :=
  tol.close a.coeff b.coeff && (tol.close a.coeff 0 || sameOps a.ops b.ops)

/-- equal `hash()`: same rounded coefficient and same `operations` -/
def termHashEq (tol : Tol R) (a b : Term R) : Bool := tol.hashEq a.coeff b.coeff && sameOps a.ops b.ops

/-- `x in S` for a Python set of terms: same hash, then `stored == x` -/
def setMem (tol : Tol R) (x : Term R) (S : List (Term R)) : Bool :=
  S.any (fun y => termHashEq tol y x && termEq tol y x)

/-- `set(terms)` -/
def toSet (tol : Tol R) (l : List (Term R)) : List (Term R) :=
  l.foldl (fun S x => if setMem tol x S then S else S ++ [x]) []

/-- `PauliSum.__eq__(a, b)` for two sums -/
def sumEq (tol : Tol R) (a b : PSum R) : Bool :=
  if a.length != b.length then false
  else
    let A := toSet tol a
    let B := toSet tol b
    A.length == B.length && A.all (fun x => setMem tol x B)

/-- `is_hermitian(PauliSum)` -/
def isHermitian (k : Scal R) (tol : Tol R) (s : PSum R) : Bool := sumEq tol s (hermitianConjugated k tol s)

/-- `is_hermitian(PauliTerm)` -/
def isHermitianTerm (k : Scal R) (tol : Tol R) (t : Term R) : Bool := termEq tol t (hermitianConjugatedTerm k t)

/-! ### dec2bin / bin2dec / get_pauliop_from_matrix -/

/-- `len(bin(x)) - 2`: number of binary digits (`bin(0) = '0b0'` has one) -/
def bitLength (x : Nat) : Nat := if x = 0 then 1 else Nat.log2 x + 1

/-- `dec2bin(number, length)`: the binary digits of `number`, most significant first, left-padded with
    zeros to `length` (never truncated; in particular `dec2bin(0, 0) = [0]`).  The `sys.exit` branch
    (`2**length < number`) is unreachable from every call site (`j < 2^n`, `i < 4^n`). -/
def dec2bin (number length : Nat) : List Nat :=
  let L := max length (bitLength number)
  (List.range L).map (fun p => number / 2 ^ (L - 1 - p) % 2)

/-- `bin2dec(x)`: element 0 is the most significant digit -/
def bin2dec (x : List Nat) : Nat := x.foldl (fun acc b => 2 * acc + b) 0

/-- `decode(bit_string)`: label `i` = the two bits `2i, 2i+1` read as a number 0..3 (I, X, Y, Z) -/
def decode (n : Nat) (bits : List Nat) : List Nat :=
  (List.range n).map (fun i => bin2dec [bits.getD (2 * i) 0, bits.getD (2 * i + 1) 0])

/-- `f(j)`: row of the non-zero element of the Pauli string in column `j` (flip the X/Y bits) -/
def fIdx (n : Nat) (label : List Nat) (j : Nat) : Nat :=
  bin2dec ((List.range n).map (fun idx =>
    let b := (dec2bin j n).getD idx 0
    if label.getD idx 0 = 1 ∨ label.getD idx 0 = 2 then (if b = 0 then 1 else 0) else b))

/-- `nz(j)`: value of that non-zero element -/
def nz (k : Scal R) (n : Nat) (label : List Nat) (j : Nat) : R :=
  (List.range n).foldl (fun v idx =>
    let l := label.getD idx 0
    let b := (dec2bin j n).getD idx 0
    if l = 2 then (if b = 0 then v * k.i else if b = 1 then v * -k.i else v)
    else if l = 3 then (if b = 1 then v * -1 else v)
    else v) 1

def halfPow (k : Scal R) : Nat → R
  | 0 => 1
  | n + 1 => halfPow k n * k.half

/-- `trace_product(label_vec)` = `(Σ_j operator[j][f(j)] · nz(j)) / 2**n` -/
def traceProduct (k : Scal R) (n : Nat) (A : Mat R) (label : List Nat) : R :=
  sumTo (2 ^ n) (fun j => A.get j (fIdx n label j) * nz k n label j) * halfPow k n

/-- the letter of a label entry (`get_pauliop_from_coeffs_and_labels`) -/
def letterOf : Nat → Option P
  | 1 => some .X | 2 => some .Y | 3 => some .Z | _ => none

/-- `PauliTerm(f"{coeff}*X0*Z2…")` -/
def labelTerm (label : List Nat) (c : R) : Term R :=
  ⟨(label.zipIdx).filterMap (fun (e, ind) => (letterOf e).map (fun p => (ind, p))), c⟩

inductive FromMatrixError | empty | notSquare | notPow2 | decodeLength
deriving Repr, DecidableEq

/-- `get_pauliop_from_matrix(operator)` -/
def getPauliopFromMatrix (k : Scal R) (tol : Tol R) (A : Mat R) : Except FromMatrixError (PSum R) :=
  if A.r = 0 then .error .empty                       -- `operator[0]` of an empty list
  else if A.r ≠ A.c then .error .notSquare
  else if ¬ (2 ^ Nat.log2 A.r = A.r) then .error .notPow2   -- `(nrows & (nrows-1)) == 0 and nrows > 0`
  else
    let n := Nat.log2 A.r
    -- `decode` raises `Exception("… input bit string length not 2n")` when `len(dec2bin(i, 2n)) ≠ 2n`
    if (List.range (4 ^ n)).any (fun i => (dec2bin i (2 * n)).length != 2 * n) then .error .decodeLength
    else
    .ok ((List.range (4 ^ n)).foldl (fun acc i =>
      let label := decode n (dec2bin i (2 * n))
      addTerm tol acc (labelTerm label (traceProduct k n A label))) [])

/-! ### reverse_qubit_order / get_expectation_value -/

def reverseTerm (n : Nat) (t : Term R) : Term R := ⟨t.ops.map (fun qp => (n - 1 - qp.1, qp.2)), t.coeff⟩

/-- `reverse_qubit_order(op, n_qubits)`; `none` = `ValueError` -/
def reverseQubitOrder (tol : Tol R) (s : PSum R) (n : Nat) : Option (PSum R) :=
  if n < s.nQubits then none
  else some (s.foldl (fun acc t => addTerm tol acc (reverseTerm n t)) [])

/-- `expectation(operator, state)` for a state vector: `dot(conj(state), operator * state)` -/
def expectation (k : Scal R) (M : Mat R) (ψ : List R) : R :=
  sumTo ψ.length (fun i => k.cj (ψ.getD i 0) * sumTo ψ.length (fun j => M.get i j * ψ.getD j 0))

/-- `get_expectation_value(qubit_op, wavefunction, reverse_operator)`; the wavefunction has
    `2^n` amplitudes, `n = len.bit_length() - 1`. -/
def getExpectationValue (k : Scal R) (tol : Tol R) (s : PSum R) (ψ : List R) (rev : Bool) : Option R :=
  let n := Nat.log2 ψ.length
  match (if rev then reverseQubitOrder tol s n else some s) with
  | none => none
  | some s' =>
    match getSparseOperator k s' n with
    | none => none
    | some M => some (expectation k M ψ)

end OQ.C09
