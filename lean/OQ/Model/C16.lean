/-
  C16 — time-evolution circuits (Mathlib-free executable model).
  Mirrors  src/orquestra/quantum/evolution.py :
     time_evolution_for_term, time_evolution, time_evolution_derivatives, _generate_circuit_sequence
  and the pieces of Circuit / Gate they rely on (`Circuit.__add__`, `Circuit.inverse`, `Gate.dagger`).

  Numbers.  The code does arithmetic on two kinds of real numbers:
    * coefficients (`term.coefficient.real`, `n_steps`, the factors) – a field `Q`
      (executed at `Rat`, reasoned about over any field, in particular ℝ);
    * times / gate angles (`time`, `time / n_steps`, `np.pi / (4 r)`, `2 * time * c`) – a `Q`-module `T`
      containing π, whose operations are passed EXPLICITLY (`TimeAlg`), executed at `T = Rat × Rat`
      (the formal combinations a·τ + b·π of an unknown real τ and π) and reasoned about over any module
      (in particular ℝ itself).
  A gate angle becomes a matrix entry only through an interpretation `ang : T → Ang R` (the half-angle point
  (cos θ/2, sin θ/2)), which is a parameter: the trigonometric functions are external to the code.
-/
import OQ.Exec.Scal
import OQ.Model.Gates
import OQ.Model.Lift
import OQ.Model.Pauli
namespace OQ.C16
open OQ.Pauli

/-- the exceptions of the anchored code -/
inductive Err
  | value     -- ValueError
  | zerodiv   -- ZeroDivisionError
deriving DecidableEq, Repr, Inhabited

/-- the operations performed on times / angles -/
structure TimeAlg (Q T : Type) where
  add : T → T → T
  /-- `q * t` (also used for `t / n = (1/n) * t`) -/
  smul : Q → T → T
  /-- `np.pi` -/
  pi : T

/-- the gates the evolution circuits are made of; `RXdg`/`RZdg` are `Dagger(RX(θ))`/`Dagger(RZ(θ))` -/
inductive GateK (T : Type)
  | H | CNOT
  | RX (θ : T) | RZ (θ : T)
  | RXdg (θ : T) | RZdg (θ : T)
deriving Repr, Inhabited, DecidableEq

structure GOp (T : Type) where
  g : GateK T
  qs : List Nat
deriving Repr, Inhabited, DecidableEq

/-- `Circuit.operations` -/
abbrev Circ (T : Type) := List (GOp T)

/-- `gate.dagger`: `self if self.is_hermitian else Dagger(self)`; `Dagger(g).dagger = g`.
    `H` and `CNOT` are flagged hermitian in `_builtin_gates.py`, `RX`/`RZ` are not. -/
def GateK.dagger {T : Type} : GateK T → GateK T
  | .H => .H | .CNOT => .CNOT
  | .RX θ => .RXdg θ | .RZ θ => .RZdg θ
  | .RXdg θ => .RX θ | .RZdg θ => .RZ θ

/-- `Circuit.inverse()`: daggered gates in reversed order -/
def inverse {T : Type} (c : Circ T) : Circ T := c.reverse.map (fun o => ⟨o.g.dagger, o.qs⟩)

section model
variable {Q T : Type} [One Q] [Mul Q] [Div Q] [Neg Q] [NatCast Q] [DecidableEq Q]

/-- the `basis_change` circuit: `H` for X, `RX(np.pi / 2)` for Y, nothing for Z, in the order of `qs` -/
def basisChange (alg : TimeAlg Q T) (t : Term (Q × Q)) : List Nat → Circ T
  | [] => []
  | q :: rest =>
    match t.opAt q with
    | some .X => ⟨.H, [q]⟩ :: basisChange alg t rest
    | some .Y => ⟨.RX (alg.smul (1 / ((2 : Nat) : Q)) alg.pi), [q]⟩ :: basisChange alg t rest
    | _ => basisChange alg t rest

/-- the `cnot_gates` circuit: `CNOT(q_i, q_{i+1})` for every index but the last -/
def ladder {T : Type} : List Nat → Circ T
  | q :: q' :: rest => ⟨.CNOT, [q, q']⟩ :: ladder (q' :: rest)
  | _ => []

/-- insertion into an ascending list -/
def insertNat (a : Nat) : List Nat → List Nat
  | [] => [a]
  | b :: l => if a ≤ b then a :: b :: l else b :: insertNat a l

/-- ascending sort (structural recursion, so that the kernel can evaluate it) -/
def sortNat : List Nat → List Nat
  | [] => []
  | a :: l => insertNat a (sortNat l)

/-- `sorted(term.qubits)` -/
def sortedQubits {C : Type} (t : Term C) : List Nat := sortNat (t.ops.map (·.1))

/-- `time_evolution_for_term(term, time)`.  `negl x` is `abs(x) <= 1e-9`.
    The coefficient is the pair (real part, imaginary part). -/
def evolutionForTerm (alg : TimeAlg Q T) (negl : Q → Bool) (t : Term (Q × Q)) (time : T) :
    Except Err (Circ T) :=
  let qs := sortedQubits t
  -- `if term.is_constant: return circuit`
  if t.ops.isEmpty then .ok []
  -- `if abs(term.coefficient.imag) > 1e-9: raise ValueError`
  else if !(negl t.coeff.2) then .error .value
  else
    match qs.getLast? with
    | none => .ok []      -- unreachable: the term is not constant
    | some last =>
      let basis := basisChange alg t qs
      let cnots : Circ T := ladder qs
      -- `RZ(2 * time * term.coefficient.real)(qubit_id)` at the last index
      let central : GOp T := ⟨.RZ (alg.smul t.coeff.1 (alg.smul ((2 : Nat) : Q) time)), [last]⟩
      let allZ := cnots ++ [central] ++ inverse cnots
      .ok (basis ++ allZ ++ inverse basis)

/-- one Trotter step: the per-term circuits for the same time, in the order the terms are listed -/
def stepCircuit (alg : TimeAlg Q T) (negl : Q → Bool) (time : T) : PSum (Q × Q) → Except Err (Circ T)
  | [] => .ok []
  | t :: ts => do
    let c ← evolutionForTerm alg negl t time
    let rest ← stepCircuit alg negl time ts
    pure (c ++ rest)

/-- `n` repetitions of one step (the outer `for _ in range(n_steps)`) -/
def repeatStep {T : Type} (step : Except Err (Circ T)) : Nat → Except Err (Circ T)
  | 0 => .ok []
  | n + 1 => do
    let c ← step
    let rest ← repeatStep step n
    pure (c ++ rest)

/-- `time_evolution(hamiltonian, time, "Trotter", n_steps)`; `time / n_steps` is `(1/n) * time`. -/
def timeEvolution (alg : TimeAlg Q T) (negl : Q → Bool) (h : PSum (Q × Q)) (time : T) (n : Nat) :
    Except Err (Circ T) :=
  repeatStep (stepCircuit alg negl (alg.smul (1 / (n : Q)) time) h) n

/-- `_generate_circuit_sequence(repeated, different, length, position)` -/
def generateCircuitSequence {T : Type} (repeated different : Circ T) (length position : Nat) :
    Except Err (Circ T) :=
  if position ≥ length then .error .value
  else .ok ((List.range length).flatMap (fun i => if i ≠ position then repeated else different))

/-- the inner `for j, term_2 in enumerate(terms)` of `time_evolution_derivatives`:
    term `i` is evolved for `tShift`, the others for `tPlain` (`j` counts from `j0`) -/
def shiftedStep (alg : TimeAlg Q T) (negl : Q → Bool) (i : Nat) (tShift tPlain : T) :
    Nat → PSum (Q × Q) → Except Err (Circ T)
  | _, [] => .ok []
  | j, t :: ts => do
    let c ← evolutionForTerm alg negl t (if i = j then tShift else tPlain)
    let rest ← shiftedStep alg negl i tShift tPlain (j + 1) ts
    pure (c ++ rest)

/-- one iteration of `for factor in factors` for term `i`: `none` when the iteration is skipped
    (`if r == 0: continue`), otherwise (output factor, circuit) -/
def singleDerivative (alg : TimeAlg Q T) (negl : Q → Bool) (h : PSum (Q × Q)) (time : T) (n : Nat)
    (i : Nat) (term1 : Term (Q × Q)) (factor : Q) : Except Err (Option (Q × Circ T)) :=
  -- `r = term_1.coefficient.real / n_steps`   (ZeroDivisionError for n_steps = 0)
  if n = 0 then .error .zerodiv
  else
    let r := term1.coeff.1 / (n : Q)
    -- `if r == 0: continue`
    if r = ((0 : Nat) : Q) then .ok none
    else
      -- `shift = factor * (np.pi / (4.0 * r))`
      let shift := alg.smul factor (alg.smul (1 / (((4 : Nat) : Q) * r)) alg.pi)
      do
        let c ← shiftedStep alg negl i (alg.smul (1 / (n : Q)) (alg.add time shift))
                  (alg.smul (1 / (n : Q)) time) 0 h
        pure (some (r * factor, c))

/-- the double loop `for i, term_1 … for factor in [1.0, -1.0]` over the terms from index `i` on -/
def singleTrotterDerivatives (alg : TimeAlg Q T) (negl : Q → Bool) (h : PSum (Q × Q)) (time : T) (n : Nat) :
    Nat → PSum (Q × Q) → Except Err (List (Q × Circ T))
  | _, [] => .ok []
  | i, t :: ts => do
    let p ← singleDerivative alg negl h time n i t 1
    let m ← singleDerivative alg negl h time n i t (-1)
    let rest ← singleTrotterDerivatives alg negl h time n (i + 1) ts
    pure (p.toList ++ (m.toList ++ rest))

/-- `for factor, different_circuit in zip(...)` at one position -/
def spliceAll {T : Type} (repeated : Circ T) (n position : Nat) :
    List (Q × Circ T) → Except Err (List (Q × Circ T))
  | [] => .ok []
  | (f, d) :: rest => do
    let c ← generateCircuitSequence repeated d n position
    let more ← spliceAll repeated n position rest
    pure ((f, c) :: more)

/-- `for position in range(n_steps)` -/
def splicePositions {T : Type} (repeated : Circ T) (n : Nat) (single : List (Q × Circ T)) :
    List Nat → Except Err (List (Q × Circ T))
  | [] => .ok []
  | p :: ps => do
    let a ← spliceAll repeated n p single
    let b ← splicePositions repeated n single ps
    pure (a ++ b)

/-- `time_evolution_derivatives(hamiltonian, time, "Trotter", n_steps)`: the list of (factor, circuit) pairs
    (the code returns the two projections as separate lists). -/
def derivatives (alg : TimeAlg Q T) (negl : Q → Bool) (h : PSum (Q × Q)) (time : T) (n : Nat) :
    Except Err (List (Q × Circ T)) := do
  let single ← singleTrotterDerivatives alg negl h time n 0 h
  if n > 1 then
    -- `time_evolution(hamiltonian, time / n_steps, method="Trotter", n_steps=1)`
    let repeated ← timeEvolution alg negl h (alg.smul (1 / (n : Q)) time) 1
    splicePositions repeated n single (List.range n)
  else pure single

end model

/-! ### matrices (executable semantics through `Lift.toUnitary`) -/
section sem
variable {R : Type} [Zero R] [One R] [Add R] [Mul R] [Neg R]

/-- `Dagger.matrix = wrapped.matrix.adjoint()` for a 2×2 matrix -/
def adjoint2 (k : Scal R) (m : Mat R) : Mat R := Mat.ofFn 2 2 (fun i j => k.cj (m.get j i))

/-- the matrix of a gate; `ang θ` is the half-angle point of the angle θ -/
def gateMatrix {T : Type} (k : Scal R) (ang : T → Ang R) : GateK T → Mat R
  | .H => Gates.h k
  | .CNOT => Gates.cnot
  | .RX θ => Gates.rx k (ang θ)
  | .RZ θ => Gates.rz k (ang θ)
  | .RXdg θ => adjoint2 k (Gates.rx k (ang θ))
  | .RZdg θ => adjoint2 k (Gates.rz k (ang θ))

def toOps {T : Type} (k : Scal R) (ang : T → Ang R) (c : Circ T) : List (Lift.Op R) :=
  c.map (fun o => ⟨gateMatrix k ang o.g, o.qs⟩)

/-- the unitary of a circuit on `n` qubits; the empty circuit is the identity
    (`Circuit.to_unitary` itself raises on an empty operation list – that is C01's F17, not used here) -/
def unitary {T : Type} (k : Scal R) (ang : T → Ang R) (n : Nat) (c : Circ T) : Option (Mat R) :=
  match c with
  | [] => some (Mat.identity (2 ^ n))
  | _ => Lift.toUnitary n (toOps k ang c)

/-- ψᴴ Uᴴ O U ψ for a column vector ψ -/
def expectation (k : Scal R) (o u psi : Mat R) : R :=
  let v := Mat.mul u psi
  let w := Mat.mul o v
  sumTo v.r (fun i => k.cj (v.get i 0) * w.get i 0)

end sem

/-! ### the executable instance: Q = ℚ, T = ℚ·τ + ℚ·π -/

def ratAlg : TimeAlg Rat (Rat × Rat) :=
  ⟨fun a b => (a.1 + b.1, a.2 + b.2), fun q a => (q * a.1, q * a.2), (0, 1)⟩

/-- `abs(x) <= 1e-9` -/
def ratNegl (x : Rat) : Bool := decide (-(1 / 1000000000 : Rat) ≤ x ∧ x ≤ (1 / 1000000000 : Rat))

/-- k-fold sum of a half-angle point (k ≥ 0) -/
def angNsmul {R : Type} [Zero R] [One R] [Add R] [Mul R] [Neg R] (a : Ang R) : Nat → Ang R
  | 0 => Ang.zero
  | n + 1 => Ang.add (angNsmul a n) a

def angZsmul {R : Type} [Zero R] [One R] [Add R] [Mul R] [Neg R] (a : Ang R) (z : Int) : Ang R :=
  if z < 0 then Ang.neg (angNsmul a z.natAbs) else angNsmul a z.natAbs

/-- half-angle point of the angle `a·τ + b·π`, given the half-angle point `base` of τ:
    needs `a ∈ ℤ` and `b ∈ ½ℤ` (half-angle a multiple of π/4), otherwise `none`. -/
def evalAng (base : Ang Cyc8) (θ : Rat × Rat) : Option (Ang Cyc8) :=
  let b2 := θ.2 * 2
  if θ.1.den = 1 ∧ b2.den = 1 then
    some (Ang.add (angZsmul base θ.1.num) (angZsmul ⟨Cyc8.rsqrt2, Cyc8.rsqrt2⟩ b2.num))
  else none

end OQ.C16
