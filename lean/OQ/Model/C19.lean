/-
  C19 — translating symbolic expressions (Mathlib-free executable model).
  Mirrors  src/orquestra/quantum/circuits/symbolic/sympy_expressions.py  (expression_from_sympy, SYMPY_DIALECT),
           .../symbolic/translations.py  (translate_expression / translate_tuple),
           .../symbolic/expressions.py   (Symbol, FunctionCall, ExpressionDialect, reduction),
           .../symbolic/_sorting.py      (natural_key, natural_key_revlex).
-/
namespace OQ.C19

/-- the Python exceptions the mechanism raises; `fuel` is a model artefact that is proved unreachable -/
inductive Err where
  | notimpl   -- NotImplementedError: single-dispatch fallback of `expression_from_sympy`
  | value     -- ValueError: function name unknown in the dialect
  | type      -- TypeError: a dialect callable applied to the wrong number of arguments
  | fuel
  deriving Repr, DecidableEq

/-- numbers of the neutral tree: Python `int`, `float` (exact rational value), `complex`;
    `ext` = a sympy `Number` object that is none of Integer/Rational/Float (`oo`, `-oo`, `nan`),
    which the `numbers.Number` overload passes through untouched. -/
inductive NNum where
  | int (n : Int)
  | flt (q : Rat)
  | cplx (re im : Rat)
  | ext (tag : String)
  deriving Repr, DecidableEq

/-- the library's neutral expression tree (`Symbol`, `FunctionCall`, numbers) -/
inductive NExpr where
  | num (n : NNum)
  | sym (name : String)
  | call (name : String) (args : List NExpr)
  deriving Repr, BEq

/-- sympy-shaped input: exactly what `type(e)` / `e.args` show to the dispatcher -/
inductive SExpr where
  | integer (n : Int)                       -- sympy.Integer
  | rational (q : Rat)                      -- sympy.Rational (non-integer)
  | float (q : Rat)                         -- sympy.Float, by its exact value
  | imag                                    -- sympy.I
  | numOther (tag : String)                 -- other sympy Number subclasses (oo, -oo, nan)
  | native (n : NNum)                       -- a Python number
  | symbol (name : String)                  -- sympy.Symbol (by `str`)
  | add (args : List SExpr)                 -- sympy.Add
  | mul (args : List SExpr)                 -- sympy.Mul
  | pow (b e : SExpr)                       -- sympy.Pow
  | func (undef : Bool) (name : String) (args : List SExpr)
      -- instance of sympy.Function, name = str(e.func); `undef` = it is an undefined function
      -- (AppliedUndef) – invisible to the dispatcher, recorded so that the grammar can tell
      -- the genuine cos from a user function that merely prints as "cos"
  | other (tag : String)                    -- anything else (pi, E, zoo, Matrix, Derivative, str, …)
  deriving Repr, BEq

mutual
def SExpr.size : SExpr → Nat
  | .add args => 1 + SExpr.sizeList args
  | .mul args => 1 + SExpr.sizeList args
  | .pow b e => 1 + b.size + e.size
  | .func _ _ args => 1 + SExpr.sizeList args
  | _ => 1
def SExpr.sizeList : List SExpr → Nat
  | [] => 0
  | a :: as => a.size + SExpr.sizeList as
end

/-- the rational value of a numeric leaf – what `sympy_expr == -1` / `== 0.5` looks at (sympy 1.9
    compares Integer / Rational / Float by value); every other node compares unequal to a number -/
def numValue : SExpr → Option Rat
  | .integer n => some (n : Rat)
  | .rational q => some q
  | .float q => some q
  | .native (.int n) => some (n : Rat)
  | .native (.flt q) => some q
  | _ => none

def isNegOne (e : SExpr) : Bool := numValue e == some (-1)
def isHalf (e : SExpr) : Bool := numValue e == some (1/2)

/-- `is_addition_of_negation`: `len(args) == 2 and isinstance(args[1], Mul) and args[1].args[0] == -1`;
    returns `(args[0], args[1])` when it holds -/
def addView : List SExpr → Option (SExpr × SExpr)
  | [a0, .mul (c :: rest)] => if isNegOne c then some (a0, .mul (c :: rest)) else none
  | _ => none

/-- `is_multiplication_by_reciprocal`: `len(args) == 2 and isinstance(args[1], Pow) and args[1].args[1] == -1`;
    returns `(args[0], args[1].args[0])` when it holds -/
def recipView : List SExpr → Option (SExpr × SExpr)
  | [a0, .pow b e] => if isNegOne e then some (a0, b) else none
  | _ => none

/-- `_negate_sympy_expr(expr) = expr * (-1)` on the only shape it is called with, a `Mul` whose first
    argument equals −1: sympy cancels the coefficient (an Integer −1 disappears, a Float −1.0 becomes
    1.0) and returns the remaining product (the sole remaining factor if there is one). -/
def negMul : SExpr → SExpr
  | .mul (.integer _ :: rest) =>
    match rest with
    | [] => .integer 1
    | [r] => r
    | _ => .mul rest
  | .mul (_ :: rest) => .mul (.float 1 :: rest)
  | e => .mul [.integer (-1), e]

/-- `tuple(f(x) for x in xs)` where `f` may raise: the first exception wins -/
def mapE {α β : Type} (f : α → Except Err β) : List α → Except Err (List β)
  | [] => .ok []
  | a :: as =>
    match f a with
    | .error e => .error e
    | .ok b =>
      match mapE f as with
      | .error e => .error e
      | .ok bs => .ok (b :: bs)

def call1 (name : String) : Except Err NExpr → Except Err NExpr
  | .ok a => .ok (.call name [a])
  | .error e => .error e

def call2 (name : String) : Except Err NExpr → Except Err NExpr → Except Err NExpr
  | .error e, _ => .error e
  | .ok _, .error e => .error e
  | .ok a, .ok b => .ok (.call name [a, b])

def callN (name : String) : Except Err (List NExpr) → Except Err NExpr
  | .ok l => .ok (.call name l)
  | .error e => .error e

/-- `expression_from_sympy`, with the sympy operation `· * (-1)` as a parameter.
    The fuel only serves the recursion through `neg`; `fromSympy_total` shows it never runs out. -/
def fromF (neg : SExpr → SExpr) : Nat → SExpr → Except Err NExpr
  | 0, _ => .error .fuel
  | fuel + 1, e =>
    match e with
    | .integer n => .ok (.num (.int n))            -- int(number)
    | .rational q => .ok (.num (.flt q))           -- float(number)
    | .float q => .ok (.num (.flt q))              -- float(number)
    | .imag => .ok (.num (.cplx 0 1))              -- 1j
    | .numOther t => .ok (.num (.ext t))           -- numbers.Number overload: identity
    | .native n => .ok (.num n)                    -- numbers.Number overload: identity
    | .symbol s => .ok (.sym s)                    -- Symbol(str(symbol))
    | .other _ => .error .notimpl
    | .add args =>
      match addView args with
      | some (a0, a1) => call2 "sub" (fromF neg fuel a0) (fromF neg fuel (neg a1))
      | none => callN "add" (mapE (fromF neg fuel) args)
    | .mul args =>
      match recipView args with
      | some (a0, b) => call2 "div" (fromF neg fuel a0) (fromF neg fuel b)
      | none => callN "mul" (mapE (fromF neg fuel) args)
    | .pow b e =>
      if isNegOne e then call2 "div" (.ok (.num (.int 1))) (fromF neg fuel b)
      else if isHalf e then call1 "sqrt" (fromF neg fuel b)
      else call2 "pow" (fromF neg fuel b) (fromF neg fuel e)
    | .func _ name args => callN name (mapE (fromF neg fuel) args)

/-- `expression_from_sympy` -/
def fromSympy (e : SExpr) : Except Err NExpr := fromF negMul (e.size + 1) e

/-! ### translations.py -/

/-- `ExpressionDialect` -/
structure Dialect (α : Type) where
  symbol : String → α
  number : NNum → α
  known : String → Option (List α → Except Err α)

mutual
/-- `translate_expression` (the three registered overloads) -/
def translate {α : Type} (D : Dialect α) : NExpr → Except Err α
  | .num n => .ok (D.number n)
  | .sym s => .ok (D.symbol s)
  | .call name args =>
    match D.known name with
    | none => .error .value                    -- "Function … is unknown in this dialect."
    | some f =>
      match translateTuple D args with
      | .error e => .error e
      | .ok vs => f vs
/-- `translate_tuple` -/
def translateTuple {α : Type} (D : Dialect α) : List NExpr → Except Err (List α)
  | [] => .ok []
  | a :: as =>
    match translate D a with
    | .error e => .error e
    | .ok v =>
      match translateTuple D as with
      | .error e => .error e
      | .ok vs => .ok (v :: vs)
end

/-! ### SYMPY_DIALECT, over an arbitrary carrier of the operations it names -/

/-- the operations the dialect table refers to (`operator.add`, …, `sympy.cos`, …), as a parameter -/
structure Ops (V : Type) where
  add : V → V → V
  mul : V → V → V
  sub : V → V → V
  div : V → V → V
  pow : V → V → V
  sqrt : V → V
  fn : String → V → V          -- sympy.cos / sin / exp / tan by name
  num : NNum → V
  sym : String → V

/-- `reduction(op)(*args) = functools.reduce(op, args)`; empty `args` is a TypeError -/
def reduceE {V : Type} (f : V → V → V) : List V → Except Err V
  | [] => .error .type
  | v :: vs => .ok (vs.foldl f v)

/-- a two-argument callable applied to `*args` -/
def binE {V : Type} (f : V → V → V) : List V → Except Err V
  | [a, b] => .ok (f a b)
  | _ => .error .type

/-- a one-argument callable applied to `*args` -/
def unE {V : Type} (f : V → V) : List V → Except Err V
  | [a] => .ok (f a)
  | _ => .error .type

/-- `SYMPY_DIALECT.known_functions` -/
def sympyKnown {V : Type} (o : Ops V) (name : String) : Option (List V → Except Err V) :=
  if name = "add" then some (reduceE o.add)
  else if name = "mul" then some (reduceE o.mul)
  else if name = "div" then some (binE o.div)
  else if name = "sub" then some (binE o.sub)
  else if name = "pow" then some (binE o.pow)
  else if name = "cos" then some (unE (o.fn "cos"))
  else if name = "sin" then some (unE (o.fn "sin"))
  else if name = "exp" then some (unE (o.fn "exp"))
  else if name = "sqrt" then some (unE o.sqrt)
  else if name = "tan" then some (unE (o.fn "tan"))
  else none

def knownNames : List String := ["add", "mul", "div", "sub", "pow", "cos", "sin", "exp", "sqrt", "tan"]

/-- `SYMPY_DIALECT` -/
def sympyDialect {V : Type} (o : Ops V) : Dialect V :=
  { symbol := o.sym, number := o.num, known := sympyKnown o }

/-- the whole round trip: `translate_expression(expression_from_sympy(e), SYMPY_DIALECT)` -/
def pipeline {V : Type} (o : Ops V) (e : SExpr) : Except Err V :=
  match fromSympy e with
  | .error err => .error err
  | .ok t => translate (sympyDialect o) t

/-! ### the supported grammar of the property's first sentence -/

def elemFns : List String := ["cos", "sin", "exp", "tan"]

mutual
/-- built from symbols, integers, floats, rationals, the imaginary unit, Python numbers, sums,
    products (which is how sympy stores differences and quotients), powers (roots) and the
    supported elementary functions -/
def supported : SExpr → Bool
  | .integer _ => true
  | .rational _ => true
  | .float _ => true
  | .imag => true
  | .numOther _ => false
  | .native (.ext _) => false
  | .native _ => true
  | .symbol _ => true
  | .add args => !args.isEmpty && supportedList args
  | .mul args => !args.isEmpty && supportedList args
  | .pow b e => supported b && supported e
  | .func false name [a] => elemFns.contains name && supported a
  | .func _ _ _ => false
  | .other _ => false
def supportedList : List SExpr → Bool
  | [] => true
  | a :: as => supported a && supportedList as
end

/-- function names that collide with the arithmetic keys of the dialect table -/
def collisionNames : List String := ["add", "mul", "div", "sub", "pow", "sqrt"]

mutual
/-- no application of a function whose printed name collides with a key of the dialect (any function
    printing as add/mul/div/sub/pow/sqrt, an undefined function printing as cos/sin/exp/tan),
    and no passed-through sympy number object (`oo`, `nan`) -/
def clean : SExpr → Bool
  | .numOther _ => false
  | .native (.ext _) => false
  | .add args => cleanList args
  | .mul args => cleanList args
  | .pow b e => clean b && clean e
  | .func undef name args =>
    !collisionNames.contains name && !(undef && elemFns.contains name) && cleanList args
  | _ => true
def cleanList : List SExpr → Bool
  | [] => true
  | a :: as => clean a && cleanList as
end

/-! ### _sorting.py -/

def isDig (c : Char) : Bool := '0'.toNat ≤ c.toNat && c.toNat ≤ '9'.toNat

/-- `re.split(r"(\d+)", s)`: alternating non-digit / digit groups, starting and ending with a
    (possibly empty) non-digit group.  `inDigits` = currently inside a digit group, `acc` = the
    current group reversed. -/
def splitGo : Bool → List Char → List Char → List (List Char)
  | false, acc, [] => [acc.reverse]
  | true, acc, [] => [acc.reverse, []]
  | false, acc, c :: cs =>
    if isDig c then acc.reverse :: splitGo true [c] cs else splitGo false (c :: acc) cs
  | true, acc, c :: cs =>
    if isDig c then splitGo true (c :: acc) cs else acc.reverse :: splitGo false [c] cs

def splitGroups (cs : List Char) : List (List Char) := splitGo false [] cs

/-- `int(text)` on a string of ASCII digits -/
def valDigits (cs : List Char) : Nat := cs.foldl (fun a c => 10 * a + (c.toNat - '0'.toNat)) 0

inductive KeyItem where
  | s (cs : List Char)
  | n (k : Nat)
  deriving Repr, DecidableEq

/-- `int(text) if text.isdigit() else text` -/
def convGroup (g : List Char) : KeyItem :=
  if !g.isEmpty && g.all isDig then .n (valDigits g) else .s g

/-- `natural_key(symbol)` on `symbol.name` -/
def naturalKey (name : List Char) : List KeyItem := (splitGroups name).map convGroup

/-- `natural_key_revlex(symbol)` -/
def naturalKeyRevlex (name : List Char) : List KeyItem := (naturalKey name).reverse

/-- Python `str < str`: lexicographic by code point -/
def cmpChars : List Char → List Char → Ordering
  | [], [] => .eq
  | [], _ :: _ => .lt
  | _ :: _, [] => .gt
  | a :: as, b :: bs =>
    if a.toNat < b.toNat then .lt else if b.toNat < a.toNat then .gt else cmpChars as bs

/-- comparing two key items that are not `==`; `none` = TypeError (`int` against `str`) -/
def cmpItem : KeyItem → KeyItem → Option Ordering
  | .s a, .s b => some (cmpChars a b)
  | .n a, .n b => some (compare a b)
  | _, _ => none

/-- Python list comparison: skip the common `==` prefix, then compare the first differing items -/
def cmpKey : List KeyItem → List KeyItem → Option Ordering
  | [], [] => some .eq
  | [], _ :: _ => some .lt
  | _ :: _, [] => some .gt
  | a :: as, b :: bs => if a = b then cmpKey as bs else cmpItem a b

/-- decimal numeral of a natural number (what `str(int)` prints), most significant digit first -/
def decimalAux : Nat → Nat → List Char → List Char
  | 0, _, acc => acc
  | fuel + 1, n, acc =>
    let acc' := Char.ofNat ('0'.toNat + n % 10) :: acc
    if n / 10 = 0 then acc' else decimalAux fuel (n / 10) acc'

def decimal (n : Nat) : List Char := decimalAux (n + 1) n []

end OQ.C19
