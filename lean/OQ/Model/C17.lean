/-
  C17 — MeasurementOutcomeDistribution: constructor (preprocess keys, validate, normalise),
  subdistribution (marginal), tuple keys <-> comma separated strings (save / load), and the
  discrete part of the distances (union of supports, integer codes, value vectors).
  Mathlib-free executable model.  Mirrors
     src/orquestra/quantum/distributions/_measurement_outcome_distribution.py
     src/orquestra/quantum/distributions/mmd.py                       (compute_mmd, up to `basis`)
     src/orquestra/quantum/distributions/clipped_negative_log_likelihood.py (up to the log)
  Python `dict` = insertion-ordered association list; Python `str` = `List Char`;
  Python `float` = exact `Rat`; the library's `math.isclose(norm, 1)` is the parameter `close`.
-/
namespace OQ.C17

/-- the exceptions the code raises -/
inductive Err where
  | runtime   -- RuntimeError
  | value     -- ValueError
  | index     -- IndexError
  deriving DecidableEq, Repr

/-- a Python dict with keys `κ` and float values, in insertion order -/
abbrev Dict (κ : Type) := List (κ × Rat)

/-- an outcome after preprocessing: a tuple of ints -/
abbrev Key := List Int

namespace Dict
variable {κ : Type} [DecidableEq κ]

def keys (d : Dict κ) : List κ := d.map (fun p => p.1)
def vals (d : Dict κ) : List Rat := d.map (fun p => p.2)

/-- `sum(d.values())` -/
def total (d : Dict κ) : Rat := d.vals.sum

/-- `d.get(k, 0)` -/
def getD : Dict κ → κ → Rat
  | [], _ => 0
  | (k', v) :: rest, k => if k' = k then v else getD rest k

/-- `d[k] = v` : overwrite in place, or append -/
def set : Dict κ → κ → Rat → Dict κ
  | [], k, v => [(k, v)]
  | (k', v') :: rest, k, v => if k' = k then (k', v) :: rest else (k', v') :: set rest k v

end Dict

/-! ### strings -/

/-- value of an ASCII decimal digit (what `int(c)` returns for a one-character string) -/
def digitVal (c : Char) : Option Nat :=
  if 48 ≤ c.toNat ∧ c.toNat ≤ 57 then some (c.toNat - 48) else none

def digitChar (d : Nat) : Char := Char.ofNat (48 + d)

def parseNatAux : Nat → List Char → Option Nat
  | acc, [] => some acc
  | acc, c :: cs =>
    match digitVal c with
    | some d => parseNatAux (10 * acc + d) cs
    | none => none

/-- non-empty ASCII digit string → number -/
def parseNat : List Char → Option Nat
  | [] => none
  | cs => parseNatAux 0 cs

/-- Python `int(s)` on `[+-]?[0-9]+`; every other string is a `ValueError` (`none`).
    (whitespace, underscores and non-ASCII digits are never produced by the code or generated) -/
def pyInt : List Char → Option Int
  | [] => none
  | c :: r =>
    if c = '-' then (parseNat r).map (fun (n : Nat) => -(Int.ofNat n))
    else if c = '+' then (parseNat r).map Int.ofNat
    else (parseNat (c :: r)).map Int.ofNat

def strNatFuel : Nat → Nat → List Char
  | 0, n => [digitChar n]
  | f + 1, n => if n < 10 then [digitChar n] else strNatFuel f (n / 10) ++ [digitChar (n % 10)]

/-- Python `str(n)` for a natural number -/
def strNat (n : Nat) : List Char := strNatFuel n n

/-- Python `str(i)` for an int -/
def strInt (i : Int) : List Char :=
  if i < 0 then '-' :: strNat i.natAbs else strNat i.toNat

/-- Python `s.split(sep)` for a one-character separator -/
def splitOn (sep : Char) : List Char → List (List Char)
  | [] => [[]]
  | c :: cs =>
    if c = sep then [] :: splitOn sep cs
    else match splitOn sep cs with
      | h :: t => (c :: h) :: t
      | [] => [[c]]

/-- Python `sep.join(parts)` -/
def joinWith (sep : Char) : List (List Char) → List Char
  | [] => []
  | [p] => p
  | p :: q :: rest => p ++ sep :: joinWith sep (q :: rest)

/-! ### constructor -/

/-- a dictionary key as the caller passes it -/
inductive RawKey where
  | str (s : List Char)
  | tup (t : List Int)
  | other                 -- neither `str` nor `tuple`
  deriving DecidableEq, Repr

/-- one key of `preprocess_distibution_dict`:
    `tuple(map(int, key if "," not in key else key.split(",")))` -/
def preprocessKey : RawKey → Except Err Key
  | .str s =>
    if ',' ∈ s then
      match (splitOn ',' s).mapM pyInt with
      | some k => .ok k
      | none => .error .value
    else
      match s.mapM (fun c => (digitVal c).map Int.ofNat) with
      | some k => .ok k
      | none => .error .value
  | .tup t => .ok t
  | .other => .error .runtime

/-- `preprocess_distibution_dict`: keys in order, the first bad key raises; equal keys overwrite -/
def preprocess : List (RawKey × Rat) → Dict Key → Except Err (Dict Key)
  | [], acc => .ok acc
  | (k, v) :: rest, acc =>
    match preprocessKey k with
    | .error e => .error e
    | .ok k' => preprocess rest (acc.set k' v)

/-- `is_measurement_outcome_distribution` -/
def isDistribution (d : Dict Key) : Bool :=
  match d with
  | [] => false
  | (k0, _) :: _ =>
    d.all (fun p => decide (0 ≤ p.2)) &&
    d.all (fun p => p.1.length == k0.length) &&
    d.all (fun p => p.1.all (fun e => decide (0 ≤ e)))

/-- `sys.float_info.min` = 2^-1022 -/
def floatMin : Rat := 1 / (2 : Rat) ^ 1022

/-- `normalize_measurement_outcome_distribution` -/
def normalizeDict (d : Dict Key) : Except Err (Dict Key) :=
  let norm := d.total
  if norm = 0 then .error .value
  else if 0 < norm ∧ norm < floatMin then .error .value
  else if norm = 1 then .ok d
  else .ok (d.map (fun p => (p.1, p.2 * (1 / norm))))

/-- what `__init__` does once the keys are preprocessed -/
def constructPre (close : Rat → Bool) (normalize : Bool) (pre : Dict Key) : Except Err (Dict Key) :=
  if isDistribution pre then
    if close pre.total then .ok pre
    else if normalize then normalizeDict pre
    else .ok pre                      -- warning only
  else .error .runtime

/-- `MeasurementOutcomeDistribution(input_dict, normalize)`; the result is `distribution_dict` -/
def construct (close : Rat → Bool) (normalize : Bool) (input : List (RawKey × Rat)) :
    Except Err (Dict Key) :=
  match preprocess input [] with
  | .error e => .error e
  | .ok pre => constructPre close normalize pre

/-- `math.isclose(norm, 1)` (rel_tol = 1e-9, abs_tol = 0) on exact values -/
def pyIsClose1 (q : Rat) : Bool :=
  let a := if q < 0 then -q else q
  let m := if a < 1 then 1 else a
  let diff := if q - 1 < 0 then 1 - q else q - 1
  decide (diff ≤ m / 1000000000)

/-! ### subdistribution -/

/-- Python tuple indexing `key[i]` (negative indices wrap once, otherwise `IndexError`) -/
def pyIndex (key : Key) (i : Int) : Option Int :=
  if 0 ≤ i then key[i.toNat]?
  else if 0 ≤ i + key.length then key[(i + key.length).toNat]?
  else none

/-- `tuple(key[i] for i in active_qubits)` (since b64c4ba; before, the entries were joined into
    one string and re-read digit by digit) -/
def projectKey (qs : List Int) (key : Key) : Option Key := qs.mapM (pyIndex key)

/-- the accumulation loop: `new[f key] = d[key] + new.get(f key, 0)` over the keys in order -/
def accumulate {κ κ' : Type} [DecidableEq κ'] (f : κ → Option κ') :
    Dict κ → Dict κ' → Option (Dict κ')
  | [], acc => some acc
  | (k, v) :: rest, acc =>
    match f k with
    | none => none
    | some k' => accumulate f rest (acc.set k' (v + acc.getD k'))

def listMaxInt : List Int → Int
  | [] => 0
  | x :: xs => xs.foldl max x

def hasDup : List Int → Bool
  | [] => false
  | x :: xs => xs.contains x || hasDup xs

/-- `self.subdistribution(active_qubits)`: returns the receiver after the call and the result.
    (The receiver is part of the result because earlier versions of the code popped from it.) -/
def subdistribution (close : Rat → Bool) (self : Dict Key) (qs : List Int) :
    Dict Key × Except Err (Dict Key) :=
  match qs, self with
  | [], _ => (self, .error .value)                 -- max() of an empty list
  | _, [] => (self, .error .index)                 -- list(keys())[0] of an empty dict
  | _, (k0, _) :: _ =>
    if listMaxInt qs + 1 > k0.length then (self, .error .value)
    else if hasDup qs then (self, .error .value)
    else
      match accumulate (projectKey qs) self [] with
      | none => (self, .error .index)
      | some newCounts =>
        let normalize := close self.total
        (self, construct close normalize (newCounts.map (fun p => (RawKey.tup p.1, p.2))))

/-! ### save / load -/

/-- `",".join(map(str, key))` -/
def keyToString (k : Key) : List Char := joinWith ',' (k.map strInt)

/-- `{f(k): v for k, v in d.items()}` -/
def dictComp {κ κ' : Type} [DecidableEq κ'] (f : κ → κ') (d : Dict κ) : Dict κ' :=
  d.foldl (fun acc p => acc.set (f p.1) p.2) []

/-- `change_tuple_dict_keys_to_comma_separated_integers` = what `save_…` writes as the JSON object -/
def saveDict (d : Dict Key) : Dict (List Char) := dictComp keyToString d

/-- `load_…`: the JSON object (string keys) goes through the constructor with normalisation on -/
def loadDict (close : Rat → Bool) (j : Dict (List Char)) : Except Err (Dict Key) :=
  construct close true (j.map (fun p => (RawKey.str p.1, p.2)))

/-! ### distances: the discrete part -/

/-- `set(target_keys).union(measured_keys)` in one fixed order (the set's order is arbitrary;
    the theorems show the distances do not depend on it) -/
def unionKeys (p q : Dict Key) : List Key :=
  p.keys ++ q.keys.filter (fun k => !p.keys.contains k)

def parseBinAux : Nat → List Char → Option Nat
  | acc, [] => some acc
  | acc, c :: cs =>
    if c = '0' then parseBinAux (2 * acc) cs
    else if c = '1' then parseBinAux (2 * acc + 1) cs
    else none

/-- `int("".join(map(str, item)), 2)`; `none` = `ValueError` (empty string or a digit ≥ 2) -/
def codeOf (k : Key) : Option Nat :=
  match (k.map strInt).flatten with
  | [] => none
  | cs => parseBinAux 0 cs

/-- per outcome of the union: (target value, measured value) – used by the clipped log-likelihood -/
def pairData (p q : Dict Key) : List (Rat × Rat) :=
  (unionKeys p q).map (fun k => (p.getD k, q.getD k))

/-- one row of the MMD computation for outcome `k`: (integer code, target value, measured value) -/
def mmdRow (p q : Dict Key) (k : Key) : Option (Nat × Rat × Rat) :=
  (codeOf k).map (fun c => (c, p.getD k, q.getD k))

/-- per outcome of the union: (integer code, target value, measured value) – used by the MMD;
    `ValueError` as soon as one outcome has no base-2 code -/
def mmdData (p q : Dict Key) : Except Err (List (Nat × Rat × Rat)) :=
  match (unionKeys p q).mapM (mmdRow p q) with
  | none => .error .value
  | some rows => .ok rows

end OQ.C17
