/-
  C06 — binding parameters commutes with evaluating the circuit (Mathlib-free executable model).
  Mirrors  src/orquestra/quantum/circuits/_operations.py   (sub_symbols, get_free_symbols)
           src/orquestra/quantum/circuits/_gates.py        (bind / replace_params / controlled / dagger /
                                                            power / exp on every gate kind, custom factory)
           src/orquestra/quantum/circuits/_wavefunction_operations.py (MultiPhaseOperation, ResetOperation)
           src/orquestra/quantum/circuits/_circuit.py      (Circuit.bind, Circuit.free_symbols, to_unitary)
  Parameters are expression trees (what sympy hands back after its automatic canonicalisation);
  numbers are exact rationals.  Matrices are abstract: a `Sem` interprets built-in factories,
  wrappers, lifting and product, so every theorem holds for every interpretation.
-/
namespace OQ.C06

/-! ### errors the real code raises -/

/-- `NotImplementedError`, `ValueError`, `TypeError` -/
inductive Err | notimpl | value | type
deriving DecidableEq, Repr, Inhabited

inductive Res (α : Type) | ok (a : α) | err (e : Err)
deriving DecidableEq, Repr

namespace Res
def bind {α β : Type} (r : Res α) (f : α → Res β) : Res β :=
  match r with | ok a => f a | err e => err e
def map {α β : Type} (f : α → β) (r : Res α) : Res β :=
  match r with | ok a => ok (f a) | err e => err e
def isOk {α : Type} : Res α → Bool | ok _ => true | err _ => false
end Res

/-- a list comprehension `[f(x) for x in xs]`: evaluated in order, the first exception propagates -/
def mapRes {α β : Type} (f : α → Res β) : List α → Res (List β)
  | [] => .ok []
  | a :: as =>
    match f a with
    | .err e => .err e
    | .ok b => match mapRes f as with
      | .err e => .err e
      | .ok bs => .ok (b :: bs)

/-! ### parameter expressions -/

/-- a sympy expression tree: `Add`/`Mul` (binary, left-nested), `Pow`, unary functions -/
inductive PExpr
  | num (q : Rat)
  | sym (s : String)
  | add (a b : PExpr)
  | mul (a b : PExpr)
  | pow (a b : PExpr)
  | fn (f : String) (a : PExpr)
deriving DecidableEq, Repr, Inhabited

/-- a gate parameter: a Python number (`numbers.Number`) or a `sympy.Expr` -/
inductive Param
  | number (q : Rat)
  | expr (e : PExpr)
deriving DecidableEq, Repr, Inhabited

/-- a symbols map (Python dict with `sympy.Symbol` keys); lookup is by first match -/
abbrev SymMap := List (String × Param)

def lookup : SymMap → String → Option Param
  | [], _ => none
  | (k, v) :: rest, s => if k = s then some v else lookup rest s

def keys (m : SymMap) : List String := m.map (fun kv => kv.1)

/-- `sympify` of a substituted value -/
def Param.toExpr : Param → PExpr
  | .number q => .num q
  | .expr e => e

/-- `expr.subs(symbols_map)` on maps whose values do not mention the map's keys
    (= simultaneous substitution; assumed law of sympy) -/
def subst (m : SymMap) : PExpr → PExpr
  | .num q => .num q
  | .sym s => match lookup m s with
    | some v => v.toExpr
    | none => .sym s
  | .add a b => .add (subst m a) (subst m b)
  | .mul a b => .mul (subst m a) (subst m b)
  | .pow a b => .pow (subst m a) (subst m b)
  | .fn f a => .fn f (subst m a)

/-- `sub_symbols` (singledispatch): numbers unchanged, a bare symbol is looked up in the dict
    (the raw value comes back), any other expression goes through `.subs` -/
def subSymbols (m : SymMap) : Param → Param
  | .number q => .number q
  | .expr (.sym s) => match lookup m s with
    | some v => v
    | none => .expr (.sym s)
  | .expr e => .expr (subst m e)

/-- `expr.free_symbols` (every occurrence, in tree order) -/
def PExpr.symbols : PExpr → List String
  | .num _ => []
  | .sym s => [s]
  | .add a b => a.symbols ++ b.symbols
  | .mul a b => a.symbols ++ b.symbols
  | .pow a b => a.symbols ++ b.symbols
  | .fn _ a => a.symbols

/-- only `sympy.Expr` parameters contribute symbols -/
def Param.symbols : Param → List String
  | .number _ => []
  | .expr e => e.symbols

/-- insertion into a strictly ascending list (set semantics) -/
def insertSym (s : String) : List String → List String
  | [] => [s]
  | t :: ts => if s < t then s :: t :: ts else if s = t then t :: ts else t :: insertSym s ts

/-- `sorted(set(...), key=str)` -/
def sortSyms (l : List String) : List String := l.foldr insertSym []

/-- `get_free_symbols(parameters)` -/
def getFreeSymbols (ps : List Param) : List String := sortSyms (ps.flatMap Param.symbols)

/-! ### evaluation (generic carrier: exact rationals in the driver, anything in the theorems) -/

structure Alg (V : Type) where
  ofRat : Rat → V
  add : V → V → V
  mul : V → V → V
  pow : V → V → V
  fn : String → V → V

def eval {V : Type} (A : Alg V) (ρ : String → V) : PExpr → V
  | .num q => A.ofRat q
  | .sym s => ρ s
  | .add a b => A.add (eval A ρ a) (eval A ρ b)
  | .mul a b => A.mul (eval A ρ a) (eval A ρ b)
  | .pow a b => A.pow (eval A ρ a) (eval A ρ b)
  | .fn f a => A.fn f (eval A ρ a)

def Param.eval {V : Type} (A : Alg V) (ρ : String → V) : Param → V
  | .number q => A.ofRat q
  | .expr e => OQ.C06.eval A ρ e

/-- the environment "first substitute `m`, then evaluate at `ρ`"  (ρ ∘ₛ m) -/
def comp {V : Type} (A : Alg V) (ρ : String → V) (m : SymMap) : String → V :=
  fun s => match lookup m s with
    | some v => v.eval A ρ
    | none => ρ s

/-- exact rational evaluation; `none` = not a rational (a function value, a fractional power, 1/0) -/
def ratPow (x y : Rat) : Option Rat :=
  if y.den = 1 then
    if 0 ≤ y.num then some (x ^ y.num.toNat)
    else if x = 0 then none else some ((1 / x) ^ (-y.num).toNat)
  else none

def ratAlg : Alg (Option Rat) where
  ofRat q := some q
  add a b := match a, b with | some x, some y => some (x + y) | _, _ => none
  mul a b := match a, b with | some x, some y => some (x * y) | _, _ => none
  pow a b := match a, b with | some x, some y => ratPow x y | _, _ => none
  fn _ _ := none

/-! ### gates -/

/-- what `matrix_factory` is: a built-in Python function (named), or a `CustomGateMatrixFactory`
    holding the definition's matrix of expressions and its `params_ordering` -/
inductive Factory
  | builtin (name : String)
  | custom (matrix : List (List PExpr)) (ordering : List String)
deriving DecidableEq, Repr, Inhabited

inductive Gate
  | mf (name : String) (fac : Factory) (params : List Param) (nq : Nat) (herm : Bool)
  | ctrl (g : Gate) (n : Nat)
  | dag (g : Gate)
  | exp (g : Gate)
  | pow (g : Gate) (e : Rat)
deriving DecidableEq, Repr, Inhabited

/-- `.params`: every wrapper forwards to the wrapped gate -/
def Gate.params : Gate → List Param
  | .mf _ _ ps _ _ => ps
  | .ctrl g _ => g.params
  | .dag g => g.params
  | .exp g => g.params
  | .pow g _ => g.params

/-- `.free_symbols = get_free_symbols(self.params)` on every gate class -/
def Gate.freeSymbols (g : Gate) : List String := getFreeSymbols g.params

/-- `Power(g, e)`: `__post_init__` raises ValueError on free symbols -/
def mkPow (g : Gate) (e : Rat) : Res Gate :=
  if g.freeSymbols.isEmpty then .ok (.pow g e) else .err .value

/-- `Exponential(g)`: `__post_init__` raises ValueError on free symbols -/
def mkExp (g : Gate) : Res Gate :=
  if g.freeSymbols.isEmpty then .ok (.exp g) else .err .value

/-- `.power(exponent)` -/
def Gate.power : Gate → Rat → Res Gate
  | .ctrl w k, e => (w.power e).map (fun w' => .ctrl w' k)
  | g, e => mkPow g e

/-- `.exp` -/
def Gate.expG (g : Gate) : Res Gate := mkExp g

/-- `.dagger` -/
def Gate.dagger : Gate → Res Gate
  | .mf nm fac ps nq herm => .ok (if herm then .mf nm fac ps nq herm else .dag (.mf nm fac ps nq herm))
  | .ctrl w k => w.dagger.map (fun w' => .ctrl w' k)
  | .dag w => .ok w
  | .exp w => w.dagger.bind Gate.expG
  | .pow w e => w.dagger.bind (fun w' => w'.power e)

/-- `.controlled(n)`  (the constructor guard `n ≥ 1` is never hit from bind / replace_params:
    the counts come from gates that already exist) -/
def Gate.controlled : Gate → Nat → Res Gate
  | .mf nm fac ps nq herm, n => .ok (.ctrl (.mf nm fac ps nq herm) n)
  | .ctrl w k, n => .ok (.ctrl w (k + n))
  | .dag w, n => (w.controlled n).bind Gate.dagger
  | .exp w, n => .ok (.ctrl (.exp w) n)
  | .pow w e, n => (w.controlled n).bind (fun w' => w'.power e)

/-- `.replace_params(new_params)` -/
def Gate.replaceParams : Gate → List Param → Res Gate
  | .mf nm fac _ nq herm, ps => .ok (.mf nm fac ps nq herm)
  | .ctrl w k, ps => (w.replaceParams ps).bind (fun w' => w'.controlled k)
  | .dag w, ps => (w.replaceParams ps).bind Gate.dagger
  | .exp w, ps => (w.replaceParams ps).bind Gate.expG
  | .pow w e, ps => (w.replaceParams ps).bind (fun w' => w'.power e)

/-- `.bind(symbols_map)`: the factory gate substitutes into its params, `ControlledGate` and `Dagger`
    bind the wrapped gate and re-wrap, `Power` and `Exponential` raise NotImplementedError -/
def Gate.bind (m : SymMap) : Gate → Res Gate
  | .mf nm fac ps nq herm => Gate.replaceParams (.mf nm fac ps nq herm) (ps.map (subSymbols m))
  | .ctrl w k => (w.bind m).bind (fun w' => w'.controlled k)
  | .dag w => (w.bind m).bind Gate.dagger
  | .exp _ => .err .notimpl
  | .pow _ _ => .err .notimpl

/-- no `Power` / `Exponential` anywhere in the wrapper chain -/
def Gate.isCD : Gate → Bool
  | .mf _ _ _ _ _ => true
  | .ctrl w _ => w.isCD
  | .dag w => w.isCD
  | .exp _ => false
  | .pow _ _ => false

/-! ### operations and circuits -/

inductive Op
  | gate (g : Gate) (qubits : List Nat)
  | multiPhase (ps : List Param)
  | reset (q : Nat)
deriving DecidableEq, Repr, Inhabited

def Op.params : Op → List Param
  | .gate g _ => g.params
  | .multiPhase ps => ps
  | .reset _ => []

def Op.freeSymbols (o : Op) : List String := getFreeSymbols o.params

def Op.qubits : Op → List Nat
  | .gate _ qs => qs
  | .multiPhase ps => List.range (Nat.log2 ps.length)
  | .reset q => [q]

/-- `op.bind(symbols_map)`.  `ResetOperation.bind` substitutes into its (empty) params and calls
    `replace_params`, which returns `ResetOperation(self.qubit_indices[0])` (fix ddf37fe). -/
def Op.bind (m : SymMap) : Op → Res Op
  | .gate g qs => (g.bind m).map (fun g' => .gate g' qs)
  | .multiPhase ps => .ok (.multiPhase (ps.map (subSymbols m)))
  | .reset q => .ok (.reset q)

def Op.replaceParams : Op → List Param → Res Op
  | .gate g qs, ps => (g.replaceParams ps).map (fun g' => .gate g' qs)
  | .multiPhase _, ps => .ok (.multiPhase ps)
  | .reset q, _ => .ok (.reset q)

structure Circuit where
  ops : List Op
  nQubits : Nat
deriving DecidableEq, Repr, Inhabited

/-- `_circuit_size_by_operations` -/
def sizeByOps (ops : List Op) : Nat :=
  match ops.flatMap Op.qubits with
  | [] => 0
  | q :: qs => qs.foldl max q + 1

/-- `Circuit(operations, n_qubits)`: a falsy `n_qubits` means "size by operations" -/
def mkCircuit (ops : List Op) (n : Nat) : Circuit :=
  if n ≠ 0 then ⟨ops, n⟩ else ⟨ops, sizeByOps ops⟩

/-- `Circuit.bind` -/
def Circuit.bind (m : SymMap) (c : Circuit) : Res Circuit :=
  (mapRes (Op.bind m) c.ops).map (fun ops => mkCircuit ops c.nQubits)

/-- inner loop of `Circuit.free_symbols`: append the symbols not seen so far -/
def addUnseen (acc : List String) (l : List String) : List String :=
  l.foldl (fun acc s => if s ∈ acc then acc else acc ++ [s]) acc

/-- `Circuit.free_symbols`: first-appearance order over the operations -/
def Circuit.freeSymbols (c : Circuit) : List String :=
  c.ops.foldl (fun acc op => addUnseen acc op.freeSymbols) []

/-! ### matrices (abstract semantics) -/

structure Sem (V M : Type) where
  alg : Alg V
  /-- `matrix_factory(*values)` of a built-in gate -/
  builtin : String → List V → M
  /-- a matrix from its evaluated entries -/
  ofEntries : List (List V) → M
  /-- `Matrix.diag(eye(2^N − 2^n), M)` with `n` control qubits -/
  ctrl : Nat → M → M
  /-- `M.adjoint()` -/
  dag : M → M
  /-- `M.exp()` -/
  exp : M → M
  /-- `M ** exponent` -/
  pow : M → Rat → M
  /-- `_lift_matrix_*(M, qubit_indices, n_qubits)` -/
  lift : M → List Nat → Nat → M
  /-- `@` -/
  mul : M → M → M

/-- `{symbol: arg for symbol, arg in zip(params_ordering, gate_params)}`; a later duplicate key wins,
    hence the reversal under first-match lookup -/
def customDict (ord : List String) (ps : List Param) : SymMap := (List.zip ord ps).reverse

/-- entries of `CustomGateMatrixFactory.__call__(*params)`: simultaneous positional substitution -/
def customEntries (mat : List (List PExpr)) (ord : List String) (ps : List Param) : List (List PExpr) :=
  mat.map (fun row => row.map (subst (customDict ord ps)))

/-- `MatrixFactoryGate.matrix = matrix_factory(*params)`, evaluated at `ρ` -/
def mfMatrix {V M : Type} (S : Sem V M) (ρ : String → V) : Factory → List Param → M
  | .builtin nm, ps => S.builtin nm (ps.map (Param.eval S.alg ρ))
  | .custom mat ord, ps => S.ofEntries ((customEntries mat ord ps).map (fun row => row.map (eval S.alg ρ)))

/-- `.matrix` of every gate kind, evaluated at `ρ` -/
def gateMatrix {V M : Type} (S : Sem V M) (ρ : String → V) : Gate → M
  | .mf _ fac ps _ _ => mfMatrix S ρ fac ps
  | .ctrl g n => S.ctrl n (gateMatrix S ρ g)
  | .dag g => S.dag (gateMatrix S ρ g)
  | .exp g => S.exp (gateMatrix S ρ g)
  | .pow g e => S.pow (gateMatrix S ρ g) e

/-- one step of `to_unitary`: a gate operation is lifted, anything else raises ValueError -/
def liftedOp {V M : Type} (S : Sem V M) (ρ : String → V) (n : Nat) : Op → Res M
  | .gate g qs => .ok (S.lift (gateMatrix S ρ g) qs n)
  | _ => .err .value

/-- `Circuit.to_unitary()` evaluated at `ρ`: `reduce(matmul, lifted matrices of reversed(ops))`;
    `reduce` of an empty list raises TypeError -/
def circuitMatrix {V M : Type} (S : Sem V M) (ρ : String → V) (c : Circuit) : Res M :=
  match mapRes (liftedOp S ρ c.nQubits) c.ops.reverse with
  | .err e => .err e
  | .ok [] => .err .type
  | .ok (x :: xs) => .ok (xs.foldl S.mul x)

end OQ.C06
