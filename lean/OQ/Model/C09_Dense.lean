/-
  C09 — the DENSE MEANING of the scipy.sparse / numpy externals of the translated `get_sparse_operator` / `get_expectation_value`
  (`OQ/Generated/TranslatedC09Ops.lean`, structure `ExtSp`): sparse matrices are `Mat R`, value arrays `List R`, index arrays
  `List Nat`, a wavefunction is its list of amplitudes.  Used by the tie theorems (Props/C09_TranslatedOps.lean) and by the driver glue
  that compares the translated definitions with the Python functions.  Mathlib-free.
-/
import OQ.Model.C09
import OQ.Generated.TranslatedC09Ops
namespace OQ.C09
open OQ OQ.Pauli OQ.Generated OQ.Generated.TranslatedOps

variable {R : Type} [Zero R] [One R] [Add R] [Mul R] [Neg R]

/-- an element of `sparse_operators` as a matrix: the coefficient acts as a 1×1 matrix in `scipy.sparse.kron` -/
def kopMat : KOp R (Mat R) → Mat R
  | .num c => Mat.ofFn 1 1 (fun _ _ => c)
  | .mat m => m

variable [DecidableEq R]

/-- `coo_matrix((values, (rows, cols)), shape=(d, d))`: triplets position by position -/
def cooTriplets (v : List R) (r c : List Nat) : List (Triplet R) :=
  List.zipWith (fun (x : R) (p : Nat × Nat) => (⟨p.1, p.2, x⟩ : Triplet R)) v (List.zip r c)

/-- the dense meaning of the externals -/
def denseSp (k : Scal R) : ExtSp R (Mat R) (List R) (List Nat) (List R) where
  sp_identity := fun n => Mat.identity n.toNat
  pauli_matrix_map := [(none, pauliMat k none), (some .X, pauliMat k (some .X)), (some .Y, pauliMat k (some .Y)),
                       (some .Z, pauliMat k (some .Z))]
  kron := fun a b => Mat.kron (kopMat a) (kopMat b)
  tocoo_data := fun m => colMajorData (kopMat m)
  nonzero := fun m => ((rowMajorNonzero (kopMat m)).map (·.1), (rowMajorNonzero (kopMat m)).map (·.2))
  concat_vals := List.flatten
  concat_idxs := List.flatten
  csc_zero := fun s => Mat.ofFn s.1.toNat s.2.toNat (fun _ _ => 0)
  coo_tocsc := fun v r c s => cooToDense s.1.toNat (cooTriplets v r c)
  eliminate_zeros := fun m => m
  expectation := fun M ψ => expectation k M ψ
  wf_amplitudes := fun ψ => ψ
  shape0 := fun ψ => (ψ.length : Int)

end OQ.C09
