/-
  C07 — gate modifiers (Mathlib-free executable model).
  Mirrors  src/orquestra/quantum/circuits/_gates.py :
    MatrixFactoryGate (l.170), ControlledGate (l.270), Dagger (l.335), Exponential (l.382), Power (l.434)
  and the hermitian flags / arities of  _builtin_gates.py.

  A gate object is the tree of wrapper classes the Python code builds.  The *methods*
  `.dagger`, `.controlled(n)`, `.power(e)`, `.exp`, `.replace_params(ps)` are the functions
  `Gate.daggerM`, `Gate.ctlI` (checked, any int) / `Gate.ctlP` (n ≥ 1), `Gate.powerM`, `Gate.expM`,
  `Gate.replaceParams`, written class by class exactly as the re-association rules of the code.

  External behaviour (sympy) enters through `Ext`: inverse, non-integer matrix power, matrix
  exponential, each of which may raise.
-/
import OQ.Exec.Scal
import OQ.Model.Gates
namespace OQ.C07

/-- the exceptions the modelled code can raise -/
inductive Err where
  /-- `ValueError` (invalid number of control qubits) -/
  | value
  /-- `TypeError` (matrix factory called with the wrong number of parameters) -/
  | type
  /-- sympy `NonInvertibleMatrixError` -/
  | noninv
  /-- an exception raised inside an external (sympy) routine, or an unresolved external -/
  | ext (what : String)
deriving Repr, DecidableEq, Inhabited

/-- `MatrixFactoryGate(name, matrix_factory, params, num_qubits, is_hermitian)`.
    `factory ps` is `matrix_factory(*ps)`. -/
structure Base (P R : Type) where
  name : String
  factory : List P → Except Err (Mat R)
  params : List P
  numQubits : Nat
  hermitian : Bool

/-- The wrapper classes.  `controlled g km1` is `ControlledGate(g, km1 + 1)`: the constructor's
    `__post_init__` rejects `num_control_qubits < 1`, so every existing object has a count ≥ 1 and the
    field is stored as *count − 1* (the check itself is modelled in `ctlI`). -/
inductive Gate (P R : Type) where
  | base (b : Base P R)
  | controlled (g : Gate P R) (km1 : Nat)
  | dagger (g : Gate P R)
  | power (g : Gate P R) (e : Rat)
  | exponential (g : Gate P R)

namespace Gate
variable {P R : Type}

/-- `.num_qubits` -/
def numQubits : Gate P R → Nat
  | base b => b.numQubits
  | controlled g km1 => g.numQubits + (km1 + 1)
  | dagger g => g.numQubits
  | power g _ => g.numQubits
  | exponential g => g.numQubits

/-- `.params` -/
def params : Gate P R → List P
  | base b => b.params
  | controlled g _ => g.params
  | dagger g => g.params
  | power g _ => g.params
  | exponential g => g.params

/-- `.power(exponent)`: `ControlledGate.power` pushes the power under the controls (l.317), every other
    class returns `Power(self, exponent)`. -/
def powerM : Gate P R → Rat → Gate P R
  | controlled g km1, e => controlled (powerM g e) km1
  | base b, e => power (base b) e
  | dagger g, e => power (dagger g) e
  | power g e', e => power (power g e') e
  | exponential g, e => power (exponential g) e

/-- `.exp`: every class returns `Exponential(self)`. -/
def expM (g : Gate P R) : Gate P R := exponential g

/-- `.dagger`:
    MatrixFactoryGate l.225 (`self if self.is_hermitian else Dagger(self)`), ControlledGate l.307,
    Dagger l.365 (`wrapped_gate`), Power l.467 (`wrapped.dagger.power(e)`), Exponential l.418 (`wrapped.dagger.exp`). -/
def daggerM : Gate P R → Gate P R
  | base b => if b.hermitian then base b else dagger (base b)
  | controlled g km1 => controlled g.daggerM km1
  | dagger g => g
  | power g e => g.daggerM.powerM e
  | exponential g => g.daggerM.expM

/-- `.controlled(m + 1)` (a valid number of controls):
    MatrixFactoryGate l.221, ControlledGate l.300 (counts add), Dagger l.355 (`wrapped.controlled(n).dagger`),
    Power l.463 (`wrapped.controlled(n).power(e)`), Exponential l.406. -/
def ctlP : Gate P R → Nat → Gate P R
  | base b, m => controlled (base b) m
  | controlled g km1, m => controlled g (km1 + m + 1)
  | dagger g, m => (ctlP g m).daggerM
  | power g e, m => (ctlP g m).powerM e
  | exponential g, m => controlled (exponential g) m

/-- `ControlledGate(g, n)` with the `__post_init__` check -/
def mkControlled (g : Gate P R) (n : Int) : Except Err (Gate P R) :=
  if n < 1 then .error .value else .ok (controlled g (n - 1).toNat)

/-- `.controlled(n)` for an arbitrary Python int `n`, with the `ValueError` of the constructor. -/
def ctlI : Gate P R → Int → Except Err (Gate P R)
  | base b, n => mkControlled (base b) n
  | controlled g km1, n => mkControlled g ((km1 : Int) + 1 + n)
  | dagger g, n => (ctlI g n).map daggerM
  | power g e, n => (ctlI g n).map (fun x => x.powerM e)
  | exponential g, n => mkControlled (exponential g) n

/-- `.replace_params(new_params)`:
    MatrixFactoryGate l.218 (`dataclasses.replace`), ControlledGate l.326, Dagger l.361, Exponential l.414,
    Power l.482.  (`.controlled(km1+1)` cannot raise here: the count is ≥ 1, see `ctlI_pos`.) -/
def replaceParams : Gate P R → List P → Gate P R
  | base b, ps => base { b with params := ps }
  | controlled g km1, ps => (replaceParams g ps).ctlP km1
  | dagger g, ps => (replaceParams g ps).daggerM
  | power g e, ps => (replaceParams g ps).powerM e
  | exponential g, ps => (replaceParams g ps).expM

end Gate

/-! ### matrices -/
section Matrices
variable {R : Type} [Zero R] [One R] [Add R] [Mul R]

/-- `sympy.Matrix.diag(sympy.eye(d0), M)` -/
def ctlMatrix (d0 : Nat) (M : Mat R) : Mat R :=
  Mat.ofFn (d0 + M.r) (d0 + M.c) (fun i j =>
    if i < d0 ∧ j < d0 then (if i = j then 1 else 0)
    else if d0 ≤ i ∧ d0 ≤ j then M.get (i - d0) (j - d0)
    else 0)

/-- `M.adjoint()` with an explicit conjugation -/
def adjointWith (cj : R → R) (M : Mat R) : Mat R := Mat.ofFn M.c M.r (fun i j => cj (M.get j i))

/-- repeated product `M · M · … · M` (`n` factors; the empty product is the identity) -/
def npow (M : Mat R) : Nat → Mat R
  | 0 => Mat.identity M.r
  | n + 1 => Mat.mul M (npow M n)

/-- what the code relies on sympy for -/
structure Ext (R : Type) where
  /-- `M.inv()` (raises `NonInvertibleMatrixError` on singular input) -/
  minv : Mat R → Except Err (Mat R)
  /-- `M ** e` for a non-integer exponent `e` -/
  mfrac : Mat R → Rat → Except Err (Mat R)
  /-- `M.exp()` -/
  mexp : Mat R → Except Err (Mat R)

/-- `M ** n` for an integer `n`: repeated product, of the inverse when `n < 0` -/
def ipow (x : Ext R) (M : Mat R) (n : Int) : Except Err (Mat R) :=
  if 0 ≤ n then .ok (npow M n.toNat)
  else (x.minv M).bind (fun Mi => .ok (npow Mi (-n).toNat))

/-- `M ** e` (`Power.matrix`, l.460) -/
def mpow (x : Ext R) (M : Mat R) (e : Rat) : Except Err (Mat R) :=
  if e.den = 1 then ipow x M e.num else x.mfrac M e

/-- `.matrix` of every class -/
def gateMatrix {P : Type} (cj : R → R) (x : Ext R) : Gate P R → Except Err (Mat R)
  | .base b => b.factory b.params
  | .controlled g km1 =>
    (gateMatrix cj x g).bind (fun M =>
      .ok (ctlMatrix (2 ^ (g.numQubits + (km1 + 1)) - 2 ^ g.numQubits) M))
  | .dagger g => (gateMatrix cj x g).bind (fun M => .ok (adjointWith cj M))
  | .power g e => (gateMatrix cj x g).bind (fun M => mpow x M e)
  | .exponential g => (gateMatrix cj x g).bind (fun M => x.mexp M)

end Matrices

/-! ### the base gates of the library -/

/-- parameters: an angle (half-angle point) for the built-ins, a scalar for custom gates -/
inductive Param (R : Type) where
  | ang (a : Ang R)
  | val (v : R)
deriving Repr

def Param.toAng {R : Type} [Zero R] [One R] : Param R → Ang R
  | .ang a => a
  | .val v => ⟨v, 0⟩

/-- `is_hermitian=True` in `_builtin_gates.py` -/
def hermitianNames : List String := ["X", "Y", "Z", "H", "I", "GPi", "CNOT", "CZ", "SWAP", "Delay"]

/-- `num_qubits` in `_builtin_gates.py` -/
def builtinNumQubits (name : String) : Nat :=
  if ["CNOT", "CZ", "SWAP", "ISWAP", "CPHASE", "XX", "YY", "ZZ", "XY", "MS"].contains name then 2 else 1

/-- a built-in gate `NAME(*angles)`; a wrong number of parameters makes `matrix_factory(*params)` raise `TypeError` -/
def Base.builtin {R : Type} [Zero R] [One R] [Add R] [Mul R] [Neg R]
    (k : Scal R) (name : String) (ps : List (Param R)) : Base (Param R) R :=
  { name := name
    factory := fun qs => match Gates.builtinMatrix k name (qs.map Param.toAng) with
      | some m => .ok m
      | none => .error .type
    params := ps
    numQubits := builtinNumQubits name
    hermitian := hermitianNames.contains name }

/-- entry of a custom gate's defining matrix: a constant or the `i`-th symbol of `params_ordering` -/
inductive CEntry (R : Type) where
  | const (c : R)
  | sym (i : Nat)
deriving Repr

/-- `math.floor(math.log2(d))` for a power of two -/
def log2Nat (d : Nat) : Nat := Nat.log2 d

/-- `CustomGateDefinition(name, matrix, params_ordering)(*params)`: the factory substitutes the actual
    parameters for the symbols (`zip` truncates; a symbol without an actual stays symbolic – modelled as `TypeError`
    because the numeric model has no symbols).  Never flagged hermitian. -/
def Base.custom {R : Type} [Zero R]
    (name : String) (rows : List (List (CEntry R))) (nsyms : Nat) (ps : List (Param R)) : Base (Param R) R :=
  { name := name
    factory := fun qs =>
      if qs.length < nsyms then .error .type else
      .ok (Mat.ofLists (rows.map (fun row => row.map (fun e => match e with
        | .const c => c
        | .sym i => match qs.getD i (.val 0) with
          | .val v => v
          | .ang a => a.ch))))
    params := ps
    numQubits := log2Nat rows.length
    hermitian := false }

end OQ.C07
