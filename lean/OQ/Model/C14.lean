/-
  C14 — runners validate requests, deliver enough shots and count their work (Mathlib-free
  executable model).  Mirrors
    src/orquestra/quantum/api/circuit_runner.py         BaseCircuitRunner
    src/orquestra/quantum/api/wavefunction_simulator.py BaseWavefunctionSimulator
    src/orquestra/quantum/runners/symbolic_simulator.py SymbolicSimulator
    src/orquestra/quantum/runners/trackers.py           MeasurementTrackingBackend
  What the code relies on but does not implement is a PARAMETER (`Ext`): the abstract
  `_run_and_measure` of a `BaseCircuitRunner` subclass and the indices drawn by `rng.choice`
  inside `sample_from_wavefunction`.
-/
namespace OQ.C14

/-- one measured bitstring: the tuple of bits of `Measurements.bitstrings` -/
abbrev Shot := List Nat

/-- What the runner code looks at in a `Circuit`. -/
structure Circ where
  /-- identity of the circuit (stands for `to_dict(circuit)` in the tracker's records) -/
  label : Nat
  /-- `circuit.n_qubits` -/
  width : Nat
  /-- one entry per element of `circuit.operations`: is it a `GateOperation`? -/
  ops : List Bool
  /-- `bool(circuit.free_symbols)` -/
  symbolic : Bool
deriving DecidableEq, Repr

/-- `ValueError` / `TypeError` -/
inductive Err | value | type
deriving DecidableEq, Repr

/-- value or raised exception -/
inductive Outcome (α : Type) where
  | ok (a : α)
  | err (e : Err)
deriving DecidableEq, Repr

/-- Externals.  The first argument is the number of earlier external invocations of this runner, so
    the values may depend on the history in any way (stateful or random runners included). -/
structure Ext where
  /-- the abstract `_run_and_measure(circuit, n_samples)` of a `BaseCircuitRunner` subclass -/
  exec : Nat → Circ → Int → Outcome (List Shot)
  /-- the basis-state indices `rng.choice(..., size=n_samples, p=…)` returns in `sample_from_wavefunction` -/
  draw : Nat → Circ → Int → List Nat

/-! ### `format(i, "0{n}b")` – where sampled bitstrings get their length -/

/-- digits of `format(i, "b")`, most significant first (`fuel ≥ log₂ i` suffices; callers pass `i`) -/
def binDigits : Nat → Nat → List Nat
  | 0, i => [i % 2]
  | f + 1, i => if i < 2 then [i] else binDigits f (i / 2) ++ [i % 2]

/-- `format(i, "0{n}b")`: zero-padded to `n` digits – never shorter than one digit. -/
def formatBin (i n : Nat) : List Nat :=
  let d := binDigits i i
  List.replicate (n - d.length) 0 ++ d

/-- the tuple a sample of basis state `i` of an `n`-qubit register becomes:
    `Wavefunction.get_outcome_probs` builds the key `format(i, "0{n}b")[::-1][:n]` (the slice only
    matters for `n = 0`, where `format` still prints one digit) and `bitstring_to_tuple` reverses
    it back. -/
def outcomeTuple (i n : Nat) : Shot := (((formatBin i n).reverse).take n).reverse

/-- `sample_from_wavefunction(wavefunction, n, seed)` given what `rng.choice` drew -/
def sampleShots (ext : Ext) (k : Nat) (c : Circ) (n : Int) : List Shot :=
  (ext.draw k c n).map (fun i => outcomeTuple i c.width)

/-! ### counters and the two kinds of base-class runners -/

structure Counters where
  nCircuits : Nat
  nJobs : Nat
deriving DecidableEq, Repr

inductive Kind
  /-- a direct subclass of `BaseCircuitRunner` implementing `_run_and_measure` -/
  | base
  /-- a `BaseWavefunctionSimulator`; `allNative = true` is `SymbolicSimulator`
      (`is_natively_supported` always `True`), `false` the default (`GateOperation`s only) -/
  | sim (allNative : Bool)
deriving DecidableEq, Repr

/-- state of a base-class runner: `_n_circuits_executed`, `_n_jobs_executed`, and the ghost count
    of external invocations made so far -/
structure Leaf where
  kind : Kind
  k : Counters
  calls : Nat
deriving DecidableEq, Repr

/-- `itertools.groupby(operations, predicate)`: the key of every maximal run -/
def segKeys : List Bool → List Bool
  | [] => []
  | [a] => [a]
  | a :: b :: rest => if a = b then segKeys (b :: rest) else a :: segKeys (b :: rest)

/-- the loop of `get_wavefunction`: `_n_jobs_executed += 1` per segment,
    `_n_circuits_executed += 1` per natively supported segment -/
def countSegments (k : Counters) : List Bool → Counters
  | [] => k
  | true :: rest => countSegments ⟨k.nCircuits + 1, k.nJobs + 1⟩ rest
  | false :: rest => countSegments ⟨k.nCircuits, k.nJobs + 1⟩ rest

/-- `is_natively_supported` on every operation -/
def nativeFlags (allNative : Bool) (c : Circ) : List Bool := c.ops.map (fun g => allNative || g)

/-- counters after `get_wavefunction(circuit)` -/
def getWavefunction (allNative : Bool) (k : Counters) (c : Circ) : Counters :=
  countSegments k (segKeys (nativeFlags allNative c))

/-- `run_and_measure(circuit, n_samples)` of the two base classes -/
def Leaf.run (ext : Ext) (l : Leaf) (c : Circ) (n : Int) : Leaf × Outcome (List Shot) :=
  if n ≤ 0 then (l, .err .value)                       -- both classes: `if n_samples <= 0: raise ValueError`
  else match l.kind with
    | .base =>                                          -- BaseCircuitRunner.run_and_measure
      match ext.exec l.calls c n with
      | .err e => ({ l with calls := l.calls + 1 }, .err e)
      | .ok m => ({ l with k := ⟨l.k.nCircuits + 1, l.k.nJobs + 1⟩, calls := l.calls + 1 }, .ok m)
    | .sim a =>                                         -- BaseWavefunctionSimulator.run_and_measure/_run_and_measure
      if c.symbolic then (l, .err .value)
      else ({ l with k := getWavefunction a l.k c, calls := l.calls + 1 }, .ok (sampleShots ext l.calls c n))

/-- batch `n_samples`: an int or a sequence -/
inductive NSpec
  | one (n : Int)
  | many (ns : List Int)
deriving DecidableEq, Repr

/-- `len(circuits_batch) * [n_samples] if isinstance(n_samples, int) else n_samples` -/
def samplesPerCircuit (cs : List Circ) : NSpec → List Int
  | .one n => List.replicate cs.length n
  | .many ns => ns

/-- `[self.run_and_measure(circuit, n) for circuit, n in zip(batch, samples_per_circuit)]`;
    an exception leaves the state reached so far -/
def runEach {σ : Type} (single : σ → Circ → Int → σ × Outcome (List Shot)) :
    σ → List (Circ × Int) → σ × Outcome (List (List Shot))
  | s, [] => (s, .ok [])
  | s, p :: rest =>
    match single s p.1 p.2 with
    | (s', .err e) => (s', .err e)
    | (s', .ok m) =>
      match runEach single s' rest with
      | (s'', .err e) => (s'', .err e)
      | (s'', .ok ms) => (s'', .ok (m :: ms))

/-- `isinstance(n_samples, int) and n_samples <= 0` – a scalar count is checked as such (broadcasting
    it over an empty batch would lose it) -/
def scalarNonPos : NSpec → Bool
  | .one n => decide (n ≤ 0)
  | .many _ => false

/-- `BaseCircuitRunner.run_batch_and_measure` with the default `_run_batch_and_measure` -/
def Leaf.batch (ext : Ext) (l : Leaf) (cs : List Circ) (ns : NSpec) : Leaf × Outcome (List (List Shot)) :=
  let spc := samplesPerCircuit cs ns
  if spc.length ≠ cs.length then (l, .err .value)
  else if scalarNonPos ns || spc.any (fun n => n ≤ 0) then (l, .err .value)
  else runEach (Leaf.run ext) l (cs.zip spc)

/-! ### counts, distributions -/

/-- `Counter[key] += 1` on an insertion-ordered dict -/
def bump (key : Shot) : List (Shot × Nat) → List (Shot × Nat)
  | [] => [(key, 1)]
  | p :: rest => if p.1 = key then (p.1, p.2 + 1) :: rest else p :: bump key rest

/-- `Measurements.get_counts()` (keys are the tuples written as strings) -/
def countsOf (shots : List Shot) : List (Shot × Nat) :=
  shots.foldl (fun acc s => bump s acc) []

def getCount : List (Shot × Nat) → Shot → Nat
  | [], _ => 0
  | p :: rest, key => if p.1 = key then p.2 else getCount rest key

/-- `Measurements.get_distribution()`: `counts[b] / len(bitstrings)` -/
def empirical (shots : List Shot) : List (Shot × Rat) :=
  (countsOf shots).map (fun p => (p.1, (p.2 : Rat) / (shots.length : Rat)))

inductive DistVal
  /-- the empirical distribution of the returned shots -/
  | empirical (d : List (Shot × Rat))
  /-- `create_bitstring_distribution_from_probability_distribution(wavefunction.get_probabilities())`
      of the circuit – an external value, kept as a token -/
  | exact (c : Circ)
deriving DecidableEq, Repr

/-- `get_measurement_outcome_distribution(circuit, n_samples)` of the two base classes -/
def Leaf.dist (ext : Ext) (l : Leaf) (c : Circ) : Option Int → Leaf × Outcome DistVal
  | none =>
    match l.kind with
    | .base => (l, .err .value)            -- "This runner needs n_samples …"
    | .sim a =>                            -- get_wavefunction(circuit) then the exact distribution
      if c.symbolic then ({ l with k := getWavefunction a l.k c }, .err .type)
      else ({ l with k := getWavefunction a l.k c }, .ok (.exact c))
  | some n =>
    match l.run ext c n with
    | (l', .err e) => (l', .err e)
    | (l', .ok m) => (l', .ok (.empirical (empirical m)))

/-! ### the measurement-tracking wrapper -/

inductive Record
  /-- `record_raw_measurement_data`: circuit, counts, number_of_gates, number_of_shots, bitstrings? -/
  | meas (c : Circ) (counts : List (Shot × Nat)) (nGates nShots : Nat) (bits : Option (List Shot))
  /-- the record of `get_measurement_outcome_distribution`: circuit, distribution, number_of_gates,
      number_of_shots (= the REQUESTED n_samples, possibly None) -/
  | dist (c : Circ) (d : DistVal) (nGates : Nat) (nShots : Option Int)
deriving DecidableEq, Repr

def mkMeasRecord (bits : Bool) (c : Circ) (m : List Shot) : Record :=
  .meas c (countsOf m) c.ops.length m.length (if bits then some m else none)

/-- A runner: a base-class runner, or a `MeasurementTrackingBackend` around a runner.
    `raw` is `self.raw_data`, `file` the content of the JSON file. -/
inductive Runner
  | leaf (l : Leaf)
  | tracker (inner : Runner) (bits : Bool) (k : Counters) (raw file : List Record)
deriving DecidableEq, Repr

/-- `run_and_measure`.  For the tracker: `BaseCircuitRunner.run_and_measure` with
    `_run_and_measure` = forward, `record_raw_measurement_data`, `save_raw_data`. -/
def Runner.run (ext : Ext) : Runner → Circ → Int → Runner × Outcome (List Shot)
  | .leaf l, c, n => (.leaf (l.run ext c n).1, (l.run ext c n).2)
  | .tracker inner bits k raw file, c, n =>
    if n ≤ 0 then (.tracker inner bits k raw file, .err .value)
    else match inner.run ext c n with
      | (inner', .err e) => (.tracker inner' bits k raw file, .err e)
      | (inner', .ok m) =>
        (.tracker inner' bits ⟨k.nCircuits + 1, k.nJobs + 1⟩ [] (raw ++ [mkMeasRecord bits c m]), .ok m)

/-- `run_batch_and_measure`.  The tracker overrides it: forward the whole batch, then count
    `len(circuits)` circuits and one job, record `zip(circuits, measurements)`, save. -/
def Runner.batch (ext : Ext) : Runner → List Circ → NSpec → Runner × Outcome (List (List Shot))
  | .leaf l, cs, ns => (.leaf (l.batch ext cs ns).1, (l.batch ext cs ns).2)
  | .tracker inner bits k raw file, cs, ns =>
    match inner.batch ext cs ns with
    | (inner', .err e) => (.tracker inner' bits k raw file, .err e)
    | (inner', .ok ms) =>
      (.tracker inner' bits ⟨k.nCircuits + cs.length, k.nJobs + 1⟩ []
        (raw ++ (cs.zip ms).map (fun p => mkMeasRecord bits p.1 p.2)), .ok ms)

/-- `get_measurement_outcome_distribution`.  The tracker forwards, appends a record, saves; its own
    counters are not touched. -/
def Runner.dist (ext : Ext) : Runner → Circ → Option Int → Runner × Outcome DistVal
  | .leaf l, c, n => (.leaf (l.dist ext c n).1, (l.dist ext c n).2)
  | .tracker inner bits k raw file, c, n =>
    match inner.dist ext c n with
    | (inner', .err e) => (.tracker inner' bits k raw file, .err e)
    | (inner', .ok d) =>
      (.tracker inner' bits k [] (raw ++ [Record.dist c d c.ops.length n]), .ok d)

/-! ### call histories -/

inductive Call
  | run (c : Circ) (n : Int)
  | batch (cs : List Circ) (ns : NSpec)
  | dist (c : Circ) (n : Option Int)
deriving DecidableEq, Repr

inductive Res
  | meas (m : List Shot)
  | batch (ms : List (List Shot))
  | distr (d : DistVal)
  | error (e : Err)
deriving DecidableEq, Repr

def step (ext : Ext) (r : Runner) : Call → Runner × Res
  | .run c n =>
    match r.run ext c n with
    | (r', .ok m) => (r', .meas m)
    | (r', .err e) => (r', .error e)
  | .batch cs ns =>
    match r.batch ext cs ns with
    | (r', .ok ms) => (r', .batch ms)
    | (r', .err e) => (r', .error e)
  | .dist c n =>
    match r.dist ext c n with
    | (r', .ok d) => (r', .distr d)
    | (r', .err e) => (r', .error e)

/-- apply a whole history; returns the final state and every result -/
def runAll (ext : Ext) : Runner → List Call → Runner × List Res
  | r, [] => (r, [])
  | r, call :: rest =>
    let p := step ext r call
    let q := runAll ext p.1 rest
    (q.1, p.2 :: q.2)

/-- a freshly constructed runner (`__init__`: counters 0, `raw_data = []`, nothing written) -/
def Runner.fresh : Runner → Bool
  | .leaf l => l.k.nCircuits == 0 && l.k.nJobs == 0 && l.calls == 0
  | .tracker inner _ k raw file => k.nCircuits == 0 && k.nJobs == 0 && raw.isEmpty && file.isEmpty && inner.fresh

/-- the counters of the runner and of every runner it wraps, outermost first -/
def Runner.counters : Runner → List Counters
  | .leaf l => [l.k]
  | .tracker inner _ k _ _ => k :: inner.counters

/-- the JSON files of the trackers in the chain, outermost first -/
def Runner.files : Runner → List (List Record)
  | .leaf _ => []
  | .tracker inner _ _ _ file => file :: inner.files

/-- the base-class runner at the bottom of the chain -/
def Runner.leafOf : Runner → Leaf
  | .leaf l => l
  | .tracker inner _ _ _ _ => inner.leafOf

end OQ.C14
