/-
  C12 / T13 — the numpy / sympy EXTERNALS of the translated `Wavefunction` class (`OQ.Generated.Wf.Ext`, harness/tables_t13.py),
  instantiated by the executable model's own notions (Mathlib-free; compiled into the driver: the self-check
  harness/translated_check_t13.py runs the TRANSLATED methods over these stand-ins against the real class).
  Types: an array / Matrix is a `Store`; a constructor argument is `(column?, entries)`; an entry is a `Lin`; `np.abs(·) ** 2` of a
  symbol-free object is the list of squared magnitudes (`none` for a symbolic one); a float is a `Rat`; a key is an int or a bare
  slice; a symbol map is an association list; `free_symbols` is seen through its truth value.
  `rawSet` is the WRITE alone (`vec[idx] = val`, numpy / sympy 1.9 semantics as in OQ/Model/C12.lean: errors of the write itself –
  IndexError, TypeError, broadcast / ShapeError – occur before anything is written); the re-check and the rollback are NOT here:
  they are what the translated `__setitem__` does.
-/
import OQ.Model.C12
import OQ.Generated.TranslatedC12Wf
namespace OQ.C12.T13
open OQ.Generated OQ.PyT

/-- the key of `wf[key] = val` -/
inductive Key
  | int (i : Int)
  | slice (start stop : Option Int)
deriving DecidableEq, Repr

def errOf : Err → Exc
  | .value => .ValueError
  | .type => .TypeError
  | .index => .IndexError
  | .internal => .other 0

/-- `arr[key] = val` on an ndarray (`twoD`: shape (n,1)) – the write alone -/
def rawSetArr (twoD : Bool) (v : List QI) (k : Key) (x : SliceVal) : List QI × Except Exc Unit :=
  match k, x with
  | .int i, .scalar val =>
    match normIndex v.length i with
    | none => (v, .error .IndexError)
    | some p => if !val.isNum then (v, .error .TypeError) else (writeAt v [p] [val.c], .ok ())
  | .int _, .list _ => (v, .error .TypeError)        -- not an operation of the model (outside the tied domain)
  | .slice st sp, val =>
    let a := clampIdx v.length st 0
    let b := clampIdx v.length sp v.length
    let ps := List.range' a (b - a)
    match broadcast twoD ps.length val with
    | .error e => (v, .error (errOf e))
    | .ok vals => (writeAt v ps vals, .ok ())

/-- `M[key] = val` on a sympy Matrix – the write alone (sympy 1.9: a bare slice is read as a `(row, col)` pair) -/
def rawSetMat (v : List Lin) (k : Key) (x : SliceVal) : List Lin × Except Exc Unit :=
  match k, x with
  | .int i, .scalar val =>
    match normIndex v.length i with
    | none => (v, .error .IndexError)
    | some p => (writeAt v [p] [val], .ok ())
  | .int _, .list _ => (v, .error .TypeError)        -- not an operation of the model (outside the tied domain)
  | .slice st sp, .list xs =>
    let a := clampIdx v.length st 0
    let b := clampIdx v.length sp v.length
    if xs.length = 0 ∧ a = 0 ∧ b = 0 then (v, .ok ()) else (v, .error .ValueError)
  | .slice st sp, .scalar x =>
    let a := clampIdx v.length st 0
    let b := clampIdx v.length sp v.length
    if b = 0 ∧ a < v.length then (v.set a x, .ok ()) else (v, .error .IndexError)

def rawSet (s : Store) (k : Key) (x : SliceVal) : Store × Except Exc Unit :=
  match s with
  | .arr1 v => let r := rawSetArr false v k x; (.arr1 r.1, r.2)
  | .arr2 v => let r := rawSetArr true v k x; (.arr2 r.1, r.2)
  | .mat v => let r := rawSetMat v k x; (.mat r.1, r.2)

def isArr : Store → Bool
  | .mat _ => false
  | _ => true

/-- `np.abs(x) ** 2` -/
def absSq (s : Store) : Option (List Rat) :=
  if allNum s.entries then some (s.entries.map (fun e => e.c.normSq)) else none

/-- the constructor argument a vector is when it is handed to `Wavefunction(…)` again (`type(self)(result)`, `flip_wavefunction`) -/
def asInput : Store → Bool × List Lin
  | .arr1 v => (false, v.map Lin.ofNum)
  | .arr2 v => (true, v.map Lin.ofNum)
  | .mat v => (true, v)

def withEntries (s : Store) (w : List Lin) : Store :=
  match s with
  | .arr1 _ => .arr1 (w.map (·.c))
  | .arr2 _ => .arr2 (w.map (·.c))
  | .mat _ => .mat w

abbrev MExt := Wf.Ext Store (Bool × List Lin) Lin (Option (List Rat)) Rat Key SliceVal (List (String × Lin)) Bool Bool (List Nat)
  Unit Unit Unit

/-- the model's numpy / sympy: every external of the translated class, for the tolerance test `close` -/
def modelExt (close : Rat → Bool) : MExt where
  complex_of := fun e => if e.isNum then .ok () else .error .TypeError
  np_complex128 := true
  np_float64 := false
  np_array_object_flatten := fun s => .ok s
  np_array_dtype_flatten := fun s _ => if allNum s.entries then .ok (.arr1 (s.entries.map (·.c))) else .error .TypeError
  isinstance_ndarray := isArr
  isinstance_Matrix := fun s => !isArr s
  attr_free_symbols := fun s => !allNum s.entries
  getattr_free_symbols := fun s => !allNum s.entries
  np_abs_sq := absSq
  np_sum := fun a => (a.getD []).sum
  np_isclose_one := close
  gt_one := fun q => decide (1 < q)
  np_array_c128 := fun l => if l.all Lin.isNum then .ok (.arr1 (l.map (·.c))) else .error .TypeError
  len_input := fun p => (p.2.length : Int)
  len_vector := fun s => (s.length : Int)
  np_array_complex := fun p =>
    if allNum p.2 then .ok (if p.1 then .arr2 (p.2.map (·.c)) else .arr1 (p.2.map (·.c))) else .error .TypeError
  sympy_Matrix := fun p => .ok (.mat p.2)
  int_log2 := fun n => if n ≤ 0 then .error .ValueError else .ok (Nat.log2 n.toNat : Nat)
  copy := fun s => s
  subs := fun s m => match s with
    | .mat v => .mat (v.map (Lin.subst m))
    | s => s
  get_ordering := fun n => if n ≤ 0 then .error .TypeError else .ok (ordering n.toNat)
  asarray_take := fun s ord => match readAt s.entries ord with
    | none => .error .IndexError
    | some w => .ok (withEntries s w)
  default_rng := fun _ => ()
  isinstance_list_or_ndarray := fun _ => false
  first_of := fun q => q
  choice_objects := fun _ _ _ _ => .error (.other 1)
  choice_strings := fun _ _ _ _ => .error (.other 1)
  setitem := rawSet
  setitem_all := fun s old => if isArr s then (old, .ok ()) else (s, .error .IndexError)   -- sympy: `Invalid index a[Ellipsis]`
  truthy_FS := fun b => b
  iter_vector := fun s => s.entries
  iter_probs := fun a => a.getD []
  as_input := asInput
  num_of_int := fun n => (n : Rat)
  iter_strings := fun _ => []

end OQ.C12.T13
