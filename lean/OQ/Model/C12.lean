/-
  C12 — a wavefunction object is normalised after every operation (Mathlib-free executable model).
  Mirrors  src/orquestra/quantum/wavefunction.py  (Wavefunction.__init__, _check_normalization,
           __setitem__, bind, get_probabilities, zero_state, dicke_state,
           _get_next_number_with_same_hamming_weight, _most_significant_set_bit, flip_amplitudes,
           _get_ordering, flip_wavefunction, save_wavefunction, load_wavefunction)
  and      src/orquestra/quantum/utils.py  (convert_array_to_dict, convert_dict_to_array).

  Amplitudes are exact Gaussian rationals; symbolic entries are linear forms  c + Σ cᵢ·xᵢ  over
  named symbols (the fragment on which sympy's automatic canonicalisation is "collect like terms, drop
  zero coefficients", so that `free_symbols` = the symbols listed).  The library's float tolerance
  `np.isclose(·, 1.0)` enters as the parameter `close : Rat → Bool`.
-/
namespace OQ.C12

/-! ### scalars -/

/-- a Gaussian rational re + im·i -/
structure QI where
  re : Rat
  im : Rat
deriving DecidableEq, Repr, Inhabited

namespace QI
instance : Zero QI := ⟨⟨0, 0⟩⟩
instance : One QI := ⟨⟨1, 0⟩⟩
instance : Add QI := ⟨fun x y => ⟨x.re + y.re, x.im + y.im⟩⟩
instance : Mul QI := ⟨fun x y => ⟨x.re * y.re - x.im * y.im, x.re * y.im + x.im * y.re⟩⟩
/-- `np.abs(z) ** 2` -/
def normSq (z : QI) : Rat := z.re * z.re + z.im * z.im
end QI

/-- a symbolic entry: the linear form `c + Σ coeff·symbol` (no terms = a plain number) -/
structure Lin where
  c : QI
  terms : List (String × QI)
deriving DecidableEq, Repr, Inhabited

namespace Lin
def ofNum (q : QI) : Lin := ⟨q, []⟩
def ofSym (x : String) : Lin := ⟨0, [(x, 1)]⟩
/-- `_is_number(elem)`: `complex(elem)` succeeds iff no symbol is left -/
def isNum (e : Lin) : Bool := e.terms.isEmpty

/-- add `a·x` to a term list: like terms are collected, a vanishing coefficient is dropped -/
def addTerm : List (String × QI) → String → QI → List (String × QI)
  | [], x, a => if a = 0 then [] else [(x, a)]
  | (y, b) :: rest, x, a =>
    if y = x then (if b + a = 0 then rest else (y, b + a) :: rest)
    else (y, b) :: addTerm rest x a

def add (e f : Lin) : Lin := ⟨e.c + f.c, f.terms.foldl (fun acc p => addTerm acc p.1 p.2) e.terms⟩
def smul (a : QI) (e : Lin) : Lin :=
  ⟨a * e.c, (e.terms.map (fun p => (p.1, a * p.2))).filter (fun p => p.2 ≠ 0)⟩

/-- `expr.subs(symbol_map)` (simultaneous substitution; symbols not in the map stay) -/
def subst (m : List (String × Lin)) (e : Lin) : Lin :=
  e.terms.foldl (fun acc p => acc.add (smul p.2 ((m.lookup p.1).getD (ofSym p.1)))) (ofNum e.c)
end Lin

/-! ### errors and outcomes -/

inductive Err
  | value       -- ValueError (including sympy's ShapeError, a ValueError)
  | type        -- TypeError
  | index       -- IndexError
  | internal    -- the model ran out of fuel (proved unreachable)
deriving DecidableEq, Repr, Inhabited

def Err.toString : Err → String
  | .value => "err:value"
  | .type => "err:type"
  | .index => "err:index"
  | .internal => "err:internal"

inductive Outcome
  | ok
  | err (e : Err)
deriving DecidableEq, Repr, Inhabited

/-! ### the object: `_amplitude_vector` and its three possible representations -/

inductive Store
  | arr1 (v : List QI)   -- 1-D complex ndarray
  | arr2 (v : List QI)   -- (n,1) complex ndarray (from a fully bound Matrix / a nested list)
  | mat (v : List Lin)   -- sympy column Matrix (stays a Matrix even when its last symbol is overwritten)
deriving DecidableEq, Repr, Inhabited

def Store.entries : Store → List Lin
  | .arr1 v => v.map Lin.ofNum
  | .arr2 v => v.map Lin.ofNum
  | .mat v => v

/-- `len(self)` -/
def Store.length (s : Store) : Nat := s.entries.length

/-- number of `'1'` characters in `bin(n)` (fuel = n is always enough) -/
def popcountAux : Nat → Nat → Nat
  | 0, _ => 0
  | f + 1, x => if x = 0 then 0 else x % 2 + popcountAux f (x / 2)
def popcount (x : Nat) : Nat := popcountAux x x

/-- `np.sum(np.abs(numbers) ** 2)` over the entries that are numbers -/
def numSq (v : List Lin) : Rat := ((v.filter Lin.isNum).map (fun e => e.c.normSq)).sum
/-- "no free symbols" -/
def allNum (v : List Lin) : Bool := v.all Lin.isNum

/-- `_check_normalization(arr)`; `true` = no ValueError.  ndarray or symbol-free Matrix: `np.isclose(Σ, 1.0)`;
    otherwise the numeric entries must not exceed 1 (`Σ > 1.0` raises). -/
def checkNorm (close : Rat → Bool) (v : List Lin) : Bool :=
  if allNum v then close (numSq v) else !(decide (1 < numSq v))

/-- the library's concrete tolerance: `np.isclose(s, 1.0)` ⇔ |s − 1| ≤ 1e-8 + 1e-5·1 -/
def isClose (s : Rat) : Bool := decide (s - 1 ≤ 1001 / 100000000) && decide (1 - s ≤ 1001 / 100000000)

/-- `Wavefunction.__init__`.  `col` = the argument is a column (sympy Matrix / nested list), which only
    decides the shape of the resulting ndarray.  `np.asarray(…, dtype=complex)` succeeds iff every entry
    is a number; otherwise `Matrix(…)` is kept. -/
def construct (close : Rat → Bool) (col : Bool) (v : List Lin) : Except Err Store :=
  if popcount v.length != 1 then .error .value
  else if allNum v then
    if close (numSq v) then .ok (if col then .arr2 (v.map (·.c)) else .arr1 (v.map (·.c)))
    else .error .value
  else if 1 < numSq v then .error .value
  else .ok (.mat v)

/-! ### element assignment -/

/-- integer index with Python/numpy/sympy negative wrap-around; `none` = IndexError -/
def normIndex (n : Nat) (i : Int) : Option Nat :=
  if 0 ≤ i ∧ i < n then some i.toNat
  else if -(n : Int) ≤ i ∧ i < 0 then some (i + n).toNat
  else none

/-- CPython `slice(start, stop).indices(n)[:2]` for step `None` -/
def clampIdx (n : Nat) (i : Option Int) (dflt : Nat) : Nat :=
  match i with
  | none => dflt
  | some i => if i < 0 then (i + n).toNat else min i.toNat n

/-- `vec[ps]` for a list of positions (`none` if one is out of range) -/
def readAt {α : Type} (v : List α) : List Nat → Option (List α)
  | [] => some []
  | p :: ps =>
    match v[p]?, readAt v ps with
    | some a, some rest => some (a :: rest)
    | _, _ => none
/-- `vec[ps] = vals`, element by element -/
def writeAt {α : Type} (v : List α) : List Nat → List α → List α
  | p :: ps, x :: xs => writeAt (v.set p x) ps xs
  | _, _ => v

/-- the value of a slice assignment -/
inductive SliceVal
  | scalar (x : Lin)
  | list (xs : List Lin)
deriving DecidableEq, Repr, Inhabited

/-- the mutating / object-replacing operations -/
inductive Op
  | setInt (i : Int) (val : Lin)                              -- wf[i] = val
  | setSlice (start stop : Option Int) (val : SliceVal)       -- wf[start:stop] = val
  | bind (m : List (String × Lin))                            -- wf = wf.bind(m)
  | flip                                                      -- wf = flip_wavefunction(wf)
  | reload                                                    -- save_wavefunction(wf, f); wf = load_wavefunction(f)
deriving DecidableEq, Repr, Inhabited

/-- `__setitem__` on an ndarray at (in-range) positions `ps` with the broadcast values `vals`:
    keep a copy of the WHOLE vector, write, re-check, put the whole copy back on failure. -/
def setArr (close : Rat → Bool) (v : List QI) (ps : List Nat) (vals : List QI) : List QI × Outcome :=
  let old := v                                -- old_vector = self._amplitude_vector.copy()
  let v' := writeAt v ps vals                 -- vec[idx] = val
  if close ((v'.map QI.normSq).sum) then (v', .ok)
  else (old, .err .value)                     -- vec[...] = old_vector; raise ValueError

/-- numpy broadcasting of the right-hand side of `arr[a:b] = val`; `twoD` = the array has shape (n,1) -/
def broadcast (twoD : Bool) (count : Nat) (val : SliceVal) : Except Err (List QI) :=
  match val with
  | .scalar x => if x.isNum then .ok (List.replicate count x.c) else .error .type
  | .list xs =>
    if !(xs.all Lin.isNum) then .error .type
    else if xs.length = 1 then .ok (List.replicate count ((xs.map (·.c)).headD 0))
    else if !twoD && xs.length = count then .ok (xs.map (·.c))
    else .error .value

def setIntArr (close : Rat → Bool) (v : List QI) (i : Int) (val : Lin) : List QI × Outcome :=
  match normIndex v.length i with
  | none => (v, .err .index)
  | some p =>
    if !val.isNum then (v, .err .type)          -- complex(symbol) raises TypeError before anything is written
    else setArr close v [p] [val.c]

def setSliceArr (close : Rat → Bool) (twoD : Bool) (v : List QI) (a b : Nat) (val : SliceVal) : List QI × Outcome :=
  let ps := List.range' a (b - a)
  match broadcast twoD ps.length val with
  | .error e => (v, .err e)
  | .ok vals => setArr close v ps vals

/-- `__setitem__` on a sympy Matrix with an integer key (sympy raises IndexError on the write itself) -/
def setIntMat (close : Rat → Bool) (v : List Lin) (i : Int) (val : Lin) : List Lin × Outcome :=
  match normIndex v.length i with
  | none => (v, .err .index)
  | some p =>
    let old := v                              -- old_vector = self._amplitude_vector.copy()
    let v' := writeAt v [p] [val]
    if checkNorm close v' then (v', .ok) else (old, .err .value)   -- self._amplitude_vector = old_vector

/-- `__setitem__` on a sympy Matrix with a bare slice key.  sympy's `key2ij` turns the slice into the
    PAIR `(row, col) = slice.indices(len)[:2]`, so a scalar is written to element `a` when the clamped stop
    is 0 (an IndexError otherwise).  A list value goes through `copyin_matrix` with the bounds `(a..0, b..0)`:
    a ShapeError (a ValueError, raised before anything is written) unless everything is empty.  A write the
    re-check rejects is undone by putting the saved whole vector back. -/
def setSliceMat (close : Rat → Bool) (v : List Lin) (a b : Nat) (val : SliceVal) : List Lin × Outcome :=
  let old := v                                -- old_vector = self._amplitude_vector.copy()
  match val with
  | .list xs =>
    if xs.length = 0 ∧ a = 0 ∧ b = 0 then
      -- nothing is copied in; the re-check still runs
      if checkNorm close v then (v, .ok) else (old, .err .value)
    else (v, .err .value)
  | .scalar x =>
    if b = 0 ∧ a < v.length then
      let v' := v.set a x
      if checkNorm close v' then (v', .ok) else (old, .err .value)
    else (v, .err .index)

/-! ### bind, flip, save / load -/

/-- `_get_ordering(number_of_states)`: `arange(2**nb).reshape(nb*[2]).transpose(reversed).reshape(2**nb)`;
    `unravel` = C-order multi-index (most significant axis first), transpose = reverse the multi-index,
    `ravel` = C-order flattening. -/
def lsbDigits : Nat → Nat → List Nat
  | 0, _ => []
  | nb + 1, i => i % 2 :: lsbDigits nb (i / 2)
def unravel (nb i : Nat) : List Nat := (lsbDigits nb i).reverse
def ravel (ds : List Nat) : Nat := ds.foldl (fun acc d => 2 * acc + d) 0
/-- `number_of_states.bit_length() - 1` (for a positive argument) -/
def numBits (n : Nat) : Nat := Nat.log2 n
def ordering (n : Nat) : List Nat :=
  let nb := numBits n
  (List.range (2 ^ nb)).map (fun i => ravel (unravel nb i).reverse)

/-- `flip_amplitudes`: `np.asarray(amplitudes)[ordering]` (`none`: empty input raises; an index out of range) -/
def flipList {α : Type} (v : List α) : Option (List α) :=
  if v.length = 0 then none else readAt v (ordering v.length)

/-- `convert_array_to_dict(wavefunction.amplitudes)` + `json.dumps`: real and imaginary lists (the amplitudes
    of an ndarray-backed object are always complex); symbolic or Matrix-backed: not JSON serialisable. -/
def save (s : Store) : Except Err (Bool × List Rat × List Rat) :=
  match s with
  | .arr1 v => .ok (false, v.map (·.re), v.map (·.im))
  | .arr2 v => .ok (true, v.map (·.re), v.map (·.im))
  | .mat _ => .error .type

/-- `convert_dict_to_array`: `np.array(real) [+ 1j*np.array(imag) if imag is non-empty]` with numpy broadcasting -/
def dictToArray (re : List Rat) (im : Option (List Rat)) : Except Err (List QI) :=
  match im with
  | none => .ok (re.map (fun r => ⟨r, 0⟩))
  | some [] => .ok (re.map (fun r => ⟨r, 0⟩))
  | some im =>
    if re.length = im.length then .ok ((re.zip im).map (fun p => ⟨p.1, p.2⟩))
    else if im.length = 1 then .ok (re.map (fun r => ⟨r, im.headD 0⟩))
    else if re.length = 1 then .ok (im.map (fun i => ⟨re.headD 0, i⟩))
    else .error .value

/-- `load_wavefunction` -/
def load (close : Rat → Bool) (col : Bool) (re : List Rat) (im : Option (List Rat)) : Except Err Store :=
  match dictToArray re im with
  | .error e => .error e
  | .ok v => construct close col (v.map Lin.ofNum)

/-- `flip_wavefunction(wf)` = `Wavefunction(flip_amplitudes(wf.amplitudes))` -/
def flipWf (close : Rat → Bool) (s : Store) : Except Err Store :=
  match s with
  | .arr1 v => match flipList v with
    | none => .error .type
    | some w => construct close false (w.map Lin.ofNum)
  | .arr2 v => match flipList v with
    | none => .error .type
    | some w => construct close true (w.map Lin.ofNum)
  | .mat v => match flipList v with
    | none => .error .type
    | some w => construct close true w

/-- `get_probabilities()` of a symbol-free object: `np.abs(amplitudes) ** 2` (`none`: symbolic) -/
def probabilities (s : Store) : Option (List Rat) :=
  if allNum s.entries then some (s.entries.map (fun e => e.c.normSq)) else none

/-- one operation on the object; returns the object afterwards and what the caller saw -/
def step (close : Rat → Bool) (s : Store) (op : Op) : Store × Outcome :=
  match op, s with
  | .setInt i val, .arr1 v => let r := setIntArr close v i val; (.arr1 r.1, r.2)
  | .setInt i val, .arr2 v => let r := setIntArr close v i val; (.arr2 r.1, r.2)
  | .setInt i val, .mat v => let r := setIntMat close v i val; (.mat r.1, r.2)
  | .setSlice st sp val, .arr1 v =>
    let r := setSliceArr close false v (clampIdx v.length st 0) (clampIdx v.length sp v.length) val; (.arr1 r.1, r.2)
  | .setSlice st sp val, .arr2 v =>
    let r := setSliceArr close true v (clampIdx v.length st 0) (clampIdx v.length sp v.length) val; (.arr2 r.1, r.2)
  | .setSlice st sp val, .mat v =>
    let r := setSliceMat close v (clampIdx v.length st 0) (clampIdx v.length sp v.length) val; (.mat r.1, r.2)
  | .bind m, .mat v =>
    if allNum v then (s, .ok)                              -- `if not self.free_symbols: return self`
    else match construct close true (v.map (Lin.subst m)) with
      | .ok s' => (s', .ok)
      | .error _ => (s, .err .value)
  | .bind _, _ => (s, .ok)
  | .flip, _ => match flipWf close s with
    | .ok s' => (s', .ok)
    | .error e => (s, .err e)
  | .reload, _ => match save s with
    | .error e => (s, .err e)
    | .ok (col, re, im) => match load close col re (some im) with
      | .ok s' => (s', .ok)
      | .error e => (s, .err e)

/-- a whole history -/
def run (close : Rat → Bool) (s : Store) (ops : List Op) : Store :=
  ops.foldl (fun s op => (step close s op).1) s

/-- the history with everything the caller saw -/
def trace (close : Rat → Bool) : Store → List Op → List (Store × Outcome)
  | _, [] => []
  | s, op :: ops => let r := step close s op; r :: trace close r.1 ops

/-! ### zero state and Dicke state -/

/-- `Wavefunction.zero_state(n)` -/
def zeroState (close : Rat → Bool) (n : Int) : Except Err Store :=
  if n ≤ 0 then .error .value
  else construct close false ((Lin.ofNum 1) :: List.replicate (2 ^ n.toNat - 1) (Lin.ofNum 0))

/-- Python `x & -x` for a positive int: the lowest set bit (`x − (x & (x−1))`) -/
def lowBit (x : Nat) : Nat := x - (x &&& (x - 1))

/-- `_get_next_number_with_same_hamming_weight(val)` for `val ≥ 1`:
    `t = (val | (val - 1)) + 1;  t | ((((t & -t) // (val & -val)) >> 1) - 1)` -/
def nextSameWeight (v : Nat) : Nat :=
  let t := (v ||| (v - 1)) + 1
  t ||| (((lowBit t / lowBit v) >>> 1) - 1)

/-- `_most_significant_set_bit(val)` = `len(bin(val)) - 2` -/
def msb (x : Nat) : Nat := if x = 0 then 1 else Nat.log2 x + 1

/-- the `while True` loop of `dicke_state` (`none`: fuel exhausted – proved impossible for fuel `2^n`) -/
def dickeLoop (n : Nat) : Nat → Nat → List Nat → Option (List Nat)
  | 0, _, _ => none
  | fuel + 1, cur, acc =>
    let nxt := nextSameWeight cur
    if msb nxt ≤ n then dickeLoop n fuel nxt (acc ++ [nxt]) else some acc

/-- the index list built by `dicke_state(n, k)` for `1 ≤ k ≤ n`; `int("1"*k, 2) = 2^k − 1` -/
def dickeIndices (n k : Nat) : Option (List Nat) := dickeLoop n (2 ^ n) (2 ^ k - 1) [2 ^ k - 1]

/-- squared magnitudes of the Dicke vector: `wf[indices] = 1/sqrt(counter)`, `counter = len(indices)` -/
def dickeProbs (n : Nat) (idx : List Nat) : List Rat :=
  (List.range (2 ^ n)).map (fun i => if i ∈ idx then 1 / (idx.length : Rat) else 0)

/-- `Wavefunction.dicke_state(n, k)` up to the irrational amplitude: the support and the probabilities -/
def dickeState (n k : Int) : Except Err (List Nat × List Rat) :=
  if n ≤ 0 then .error .value                 -- zero_state(n) raises
  else if k < 0 then .error .value
  else if k > n then .error .value
  else if k = 0 then .ok ([0], dickeProbs n.toNat [0])
  else match dickeIndices n.toNat k.toNat with
    | none => .error .internal                -- unreachable (theorem `dicke_support`)
    | some idx => .ok (idx, dickeProbs n.toNat idx)

end OQ.C12
