/-
  C01 — a circuit acts as the ordered product of its gates on the named qubits
  (Mathlib-free executable model; the embedding `_lift_matrix` itself is `OQ.Lift.liftMatrix`).
  Mirrors  circuits/_gates.py            GateOperation.lifted_matrix / apply
           circuits/_wavefunction_operations.py   MultiPhaseOperation.apply / qubit_indices
           circuits/_circuit.py          Circuit.__init__ (width), to_unitary, __add__, split_circuit
           api/wavefunction_simulator.py BaseWavefunctionSimulator.get_wavefunction
           runners/symbolic_simulator.py SymbolicSimulator
-/
import OQ.Model.Lift
namespace OQ.C01
open OQ.Lift
variable {R : Type} [Zero R] [One R] [Add R] [Mul R]

/-- `GateOperation.lifted_matrix(num_qubits)`.  `Lift.liftMatrix` multiplies without a shape check;
    numpy's / sympy's `@` raises when the gate matrix is not `2^k × 2^k` for the `k` indices given
    (`X(0, 1)`, `CNOT(0)`): that error is made explicit here. -/
def gateLift (o : Op R) (n : Nat) : Option (Mat R) :=
  if o.m.r = 2 ^ o.qs.length ∧ o.m.c = 2 ^ o.qs.length then liftMatrix o.m o.qs n else none

/-- an operation of a circuit: a gate operation, or a `MultiPhaseOperation` given by its factors
    `exp(i·θ_k)` (`np.exp` is external: the factors are the data) -/
inductive Oper (R : Type) where
  | gate (o : Op R)
  | mphase (fs : List R)
deriving Inhabited

/-- `operation.qubit_indices` (`MultiPhaseOperation`: `range(int(log2(len(params))))`) -/
def Oper.qubits : Oper R → List Nat
  | .gate o => o.qs
  | .mphase fs => List.range (Nat.log2 fs.length)

def Oper.isGate : Oper R → Bool
  | .gate _ => true
  | .mphase _ => false

/-- a `Circuit`: its width `n_qubits` and its operations.  Every circuit the constructor returns
    satisfies `n = 0 → ops = []` (`Circ.wf`). -/
structure Circ (R : Type) where
  n : Nat
  ops : List (Oper R)
deriving Inhabited

def Circ.wf (c : Circ R) : Prop := c.n = 0 → c.ops = []

/-- `Circuit(operations, n_qubits)`: a truthy `n_qubits` is taken AS IS, otherwise
    `_circuit_size_by_operations` (`max()` of no index at all raises: `none`). -/
def mkCircuit (ops : List (Oper R)) (declared : Option Nat) : Option (Circ R) :=
  match declared with
  | some (n + 1) => some ⟨n + 1, ops⟩
  | _ =>
    if ops.isEmpty then some ⟨0, ops⟩
    else
      let idx := ops.flatMap Oper.qubits
      if idx.isEmpty then none else some ⟨listMax idx + 1, ops⟩

/-- the body of the loop of `to_unitary`: `op.lifted_matrix(n_qubits)` for a gate operation,
    `ValueError` for anything else -/
def Oper.lifted (n : Nat) : Oper R → Option (Mat R)
  | .gate o => gateLift o n
  | .mphase _ => none

/-- `Circuit.to_unitary()`: lifted matrices of the REVERSED operations (a non-gate operation raises),
    then `reduce(operator.matmul, …)` (raises on the empty circuit). -/
def toUnitary (c : Circ R) : Option (Mat R) :=
  match c.ops.reverse.mapM (Oper.lifted c.n) with
  | none => none
  | some ms => reduceMul ms

/-- `operation.apply(amplitude_vector)` (the vector is a `len × 1` matrix) -/
def applyOper (op : Oper R) (v : Mat R) : Option (Mat R) :=
  match op with
  | .gate o =>
    match log2Exact v.r with
    | none => none
    | some n =>
      match gateLift o n with
      | none => none
      | some l => some (Mat.mul l v)
  | .mphase fs =>
    if v.r ≠ fs.length then none
    else some (Mat.ofFn v.r 1 (fun i _ => v.get i 0 * fs.getD i 0))

/-- applying the operations one at a time, in program order -/
def applyAll (ops : List (Oper R)) (v : Mat R) : Option (Mat R) :=
  ops.foldlM (fun acc op => applyOper op acc) v

/-- `itertools.groupby(xs, key)`: maximal runs of equal key, in order -/
def groupBy {α : Type} (p : α → Bool) : List α → List (Bool × List α)
  | [] => []
  | x :: xs =>
    match groupBy p xs with
    | [] => [(p x, [x])]
    | (b, g) :: rest => if p x = b then (b, x :: g) :: rest else (p x, [x]) :: (b, g) :: rest

/-- `split_circuit(circuit, predicate)` (each piece keeps the width of the whole circuit) -/
def splitCircuit (c : Circ R) (p : Oper R → Bool) : List (Bool × Circ R) :=
  (groupBy p c.ops).map (fun bg => (bg.1, ⟨c.n, bg.2⟩))

/-- `|0…0⟩` on `n` qubits -/
def zeroState (n : Nat) : Mat R := Mat.ofFn (2 ^ n) 1 (fun i _ => if i = 0 then 1 else 0)

/-- `BaseWavefunctionSimulator.get_wavefunction(circuit, initial_state)`.
    `isNative` = `is_natively_supported`, `native` = `_get_wavefunction_from_native_circuit`
    (the abstract method), `valid` = the checks of the `Wavefunction(...)` constructor that wraps the
    final state (power-of-two length, unit norm). -/
def getWavefunction (isNative : Oper R → Bool) (native : Circ R → Mat R → Option (Mat R))
    (valid : Mat R → Bool) (c : Circ R) (init : Option (Mat R)) : Option (Mat R) :=
  let state0 := match init with
    | none => zeroState c.n
    | some v => v
  match (splitCircuit c isNative).foldlM
      (fun st seg => if seg.1 then native seg.2 st else applyAll seg.2.ops st) state0 with
  | none => none
  | some st => if valid st then some st else none

/-- `SymbolicSimulator`: everything is native, the native run applies the operations in turn -/
def symbolicWavefunction (valid : Mat R → Bool) (c : Circ R) (init : Option (Mat R)) : Option (Mat R) :=
  getWavefunction (fun _ => true) (fun sub st => applyAll sub.ops st) valid c init

/-- `circuit + gate_operation` (`_append_operation`; any other operation type: `NotImplementedError`) -/
def addOp (c : Circ R) (op : Oper R) : Option (Circ R) :=
  match op with
  | .gate o =>
    if o.qs.isEmpty then none
    else mkCircuit (c.ops ++ [op]) (some (max c.n (listMax o.qs + 1)))
  | .mphase _ => none

/-- `circuit + other_circuit` (`_append_circuit`) -/
def addCirc (c d : Circ R) : Option (Circ R) :=
  mkCircuit (c.ops ++ d.ops) (some (max c.n d.n))

end OQ.C01
