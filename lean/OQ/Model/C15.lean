/-
  C15 — estimation: one correctly weighted result per task, in task order
  (Mathlib-free executable model).
  Mirrors  src/orquestra/quantum/estimation/_estimation.py
             (evaluate_estimation_circuits, split_estimation_tasks_to_measure,
              evaluate_non_measured_estimation_tasks, estimate_expectation_values_by_averaging,
              calculate_exact_expectation_values),
           Measurements.get_counts / get_expectation_values,
           get_expectation_value_from_frequencies, check_parity_of_vector (measurements/),
           expectation_values_to_real,
           BaseCircuitRunner.run_batch_and_measure, BaseWavefunctionSimulator.run_and_measure /
           get_exact_expectation_values, operators.get_expectation_value / sparse_tools.expectation.

  Externals are PARAMETERS:
    * the circuit runner            `rb  : List C → List (Option Int) → Except Err (List Shots)`
    * the wavefunction simulator    `wf  : C → Except Err (Nat × (Nat → K))`
    * the operator-to-matrix map    `opMat : Op → Nat → Nat → Nat → K`      (get_sparse_operator, C09)
    * `Circuit.bind`                `bind : C → M → C`                        (C06)
  The second half of the file gives the concrete instantiations the driver runs
  (BaseCircuitRunner batch validation, product states of one-qubit gates, Pauli matrices by bits,
   linear-form gate parameters).
-/
import OQ.Exec.Mat
namespace OQ.C15

/-- the exceptions the real code raises -/
inductive Err where
  | value | type | index | runtime
deriving DecidableEq, Repr, Inhabited

def Err.toString : Err → String
  | .value => "err:value" | .type => "err:type" | .index => "err:index" | .runtime => "err:runtime"

/-- a Python complex / float coefficient, exact: Gaussian rational -/
structure GQ where
  re : Rat
  im : Rat
deriving DecidableEq, Repr, Inhabited

namespace GQ
instance : Zero GQ := ⟨⟨0, 0⟩⟩
instance : Add GQ := ⟨fun x y => ⟨x.re + y.re, x.im + y.im⟩⟩
/-- `coefficient * float` -/
def smul (c : GQ) (m : Rat) : GQ := ⟨c.re * m, c.im * m⟩
/-- `value.real` -/
def real (c : GQ) : GQ := ⟨c.re, 0⟩
def ofRat (q : Rat) : GQ := ⟨q, 0⟩
end GQ

inductive Pauli where
  | X | Y | Z
deriving DecidableEq, Repr, Inhabited

/-- `PauliTerm`: `_ops` (qubit ↦ X/Y/Z, identities already dropped by the constructor) and a coefficient -/
structure Term where
  coeff : GQ
  ops : List (Nat × Pauli)
deriving DecidableEq, Repr, Inhabited

/-- `operator.terms` (a `PauliTerm` is the one-element list `[self]`) -/
abbrev Op := List Term

/-- `PauliTerm.is_constant`: `_ops == {}` -/
def Term.isConstant (t : Term) : Bool := t.ops.isEmpty
/-- `PauliTerm.is_ising`: `set(ops.values()) == {"Z"} or is_constant` -/
def Term.isIsing (t : Term) : Bool := t.ops.all (fun p => p.2 == Pauli.Z)
/-- `PauliTerm.qubits` -/
def Term.qubits (t : Term) : List Nat := t.ops.map (fun p => p.1)
/-- `is_constant`: no term, or every term constant -/
def Op.isConstant (o : Op) : Bool := o.all Term.isConstant
def Op.isIsing (o : Op) : Bool := o.all Term.isIsing
/-- `sum(term.coefficient for term in operator.terms)` (left to right from 0) -/
def Op.coeffSum (o : Op) : GQ := o.foldl (fun acc t => acc + t.coeff) 0
/-- `n_qubits`: 0 if constant else max(qubits)+1 -/
def Op.nQubits (o : Op) : Nat :=
  if o.isConstant then 0 else (o.flatMap Term.qubits).foldl (fun acc q => max acc (q + 1)) 0

/-- `EstimationTask` over an opaque circuit type -/
structure Task (C : Type) where
  op : Op
  circuit : C
  shots : Option Int
deriving Repr

/-- one measured bitstring (a tuple of 0/1), and the measurements of one circuit -/
abbrev Bits := List Nat
abbrev Shots := List Bits
/-- `ExpectationValues.values` -/
abbrev Vals := List GQ

/-- `mapM` in `Except` written out (a Python comprehension that may raise: first error wins) -/
def mapE {ε α β : Type} (f : α → Except ε β) : List α → Except ε (List β)
  | [] => .ok []
  | a :: as =>
    match f a with
    | .error e => .error e
    | .ok b =>
      match mapE f as with
      | .error e => .error e
      | .ok bs => .ok (b :: bs)

/-! ### evaluate_estimation_circuits -/

/-- `if len(symbols_maps) == 1: symbols_maps = list(symbols_maps) * len(estimation_tasks)` -/
def broadcastMaps {M : Type} (nTasks : Nat) (maps : List M) : List M :=
  match maps with
  | [m] => List.replicate nTasks m
  | _ => maps

/-- a single map is used for every task; any other length mismatch raises `ValueError`; then
    `[EstimationTask(t.operator, t.circuit.bind(m), t.number_of_shots) for t, m in zip(tasks, maps)]` -/
def evaluateCircuits {C M : Type} (bind : C → M → C) (tasks : List (Task C)) (maps : List M) :
    Except Err (List (Task C)) :=
  let maps' := broadcastMaps tasks.length maps
  if maps'.length ≠ tasks.length then .error .value
  else .ok ((tasks.zip maps').map
    (fun p => { op := p.1.op, circuit := bind p.1.circuit p.2, shots := p.1.shots }))

/-! ### split_estimation_tasks_to_measure -/

/-- `task.operator.is_constant or task.number_of_shots == 0` -/
def notMeasured {C : Type} (t : Task C) : Bool := t.op.isConstant || t.shots == some 0

structure Split (C : Type) where
  toMeasure : List (Task C)
  notToMeasure : List (Task C)
  idxMeasure : List Nat
  idxNot : List Nat

/-- the loop `for i, task in enumerate(estimation_tasks)` with its four `append`s; `i` is the counter -/
def splitLoop {C : Type} : List (Task C) → Nat → Split C → Split C
  | [], _, acc => acc
  | t :: ts, i, acc =>
    if notMeasured t then
      splitLoop ts (i + 1) { acc with notToMeasure := acc.notToMeasure ++ [t], idxNot := acc.idxNot ++ [i] }
    else
      splitLoop ts (i + 1) { acc with toMeasure := acc.toMeasure ++ [t], idxMeasure := acc.idxMeasure ++ [i] }

def splitTasks {C : Type} (tasks : List (Task C)) : Split C :=
  splitLoop tasks 0 ⟨[], [], [], []⟩

/-! ### evaluate_non_measured_estimation_tasks -/

def evalNonMeasured {C : Type} (t : Task C) : Except Err Vals :=
  if t.op.isConstant then .ok [t.op.coeffSum]
  else
    match t.shots with
    | some n => if n > 0 then .error .runtime else .ok [0]
    | none => .ok [0]

/-! ### Measurements.get_expectation_values (values only) -/

/-- `Counter(bitstrings)`: insertion-ordered dict -/
def bump : List (Bits × Nat) → Bits → List (Bits × Nat)
  | [], k => [(k, 1)]
  | (k', c) :: rest, k => if k' = k then (k', c + 1) :: rest else (k', c) :: bump rest k

/-- `get_counts()` -/
def tally (s : Shots) : List (Bits × Nat) := s.foldl bump []

/-- `check_parity_of_vector(...) * 2 - 1` for one bitstring: +1 on even parity of the marked qubits -/
def paritySign (qs : List Nat) (b : Bits) : Int :=
  if qs.isEmpty then 1
  else ((((qs.map (fun q => b.getD q 0)).sum + 1) % 2 : Nat) : Int) * 2 - 1

/-- `get_expectation_value_from_frequencies(marked_qubits, bitstring_frequencies)`.
    `[*bitstrings][0]` on an empty dict and a fancy index beyond the width raise `IndexError`. -/
def expFromFreq (qs : List Nat) (freq : List (Bits × Nat)) : Except Err Rat :=
  match freq with
  | [] => .error .index
  | (k0, _) :: _ =>
    if qs.any (fun q => decide (k0.length ≤ q)) then .error .index
    else
      let n : Nat := (freq.map (fun p => p.2)).sum
      .ok ((freq.map (fun p => (((p.2 : Int) * paritySign qs p.1 : Int) : Rat) / (n : Rat))).sum)

/-- values of `get_expectation_values(operator)`: `TypeError` unless Ising, then
    `coefficient * expectation` per term in term order -/
def getExpectationValues (op : Op) (shots : Shots) : Except Err Vals :=
  if op.isIsing then
    mapE (fun t => match expFromFreq t.qubits (tally shots) with
                   | .error e => .error e
                   | .ok m => .ok (t.coeff.smul m)) op
  else .error .type

/-- `expectation_values_to_real` on the values -/
def toReal (v : Vals) : Vals := v.map GQ.real

/-- one measured task: `expectation_values_to_real(measurements.get_expectation_values(operator))` -/
def measuredValue (op : Op) (shots : Shots) : Except Err Vals :=
  match getExpectationValues op shots with
  | .error e => .error e
  | .ok v => .ok (toReal v)

/-! ### estimate_expectation_values_by_averaging -/

/-- `for ex_val, final_index in zip(values, indices): full[final_index] = ex_val` -/
def writeBack (vals : List Vals) (idx : List Nat) (full : List (Option Vals)) : List (Option Vals) :=
  (vals.zip idx).foldl (fun acc p => acc.set p.2 (some p.1)) full

def estimateByAveraging {C : Type}
    (rb : List C → List (Option Int) → Except Err (List Shots))
    (tasks : List (Task C)) : Except Err (List (Option Vals)) :=
  let s := splitTasks tasks
  match mapE evalNonMeasured s.notToMeasure with
  | .error e => .error e
  | .ok nmVals =>
    let measured : Except Err (List Vals) :=
      if s.toMeasure.isEmpty then .ok []
      else
        match rb (s.toMeasure.map (fun t => t.circuit)) (s.toMeasure.map (fun t => t.shots)) with
        | .error e => .error e
        | .ok meas =>
          mapE (fun p => measuredValue p.1 p.2) ((s.toMeasure.map (fun t => t.op)).zip meas)
    match measured with
    | .error e => .error e
    | .ok mVals =>
      let full : List (Option Vals) :=
        List.replicate (s.notToMeasure.length + s.toMeasure.length) none
      .ok (writeBack mVals s.idxMeasure (writeBack nmVals s.idxNot full))

/-! ### calculate_exact_expectation_values -/

section exact
variable {K : Type}

/-- `numpy.dot(numpy.conjugate(state), operator * state)` -/
def expectation [Zero K] [Add K] [Mul K] [Conj K] (d : Nat) (A : Nat → Nat → K) (ψ : Nat → K) : K :=
  sumTo d (fun i => conj (ψ i) * sumTo d (fun j => A i j * ψ j))

/-- `runner.get_exact_expectation_values(circuit, operator)`:
    wavefunction, `get_sparse_operator(op, n_qubits)` (`ValueError` when the operator is wider than
    the state), `expectation(...)`, `.real`. -/
def exactValue {C : Type} [Zero K] [Add K] [Mul K] [Conj K]
    (wf : C → Except Err (Nat × (Nat → K))) (opMat : Op → Nat → Nat → Nat → K) (re : K → K)
    (t : Task C) : Except Err K :=
  match wf t.circuit with
  | .error e => .error e
  | .ok (n, ψ) =>
    if n < t.op.nQubits then .error .value
    else .ok (re (expectation (2 ^ n) (opMat t.op n) ψ))

/-- `[ExpectationValues(np.asarray([val])) for val in [...]]` -/
def exactValues {C : Type} [Zero K] [Add K] [Mul K] [Conj K]
    (wf : C → Except Err (Nat × (Nat → K))) (opMat : Op → Nat → Nat → Nat → K) (re : K → K)
    (tasks : List (Task C)) : Except Err (List (List K)) :=
  mapE (fun t => match exactValue wf opMat re t with
                 | .error e => .error e
                 | .ok v => .ok [v]) tasks

end exact

/-! ## Concrete instantiations run by the driver -/

/-- `BaseCircuitRunner.run_batch_and_measure` validation: `any(n <= 0 for n in samples)` –
    a `None` raises `TypeError` when reached, a non-positive count `ValueError`. -/
def validateShots : List (Option Int) → Except Err Unit
  | [] => .ok ()
  | none :: _ => .error .type
  | some n :: rest => if n ≤ 0 then .error .value else validateShots rest

/-- `[self.run_and_measure(c, n) for c, n in zip(batch, samples)]`, `k` = position in the batch -/
def runEach {C : Type} (run : Nat → C → Nat → Except Err Shots) : Nat → List (C × Option Int) → Except Err (List Shots)
  | _, [] => .ok []
  | k, (c, n) :: rest =>
    match run k c ((n.getD 0).toNat) with
    | .error e => .error e
    | .ok s =>
      match runEach run (k + 1) rest with
      | .error e => .error e
      | .ok ss => .ok (s :: ss)

def baseRunBatch {C : Type} (run : Nat → C → Nat → Except Err Shots)
    (cs : List C) (ns : List (Option Int)) : Except Err (List Shots) :=
  if ns.length ≠ cs.length then .error .value
  else
    match validateShots ns with
    | .error e => .error e
    | .ok () => runEach run 0 (cs.zip ns)

/-- gate parameter `const + Σ coeff·symbol` -/
structure LinForm where
  const : Rat
  terms : List (String × Rat)
deriving Repr, Inhabited

def lookupSym (m : List (String × Rat)) (s : String) : Option Rat :=
  (m.find? (fun p => p.1 == s)).map (fun p => p.2)

/-- substitution of the symbols present in the map; the others stay -/
def LinForm.bind (f : LinForm) (m : List (String × Rat)) : LinForm :=
  { const := f.terms.foldl (fun acc p => match lookupSym m p.1 with
                                          | some v => acc + p.2 * v
                                          | none => acc) f.const,
    terms := f.terms.filter (fun p => (lookupSym m p.1).isNone) }

structure Gate where
  name : String
  qubit : Nat
  param : Option LinForm
deriving Repr, Inhabited

/-- a circuit of one-qubit gates on `n` qubits -/
structure Circ where
  n : Nat
  gates : List Gate
deriving Repr, Inhabited

/-- `Circuit.bind(symbols_map)`: every gate parameter is substituted -/
def Circ.bind (c : Circ) (m : List (String × Rat)) : Circ :=
  { n := c.n, gates := c.gates.map (fun g => { g with param := g.param.map (fun f => f.bind m) }) }

/-- `circuit.free_symbols` non-empty -/
def Circ.hasFree (c : Circ) : Bool :=
  c.gates.any (fun g => match g.param with
                        | some f => !f.terms.isEmpty
                        | none => false)

/-- 2×2 matrices of the fixed one-qubit gates over ℚ(ζ₈): (m00, m01, m10, m11) -/
def gateMatrix (name : String) : Option (Cyc8 × Cyc8 × Cyc8 × Cyc8) :=
  match name with
  | "I" => some (1, 0, 0, 1)
  | "X" => some (0, 1, 1, 0)
  | "Y" => some (0, -Cyc8.I, Cyc8.I, 0)
  | "Z" => some (1, 0, 0, -1)
  | "H" => some (Cyc8.rsqrt2, Cyc8.rsqrt2, Cyc8.rsqrt2, -Cyc8.rsqrt2)
  | "S" => some (1, 0, 0, Cyc8.I)
  | "T" => some (1, 0, 0, Cyc8.zeta)
  | _ => none

/-- state of qubit `q` after the circuit's gates on it, from |0⟩; `none` for an unsupported gate -/
def qubitState (c : Circ) (q : Nat) : Option (Cyc8 × Cyc8) :=
  c.gates.foldl (fun st g =>
    match st with
    | none => none
    | some (a, b) =>
      if g.qubit = q then
        match gateMatrix g.name with
        | some (m00, m01, m10, m11) => some (m00 * a + m01 * b, m10 * a + m11 * b)
        | none => none
      else some (a, b)) (some (1, 0))

/-- bit of qubit `q` in basis index `i` of `n` qubits – qubit 0 is the most significant bit -/
def bitAt (n q i : Nat) : Nat := (i / 2 ^ (n - 1 - q)) % 2

/-- product-state wavefunction: amplitude(i) = Π_q state_q[bit_q(i)] -/
def productState (c : Circ) : Except Err (Nat × (Nat → Cyc8)) :=
  if c.hasFree then .error .type
  else
    let sts := (List.range c.n).map (fun q => qubitState c q)
    if sts.any (fun s => s.isNone) || c.gates.any (fun g => decide (c.n ≤ g.qubit)) then .error .runtime
    else
      .ok (c.n, fun i =>
        (List.range c.n).foldl (fun acc q =>
          match sts.getD q none with
          | some (a, b) => acc * (if bitAt c.n q i = 0 then a else b)
          | none => acc) 1)

/-- the bitstring the circuit prepares when every qubit is in a definite basis state -/
def definiteBits (c : Circ) : Option Bits :=
  (List.range c.n).foldr (fun q acc =>
    match acc, qubitState c q with
    | some bs, some (a, b) =>
      if b = 0 then some (0 :: bs) else if a = 0 then some (1 :: bs) else none
    | _, _ => none) (some [])

/-- `BaseWavefunctionSimulator._run_and_measure` for the `k`-th circuit of the batch: unbound symbols
    raise `ValueError`; a basis state yields `n` copies of its bitstring (law of `rng.choice`: never
    an outcome of probability 0, exactly `n` draws); otherwise the draws the real sampler made are
    supplied (`recorded`). -/
def simRun (recorded : List Shots) (k : Nat) (c : Circ) (n : Nat) : Except Err Shots :=
  if c.hasFree then .error .value
  else
    match definiteBits c with
    | some b => .ok (List.replicate n b)
    | none => .ok (recorded.getD k [])

/-! The operator matrix, written once over any scalar type `K` (run at `K = Cyc8`, reasoned about at
    any commutative ring); `iu` is the imaginary unit, `ofGQ` embeds the Gaussian coefficients. -/
section pauli
variable {K : Type} [Zero K] [One K] [Add K] [Mul K] [Neg K]

/-- Pauli 2×2 entries -/
def pauliEntry (iu : K) (p : Pauli) (r c : Nat) : K :=
  match p, r, c with
  | .X, 0, 1 => 1 | .X, 1, 0 => 1
  | .Y, 0, 1 => -iu | .Y, 1, 0 => iu
  | .Z, 0, 0 => 1 | .Z, 1, 1 => -1
  | _, _, _ => 0

def lookupOp (ops : List (Nat × Pauli)) (q : Nat) : Option Pauli :=
  (ops.find? (fun p => p.1 == q)).map (fun p => p.2)

/-- the tensor factor of qubit `q`: its Pauli's entry, or the identity's -/
def qubitFactor (iu : K) (ops : List (Nat × Pauli)) (n i j q : Nat) : K :=
  match lookupOp ops q with
  | some p => pauliEntry iu p (bitAt n q i) (bitAt n q j)
  | none => if bitAt n q i = bitAt n q j then 1 else 0

/-- entry (i, j) of `coeff · ⊗_q P_q` on `n` qubits (qubit 0 leftmost = most significant) – the
    matrix `get_sparse_operator` denotes -/
def termEntry (iu : K) (ofGQ : GQ → K) (t : Term) (n i j : Nat) : K :=
  (List.range n).foldl (fun acc q => acc * qubitFactor iu t.ops n i j q) (ofGQ t.coeff)

def opMatrix (iu : K) (ofGQ : GQ → K) (o : Op) (n i j : Nat) : K :=
  o.foldl (fun acc t => acc + termEntry iu ofGQ t n i j) 0

end pauli

/-- the embedding of the coefficients into ℚ(ζ₈) used by the driver -/
def cycOfGQ (c : GQ) : Cyc8 := Cyc8.ofReIm c.re c.im

/-- real part of an element of ℚ(ζ₈): Re ζ = √2/2 = (ζ − ζ³)/2 -/
def cycRe (x : Cyc8) : Cyc8 := ⟨x.a, (x.b - x.d) / 2, 0, (x.d - x.b) / 2⟩

end OQ.C15
