/-
  C04 — every view of a simulated state agrees on which qubit is which (Mathlib-free executable model).
  Mirrors  Wavefunction.get_probabilities / get_outcome_probs / sample_from_wavefunction   (wavefunction.py)
           bitstring_to_tuple / tuple_to_bitstring                                         (utils.py)
           create_bitstring_distribution_from_probability_distribution                     (distributions/…)
           Measurements.get_counts / get_expectation_values,
           get_expectation_value_from_frequencies, check_parity_of_vector                   (measurements/…)
           get_expectation_value / expectation  (operators/_utils.py, sparse_tools.py; the sparse operator
                                                 is the Kronecker matrix `Pauli.PSum.denote`, qubit 0 leftmost)
           BaseWavefunctionSimulator.get_wavefunction / run_and_measure / get_exact_expectation_values.
  A bitstring (Python `str` of '0'/'1') and a measured tuple are both lists of digit values; which of the
  two an object is, is said by the function that produces it.  The random draw of `rng.choice` is replaced by the
  list `draws` of the indices (into the array `a` handed to `rng.choice`) that were drawn.
-/
import OQ.Exec.Scal
import OQ.Model.Lift
import OQ.Model.Pauli
namespace OQ.C04
open OQ.Pauli

/-- the exceptions of the modelled code (`draw`: the draw list is not something `rng.choice(a, size=n, p)`
    can return – wrong length, an index outside `a`, or the probability-0 sentinel) -/
inductive Err | value | type | index | draw
deriving DecidableEq, Repr, Inhabited

def Err.toString : Err → String
  | .value => "err:value" | .type => "err:type" | .index => "err:index" | .draw => "err:draw"

/-! ### binary strings -/

/-- bit `q` (qubit 0 = most significant) of `k` in a register of `n` bits -/
def bit (n k q : Nat) : Nat := (k / 2 ^ (n - 1 - q)) % 2

/-- the `n` bits of `k`, most significant first -/
def bits (n k : Nat) : List Nat := (List.range n).map (bit n k)

/-- `bin(i)[2:]`: binary digits without leading zeros, `"0"` for 0 (fuel ≥ i suffices) -/
def binDigitsFuel : Nat → Nat → List Nat
  | 0, i => [i % 2]
  | f + 1, i => if i < 2 then [i] else binDigitsFuel f (i / 2) ++ [i % 2]

def binDigits (i : Nat) : List Nat := binDigitsFuel i i

/-- `format(i, "0" + str(n) + "b")`: the binary digits of `i`, left-padded with zeros to width `n`
    (never truncated: `format(0, "00b") = "0"`). -/
def formatBin (n i : Nat) : List Nat :=
  let d := binDigits i
  List.replicate (n - d.length) 0 ++ d

/-- `bitstring_to_tuple`: `tuple(int(bit) for bit in bitstring[::-1])` -/
def bitstringToTuple (s : List Nat) : List Nat := s.reverse

/-- `tuple_to_bitstring`: `"".join(map(str, tup))` -/
def tupleToBitstring (t : List Nat) : List Nat := t

/-- `itertools.product([0, 1], repeat=n)` in generation order -/
def product01 : Nat → List (List Nat)
  | 0 => [[]]
  | n + 1 => (product01 n).flatMap (fun p => [p ++ [0], p ++ [1]])

section
variable {R : Type} [Zero R] [One R] [Add R] [Mul R] [Neg R]

/-! ### Wavefunction -/

/-- `np.abs(a) ** 2` -/
def normSq (k : Scal R) (a : R) : R := a * k.cj a

/-- `Wavefunction.get_probabilities` -/
def getProbabilities (k : Scal R) (amps : List R) : List R := amps.map (normSq k)

/-- `Wavefunction.__init__`: the length must be a power of two and the total probability must be
    (close to) one – `isOne` is the abstract closeness test (`np.isclose(·, 1.0)`). -/
def mkWavefunction (k : Scal R) (isOne : R → Bool) (amps : List R) : Except Err (List R) :=
  match Lift.log2Exact amps.length with
  | none => .error .value
  | some _ => if isOne ((getProbabilities k amps).foldl (· + ·) 0) then .ok amps else .error .value

/-- `Wavefunction.get_outcome_probs`: `dict(zip(values, probs))`, the key of basis index `i` is
    `format(i, "0nb")[::-1][:n]`, `n = int(log2(len))` – the slice only matters for width 0, where `format`
    still prints one digit.  (The keys are distinct, so the dict keeps them all, in this order.) -/
def getOutcomeProbs (k : Scal R) (amps : List R) : List (List Nat × R) :=
  let n := Nat.log2 amps.length
  let values := (List.range amps.length).map (fun i => ((formatBin n i).reverse).take n)
  values.zip (getProbabilities k amps)

/-- `create_bitstring_distribution_from_probability_distribution`: keys in `itertools.product` order
    zipped with the probabilities (`zip` stops at the shorter).  On a normalised vector the
    `MeasurementOutcomeDistribution` constructor stores this dict unchanged. -/
def createDistribution (probs : List R) : List (List Nat × R) :=
  (product01 (Nat.log2 probs.length)).zip probs

/-- `get_measurement_outcome_distribution(circuit, None)` on the circuit's wavefunction -/
def exactDistribution (k : Scal R) (amps : List R) : List (List Nat × R) :=
  createDistribution (getProbabilities k amps)

/-! ### sampling -/

/-- an element of the array handed to `rng.choice` in the many-samples branch: a tuple, or the
    integer `0` appended "to force rng.choice to return tuples" -/
inductive Drawn | tuple (t : List Nat) | sentinel
deriving DecidableEq, Repr, Inhabited

/-- branch `len(wavefunction) < n_samples`: every key is converted first, the sentinel appended,
    then the draw indexes the array of tuples.  `none`: an index outside the array. -/
def sampleBranchLarge (strings : List (List Nat)) (draws : List Nat) : Option (List Drawn) :=
  let outcomeTuples := strings.map (fun s => Drawn.tuple (bitstringToTuple s)) ++ [Drawn.sentinel]
  draws.mapM (fun i => outcomeTuples[i]?)

/-- other branch: the draw indexes the key strings, each drawn string is converted afterwards -/
def sampleBranchSmall (strings : List (List Nat)) (draws : List Nat) : Option (List Drawn) :=
  (draws.mapM (fun i => strings[i]?)).map (fun ss => ss.map (fun s => Drawn.tuple (bitstringToTuple s)))

/-- `sample_from_wavefunction(wavefunction, n_samples, seed)`; `draws` = what `rng.choice` drew -/
def sampleFromWavefunction (k : Scal R) (amps : List R) (nSamples : Int) (draws : List Nat) :
    Except Err (List Drawn) :=
  if nSamples < 1 then .error .value
  else if (draws.length : Int) ≠ nSamples then .error .draw
  else
    let strings := (getOutcomeProbs k amps).map (·.1)
    let r := if (amps.length : Int) < nSamples then sampleBranchLarge strings draws
             else sampleBranchSmall strings draws
    match r with
    | none => .error .draw
    | some l => .ok l

/-- `run_and_measure(circuit, n).bitstrings` given the circuit's wavefunction.  A drawn sentinel
    (probability 0 – excluded by the law of `rng.choice`) is reported as `Err.draw`. -/
def runAndMeasure (k : Scal R) (amps : List R) (nSamples : Int) (draws : List Nat) :
    Except Err (List (List Nat)) :=
  if nSamples ≤ 0 then .error .value
  else match sampleFromWavefunction k amps nSamples draws with
    | .error e => .error e
    | .ok l => l.mapM (fun d => match d with
        | .tuple t => .ok t
        | .sentinel => .error .draw)

/-! ### counts and expectation values from measurements -/

/-- a `Counter` / dict from bitstring to count, in insertion order -/
abbrev Counts := List (List Nat × Nat)

def Counts.bump : Counts → List Nat → Counts
  | [], s => [(s, 1)]
  | (s', c) :: rest, s => if s' == s then (s', c + 1) :: rest else (s', c) :: Counts.bump rest s

def Counts.get : Counts → List Nat → Nat
  | [], _ => 0
  | (s', c) :: rest, s => if s' == s then c else Counts.get rest s

/-- `Measurements.get_counts`: `dict(Counter(convert_tuples_to_bitstrings(self.bitstrings)))` -/
def getCounts (shots : List (List Nat)) : Counts :=
  shots.foldl (fun acc t => Counts.bump acc (tupleToBitstring t)) []

/-- `Measurements.get_distribution`: `counts[bitstring] / len(self.bitstrings)` per count string, in the order of
    `get_counts` (on a normalised dict the `MeasurementOutcomeDistribution` constructor keeps keys, order and values;
    the keys are stored as tuples of the digits). -/
def getDistribution (shots : List (List Nat)) : List (List Nat × Rat) :=
  (getCounts shots).map (fun p => (p.1, (p.2 : Rat) / (shots.length : Rat)))

/-- one row of `check_parity_of_vector`: `1` iff an even number of the marked positions hold a 1;
    `none` = `IndexError` (a marked position beyond the row). -/
def parityEven (marked : List Nat) (row : List Nat) : Option Nat :=
  if marked.isEmpty then some 1
  else (marked.mapM (fun q => row[q]?)).map (fun l => (l.sum + 1) % 2)

/-- `parity * 2 - 1`: the eigenvalue ±1 of the product of Z on the marked qubits -/
def paritySign (marked : List Nat) (row : List Nat) : Option Int :=
  (parityEven marked row).map (fun p => (p : Int) * 2 - 1)

/-- `get_expectation_value_from_frequencies(marked_qubits, bitstring_frequencies)`.
    Empty dict → `IndexError`; a marked qubit beyond the width → `IndexError`; keys of width 0 (shots of the
    empty register) → `ValueError`: `_convert_bitstrings_to_vector` does `reshape(-1, 0)`.  Keys of unequal length
    (never produced by `get_counts` of equal-length tuples) are outside the modelled domain: the reshape /
    broadcast of the code fails for most such dicts, the model reports `Err.value` for all of them. -/
def expectationFromFrequencies (marked : List Nat) (freqs : Counts) : Except Err Rat :=
  match freqs with
  | [] => .error .index
  | (first, _) :: _ =>
    if first.length = 0 then .error .value
    else if !(freqs.all (fun p => p.1.length == first.length)) then .error .value
    else match freqs.mapM (fun p => paritySign marked p.1) with
      | none => .error .index
      | some signs =>
        let total : Nat := (freqs.map (·.2)).sum
        .ok (((freqs.zip signs).map (fun p => ((p.1.2 : Int) * p.2 : Int) / (total : Rat))).sum)

/-- `term.is_ising` for every term (a constant term is Ising) -/
def isIsing (op : PSum R) : Bool := op.all (fun t => t.ops.all (fun p => p.2 == P.Z))

/-- `term.qubits` -/
def termQubits (t : Term R) : List Nat := t.ops.map (·.1)

/-- `Measurements.get_expectation_values(op).values`: `coefficient * expectation_from_frequencies` per term -/
def measuredExpectationValues (ofRat : Rat → R) (op : PSum R) (shots : List (List Nat)) :
    Except Err (List R) :=
  if !isIsing op then .error .type
  else
    let freqs := getCounts shots
    op.mapM (fun t => (expectationFromFrequencies (termQubits t) freqs).map (fun e => t.coeff * ofRat e))

/-! ### exact expectation value -/

/-- `numpy.dot(numpy.conjugate(state), operator * state)` -/
def expectation (k : Scal R) (S : Mat R) (amps : List R) : R :=
  let d := amps.length
  sumTo d (fun i => k.cj (amps.getD i 0) * sumTo d (fun j => S.get i j * amps.getD j 0))

/-- `get_expectation_value(op, wavefunction)`: `n = len.bit_length() - 1`; the sparse operator on `n`
    qubits is the Kronecker matrix of the sum (`ValueError` if the operator needs more qubits). -/
def getExpectationValue (k : Scal R) (op : PSum R) (amps : List R) : Except Err R :=
  let n := Nat.log2 amps.length
  if n < PSum.nQubits op then .error .value
  else .ok (expectation k (PSum.denote k n op) amps)

/-! ### the wavefunction of a circuit -/

/-- `state = np.zeros(2**n); state[0] = 1` as a column -/
def zeroState (n : Nat) : Mat R := Mat.ofFn (2 ^ n) 1 (fun i _ => if i = 0 then 1 else 0)

/-- `SymbolicSimulator.get_wavefunction(circuit)`: every operation applied in program order to |0…0⟩
    (`none`: an operation could not be lifted), then `Wavefunction(state)`. -/
def circuitWavefunction (k : Scal R) (isOne : R → Bool) (declared : Nat) (ops : List (Lift.Op R)) :
    Option (Except Err (List R)) :=
  let n := Lift.nQubits declared ops
  (Lift.applyAll ops (zeroState n)).map (fun v =>
    mkWavefunction k isOne ((List.range v.r).map (fun i => v.get i 0)))

end
end OQ.C04
