/-
  Pauli terms and sums as DATA (shared by C03, C04, C09, C10, C11, C15, C16) and the matrix a
  term / sum denotes – the executable form of "tensor product of 2×2 Pauli matrices, qubit 0
  leftmost, times the coefficient".  Mathlib-free.
-/
import OQ.Exec.Scal
namespace OQ.Pauli

inductive P | X | Y | Z
deriving DecidableEq, Repr, Inhabited

def P.toString : P → String
  | .X => "X" | .Y => "Y" | .Z => "Z"
def P.ofString? : String → Option P
  | "X" => some .X | "Y" => some .Y | "Z" => some .Z | _ => none

/-- `PauliTerm`: `_ops` is a Python dict (insertion ordered, distinct keys, no identities). -/
structure Term (R : Type) where
  ops : List (Nat × P)
  coeff : R
deriving Repr, Inhabited

/-- `PauliSum.terms` -/
abbrev PSum (R : Type) := List (Term R)

variable {R : Type} [Zero R] [One R] [Add R] [Mul R] [Neg R]

def pauliMat (k : Scal R) : Option P → Mat R
  | none => Mat.ofLists [[1, 0], [0, 1]]
  | some .X => Mat.ofLists [[0, 1], [1, 0]]
  | some .Y => Mat.ofLists [[0, -k.i], [k.i, 0]]
  | some .Z => Mat.ofLists [[1, 0], [0, -1]]

def Term.opAt (t : Term R) (q : Nat) : Option P := (t.ops.find? (fun p => p.1 == q)).map (·.2)

/-- `term.n_qubits`: 0 for a constant, else 1 + largest index -/
def Term.nQubits (t : Term R) : Nat := t.ops.foldl (fun acc p => max acc (p.1 + 1)) 0
def PSum.nQubits (s : PSum R) : Nat := s.foldl (fun acc t => max acc t.nQubits) 0

/-- σ_{q=0} ⊗ σ_{q=1} ⊗ … ⊗ σ_{q=n−1} (left fold of `kron`, starting from the 1×1 identity) -/
def stringMatrix (k : Scal R) (n : Nat) (at_ : Nat → Option P) : Mat R :=
  (List.range n).foldl (fun acc q => Mat.kron acc (pauliMat k (at_ q))) (Mat.identity 1)

/-- the matrix a term denotes on `n` qubits -/
def Term.denote (k : Scal R) (n : Nat) (t : Term R) : Mat R :=
  Mat.smul t.coeff (stringMatrix k n t.opAt)

/-- the matrix a sum denotes on `n` qubits (the empty sum denotes 0) -/
def PSum.denote (k : Scal R) (n : Nat) (s : PSum R) : Mat R :=
  s.foldl (fun acc t => Mat.add acc (t.denote k n)) (Mat.ofFn (2 ^ n) (2 ^ n) (fun _ _ => 0))

end OQ.Pauli
