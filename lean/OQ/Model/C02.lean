/-
  C02 — the built-in gate table and what `MatrixFactoryGate` does with it (Mathlib-free executable model).
  Mirrors  src/orquestra/quantum/circuits/_builtin_gates.py  (table: name, factory, num_qubits, is_hermitian)
           src/orquestra/quantum/circuits/_gates.py          (`MatrixFactoryGate.matrix`, `.dagger`, `Dagger.matrix`)
  The 27 closed-form matrix factories of `_matrices.py` are `OQ.Gates.*` (OQ/Model/Gates.lean).
  The table itself is NOT written here: it is a parameter, instantiated by the driver and by the theorems
  with `OQ.Generated.gateTable`, which is re-extracted from the live Python module on every run.
-/
import OQ.Model.Gates
namespace OQ.C02

/-- one row of the gate table: (name, num_qubits, number of parameters of the matrix factory, is_hermitian) -/
abbrev Row := String × Nat × Nat × Bool
def Row.name (r : Row) : String := r.1
def Row.numQubits (r : Row) : Nat := r.2.1
def Row.numParams (r : Row) : Nat := r.2.2.1
def Row.isHermitian (r : Row) : Bool := r.2.2.2

/-- the errors the real code raises -/
inductive Err where
  /-- `builtin_gate_by_name(name)` : KeyError -/
  | key
  /-- `matrix_factory(*params)` with a wrong number of parameters : TypeError -/
  | type
deriving DecidableEq, Repr

/-- `builtin_gate_by_name`: look the name up in the module table -/
def lookup (tbl : List Row) (name : String) : Option Row := tbl.find? (fun r => r.1 == name)

variable {R : Type} [Zero R] [One R] [Add R] [Mul R] [Neg R]

/-- `<gate>.matrix` = `self.matrix_factory(*self.params)`.  The prototype does not check the number of
    parameters (see the TODO in `make_parametric_gate_prototype`); the call of the factory does. -/
def gateMatrix (tbl : List Row) (k : Scal R) (name : String) (ps : List (Ang R)) : Except Err (Mat R) :=
  match lookup tbl name with
  | none => .error .key
  | some row =>
    if ps.length ≠ row.numParams then .error .type
    else match Gates.builtinMatrix k name ps with
      | some m => .ok m
      | none => .error .key

/-- `<gate>.num_qubits` -/
def numQubits (tbl : List Row) (name : String) : Option Nat := (lookup tbl name).map Row.numQubits
/-- `<gate>.is_hermitian` -/
def isHermitian (tbl : List Row) (name : String) : Option Bool := (lookup tbl name).map Row.isHermitian

/-- `<gate>.dagger is <gate>`  —  `return self if self.is_hermitian else Dagger(self)` -/
def daggerIsSelf (tbl : List Row) (name : String) : Option Bool := isHermitian tbl name

/-- `<gate>.dagger.matrix`: the gate's own matrix when flagged, `Dagger(self).matrix = self.matrix.adjoint()` otherwise -/
def daggerMatrix [Conj R] (tbl : List Row) (k : Scal R) (name : String) (ps : List (Ang R)) : Except Err (Mat R) :=
  match gateMatrix tbl k name ps, isHermitian tbl name with
  | .ok m, some true => .ok m
  | .ok m, _ => .ok m.adjoint
  | .error e, _ => .error e

end OQ.C02
