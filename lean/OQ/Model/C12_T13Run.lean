/-
  C12 / T13 — histories through the TRANSLATED `Wavefunction` methods (`OQ.Generated.Wf.*`, regenerated from /repo on every run) over the
  model's numpy / sympy stand-ins `modelExt` (OQ/Model/C12_T13.lean).  Mathlib-free: the driver glue runs these against the real class;
  the tie theorems of OQ/Props/C12_TranslatedWf.lean are about them.  (This file does not build when a method has left the translatable
  subset – the generated glue then leaves it out, so that the driver still builds.)
-/
import OQ.Model.C12_T13
namespace OQ.C12.T13
open OQ.Generated OQ.PyT

def errBack : Exc → Err
  | .TypeError => .type
  | .IndexError => .index
  | _ => .value

/-- the translated operation an `Op` of the model is, over any externals `ext` (`flip`: `flip_wavefunction`; `reload` – save + load through a
    JSON file – is not translated: the model's step) -/
def trStep (ext : MExt) (close : Rat → Bool) (s : Store) (op : Op) : Store × Outcome :=
  match op with
  | .setInt i val =>
    match Wf.setitem ext ⟨s⟩ (.int i) (.scalar val) with
    | (st, .ok _) => (st._amplitude_vector, .ok)
    | (st, .error e) => (st._amplitude_vector, .err (errBack e))
  | .setSlice a b val =>
    match Wf.setitem ext ⟨s⟩ (.slice a b) val with
    | (st, .ok _) => (st._amplitude_vector, .ok)
    | (st, .error e) => (st._amplitude_vector, .err (errBack e))
  | .bind m =>
    match Wf.bind ext ⟨s⟩ m with
    | .ok st => (st._amplitude_vector, .ok)
    | .error e => (s, .err (errBack e))
  | .flip =>
    match Wf.flip_wavefunction ext ⟨s⟩ with
    | .ok st => (st._amplitude_vector, .ok)
    | .error e => (s, .err (errBack e))
  | .reload => step close s op

/-- a whole history through the TRANSLATED methods -/
def trTrace (ext : MExt) (close : Rat → Bool) : Store → List Op → List (Store × Outcome)
  | _, [] => []
  | s, op :: ops => let r := trStep ext close s op; r :: trTrace ext close r.1 ops

def trRun (ext : MExt) (close : Rat → Bool) (s : Store) (ops : List Op) : Store :=
  ops.foldl (fun s op => (trStep ext close s op).1) s

/-- `Wavefunction(vec)` through the translated `__init__` -/
def trConstruct (ext : MExt) (col : Bool) (v : List Lin) : Except Err Store :=
  match Wf.init ext (col, v) with
  | .ok st => .ok st._amplitude_vector
  | .error e => .error (errBack e)

/-- `get_probabilities()` through the translated method (`none`: symbolic, or it raised) -/
def trProbabilities (ext : MExt) (s : Store) : Option (List Rat) :=
  match Wf.get_probabilities ext ⟨s⟩ with
  | .ok a => a
  | .error _ => none

end OQ.C12.T13
