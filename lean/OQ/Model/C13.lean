/-
  C13 — splitting, batching and recombining shots (Mathlib-free executable model).
  Mirrors  src/orquestra/quantum/circuits/_itertools.py,
           Measurements.get_measurements_representing_distribution (measurements.py),
           scale_and_discretize (utils.py).
-/
namespace OQ.C13

/-- `_expand_sample_size(n, m)`: `-(-n // m)` full chunks (the last one the remainder).
    Python `//` and `%` on ints with a positive divisor are Lean's `Int` `/` and `%`. -/
def expandSampleSize (n m : Int) : List Int × Int :=
  let mult := -((-n) / m)
  if n % m = 0 then (List.replicate mult.toNat m, mult)
  else (List.replicate (mult - 1).toNat m ++ [n % m], mult)

/-- `expand_sample_sizes(circuits, n_samples_per_circuit, max)`; circuits are opaque labels. -/
def expandSampleSizes {α : Type} (circuits : List α) (ns : List Int) (m : Int) :
    List α × List Int × List Int :=
  let nm := ns.map (fun n => expandSampleSize n m)
  let newNs := nm.flatMap (fun p => p.1)
  let mults := nm.map (fun p => p.2)
  let newCs := (circuits.zip mults).flatMap (fun p => List.replicate p.2.toNat p.1)
  (newCs, newNs, mults)

/-- `[f(islice(it, k)) for k in mults]` – consume the list group by group. -/
def regroup {α : Type} : List α → List Nat → List (List α)
  | _, [] => []
  | xs, k :: ks => xs.take k :: regroup (xs.drop k) ks

/-- `combine_bitstrings`: `none` models the `ValueError` on a length mismatch. -/
def combineBitstrings {α : Type} (all : List (List α)) (mults : List Nat) : Option (List (List α)) :=
  if all.length ≠ mults.sum then none
  else some ((regroup all mults).map (fun g => g.flatten))

/-- a `Counter`/dict as an insertion-ordered association list -/
abbrev Counts := List (String × Nat)

def Counts.get : Counts → String → Nat
  | [], _ => 0
  | (k', v) :: rest, k => if k' == k then v else Counts.get rest k

/-- `result[k] += v` on a Counter -/
def Counts.bump : Counts → String → Nat → Counts
  | [], k, v => [(k, v)]
  | (k', v') :: rest, k, v => if k' == k then (k', v' + v) :: rest else (k', v') :: Counts.bump rest k v

/-- `_combine_measurements(first, second)` -/
def combineTwo (first second : Counts) : Counts :=
  second.foldl (fun acc p => Counts.bump acc p.1 p.2) first

def Counts.total (c : Counts) : Nat := (c.map (fun p => p.2)).sum

/-- `reduce(_combine_measurements, group)`; `reduce` of an empty group raises (`none`). -/
def reduceCombine : List Counts → Option Counts
  | [] => none
  | g :: gs => some (gs.foldl combineTwo g)

def combineCounts (all : List Counts) (mults : List Nat) : Option (List Counts) :=
  if all.length ≠ mults.sum then none
  else (regroup all mults).mapM reduceCombine

/-- `_iterate_in_batches(items, k)` -/
def chunks {α : Type} (k : Nat) : (fuel : Nat) → List α → List (List α)
  | 0, _ => []
  | _, [] => []
  | f + 1, xs => xs.take k :: chunks k f (xs.drop k)

def listMax : List Int → Int
  | [] => 0
  | x :: xs => xs.foldl max x

/-- `split_into_batches`; `none` = `ValueError`. -/
def splitIntoBatches {α : Type} (circuits : List α) (ns : List Int) (maxBatch : Int) :
    Option (List (List α × Int)) :=
  if circuits.length ≠ ns.length then none
  else if maxBatch ≤ 0 then none
  else
    let k := maxBatch.toNat
    some ((chunks k circuits.length circuits).zip ((chunks k ns.length ns).map listMax))

/-! ### scale_and_discretize (exact arithmetic; the tie order of `argsort` is a parameter) -/

def ratFloor (q : Rat) : Int := q.floor

/-- floors of the proportional shares -/
def shareFloors (values : List Rat) (total : Int) : List Int :=
  let s := values.sum
  values.map (fun v => ratFloor (v * (total / s)))

def shareRemainders (values : List Rat) (total : Int) : List Rat :=
  let s := values.sum
  values.map (fun v => v * (total / s) - (ratFloor (v * (total / s)) : Rat))

def bumpAt : List Int → Nat → List Int
  | [], _ => []
  | x :: xs, 0 => (x + 1) :: xs
  | x :: xs, i + 1 => x :: bumpAt xs i

/-- `for index in range(k): result[order[index]] += 1` -/
def scaleAndDiscretize (values : List Rat) (total : Int) (order : List Nat) : List Int :=
  let floors := shareFloors values total
  let k := (total - floors.sum).toNat
  (order.take k).foldl bumpAt floors

/-! ### get_measurements_representing_distribution -/

/-- Python `round` on an exact value: half to even -/
def roundHalfEven (q : Rat) : Int :=
  let f := q.floor
  let r := q - (f : Rat)
  if r < 1/2 then f else if 1/2 < r then f + 1 else if f % 2 = 0 then f else f + 1

/-- the rounding stage: `[key] * int(round(p * n))` for each entry in dict order -/
def roundedSamples {α : Type} (dist : List (α × Rat)) (n : Int) : List α :=
  dist.flatMap (fun p => List.replicate (roundHalfEven (p.2 * n)).toNat p.1)

/-- the whole construction; `extra` is what the random top-up / elimination stage drew
    (a Counter: outcome, multiplicity), exactly `|n − len|` draws in total by the law of
    `np.random.choice(size=…)`.  `bitstring_samples.remove(x)` is `List.erase`. -/
def representing {α : Type} [BEq α] (dist : List (α × Rat)) (n : Int) (extra : List (α × Nat)) : List α :=
  let base := roundedSamples dist n
  if (base.length : Int) = n then base
  else if (base.length : Int) < n then
    base ++ extra.flatMap (fun p => List.replicate p.2 p.1)
  else
    extra.foldl (fun acc p => (List.range p.2).foldl (fun a _ => a.erase p.1) acc) base

end OQ.C13
