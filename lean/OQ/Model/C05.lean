/-
  C05 — circuits survive JSON serialisation (Mathlib-free executable model).
  Mirrors  src/orquestra/quantum/circuits/_serde.py   (to_dict per gate kind, the name-driven
                                                        deserialiser, _make_symbols_map),
           src/orquestra/quantum/circuits/_gates.py   (`name` of every gate kind, constructor checks),
           src/orquestra/quantum/circuits/_circuit.py (collect_custom_gate_definitions, Circuit.__init__),
           src/orquestra/quantum/circuits/_builtin_gates.py (`globals()[name]`, generated table).

  Python `str` values are lists of code points (`Name`).  A dictionary is a record whose optional
  keys are `Option`s; "key absent" and "empty list" coincide wherever the code reads with
  `.get(key, [])` / truthiness and writes the key only when the list is non-empty.
  `str(expr)` / `sympy.sympify(text, locals=…)` are parameters (`Codec`); everything else is code.
-/
import OQ.Generated.SerdeTable
namespace OQ.C05

abbrev Name := List Char

/-- the exceptions the deserialiser can end with -/
inductive Err
  | key      -- KeyError
  | value    -- ValueError
  | type     -- TypeError
  | junk     -- no exception, but the object returned is not a gate (a module global that is no gate,
             -- a factory function returned uncalled, a gate object "called" with parameters)
  deriving DecidableEq, Repr

deriving instance DecidableEq for Except

/-! ### the namespace `builtin_gate_by_name` looks into, and the wrapper markers -/

structure GateInfo where
  key : Name          -- the global name
  gateName : Name     -- `.name` of the gate the global builds
  numQubits : Nat
  nParams : Nat
  hermitian : Bool
  prototype : Bool    -- a factory function (called with the parameters) rather than a gate object
  deriving DecidableEq, Repr

structure Env where
  gates : List GateInfo
  others : List Name
  control : Name        -- CONTROLLED_GATE_NAME
  dagger : Name         -- DAGGER_GATE_NAME
  exponential : Name    -- EXPONENTIAL_GATE_NAME
  power : Name          -- POWER_GATE_SYMBOL
  deriving Repr

/-- the environment extracted from the code under test -/
def genEnv : Env where
  gates := OQ.Generated.Serde.gateTable.map (fun r => ⟨r.1, r.2.1, r.2.2.1, r.2.2.2.1, r.2.2.2.2.1, r.2.2.2.2.2⟩)
  others := OQ.Generated.Serde.otherGlobals
  control := OQ.Generated.Serde.controlledGateName
  dagger := OQ.Generated.Serde.daggerGateName
  exponential := OQ.Generated.Serde.exponentialGateName
  power := OQ.Generated.Serde.powerGateSymbol

inductive Lookup
  | gate (gi : GateInfo)
  | other
  | missing
  deriving DecidableEq, Repr

/-- `globals()[name]` in _builtin_gates -/
def lookupGlobal (env : Env) (n : Name) : Lookup :=
  match env.gates.find? (fun gi => gi.key == n) with
  | some gi => .gate gi
  | none => if env.others.contains n then .other else .missing

/-- `sub in s` for Python strings -/
def containsSub : Name → Name → Bool
  | [], sub => sub.isPrefixOf []
  | c :: cs, sub => sub.isPrefixOf (c :: cs) || containsSub cs sub

/-! ### gates, circuits -/

structure CustomDef (P : Type) where
  gateName : Name
  matrix : List (List P)
  ordering : List Name        -- params_ordering: sympy symbols, by name
  deriving DecidableEq, Repr

inductive Gate (P E : Type)
  | builtin (name : Name) (params : List P)            -- MatrixFactoryGate made by _builtin_gates
  | custom (defn : CustomDef P) (params : List P)      -- MatrixFactoryGate made by a CustomGateDefinition
  | controlled (g : Gate P E) (k : Int)
  | dagger (g : Gate P E)
  | exponential (g : Gate P E)
  | power (g : Gate P E) (e : E)
  deriving DecidableEq, Repr

structure Op (P E : Type) where
  gate : Gate P E
  qubits : List Int
  deriving DecidableEq, Repr

structure Circuit (P E : Type) where
  nQubits : Int
  ops : List (Op P E)
  deriving DecidableEq, Repr

/-! ### symbol table: `_make_symbols_map` (code) and how a name is looked up in it -/

inductive SymEntry
  | sym (n : Name)                      -- sympy.Symbol(n)
  | dict (d : List (Nat × Name))        -- {index: sympy.Symbol(name)}
  deriving DecidableEq, Repr

/-- a Python dict with `str` keys, insertion ordered -/
abbrev SymMap := List (Name × SymEntry)

def alookup {α β : Type} [DecidableEq α] : List (α × β) → α → Option β
  | [], _ => none
  | (k', v) :: rest, k => if k' = k then some v else alookup rest k

/-- `d[k] = v` -/
def aset {α β : Type} [DecidableEq α] : List (α × β) → α → β → List (α × β)
  | [], k, v => [(k, v)]
  | (k', v') :: rest, k, v => if k' = k then (k', v) :: rest else (k', v') :: aset rest k v

def isDigit (c : Char) : Bool := '0' ≤ c && c ≤ '9'

/-- `int(digits)` -/
def digitsToNat (ds : List Char) : Nat := ds.foldl (fun acc c => 10 * acc + (c.toNat - '0'.toNat)) 0

/-- `re.search(r"^(.*)\[([0-9]+)\]$", name)`: the groups, if it matches.  Works on the reversed
    string: `]`, a maximal non-empty run of digits, `[`, the rest. -/
def parseIndexed (s : Name) : Option (Name × List Char) :=
  match s.reverse with
  | ']' :: rest =>
    let ds := rest.takeWhile isDigit
    match rest.dropWhile isDigit with
    | '[' :: base => if ds.isEmpty then none else some (base.reverse, ds.reverse)
    | _ => none
  | _ => none

/-- the dictionary key a symbol name is filed under -/
def baseOf (s : Name) : Name :=
  match parseIndexed s with
  | some (b, _) => b
  | none => s

def symStep (m : SymMap) (name : Name) : Except Err SymMap :=
  match parseIndexed name with
  | some (b, ds) =>
    -- symbols_map.setdefault(b, {})[int(ds)] = Symbol(name)
    match alookup m b with
    | none => .ok (aset m b (.dict [(digitsToNat ds, name)]))
    | some (.dict d) => .ok (aset m b (.dict (aset d (digitsToNat ds) name)))
    | some (.sym _) => .error .type      -- 'Symbol' object does not support item assignment
  | none => .ok (aset m name (.sym name))

def symFold : SymMap → List Name → Except Err SymMap
  | m, [] => .ok m
  | m, n :: ns => match symStep m n with
    | .ok m' => symFold m' ns
    | .error e => .error e

/-- `_make_symbols_map(symbol_names)` -/
def makeSymbolsMap (names : List Name) : Except Err SymMap := symFold [] names

/-- what the text of a symbol name evaluates to in the namespace `m`: `x` → `m["x"]`,
    `x[3]` → `m["x"][3]`; `none` when the table does not supply a symbol for it -/
def resolve (m : SymMap) (s : Name) : Option Name :=
  match parseIndexed s with
  | some (b, ds) =>
    match alookup m b with
    | some (.dict d) => alookup d (digitsToNat ds)
    | _ => none
  | none =>
    match alookup m s with
    | some (.sym n) => some n
    | _ => none

/-! ### externals: expression text, exponent text, definition equality -/

structure Codec (P E : Type) where
  ser : P → Name                                -- serialize_expr = str
  sympify : SymMap → Name → Except Err P        -- sympy.sympify(text, locals=m)
  free : P → List Name                          -- names of p.free_symbols ([] for Python numbers)
  expoText : E → Name                           -- f"{exponent}"
  defNe : CustomDef P → CustomDef P → Bool      -- CustomGateDefinition.__ne__

variable {P E : Type}

/-- `deserialize_expr(text, symbol_names)` -/
def deserializeExpr (C : Codec P E) (names : List Name) (t : Name) : Except Err P :=
  match makeSymbolsMap names with
  | .ok m => C.sympify m t
  | .error e => .error e

/-! ### names, params, free symbols of gates -/

def nameLt : Name → Name → Bool
  | [], [] => false
  | [], _ :: _ => true
  | _ :: _, [] => false
  | a :: as, b :: bs => a.val < b.val || (a == b && nameLt as bs)

/-- insert into a sorted duplicate-free list -/
def insertName (x : Name) : List Name → List Name
  | [] => [x]
  | y :: ys => if x = y then y :: ys else if nameLt x y then x :: y :: ys else y :: insertName x ys

/-- `sorted(set(...), key=str)` -/
def sortDedup (l : List Name) : List Name := l.foldr insertName []

def Gate.params : Gate P E → List P
  | .builtin _ ps => ps
  | .custom _ ps => ps
  | .controlled g _ => g.params
  | .dagger g => g.params
  | .exponential g => g.params
  | .power g _ => g.params

/-- `sorted(map(str, gate.free_symbols))` = names of `get_free_symbols(gate.params)` -/
def Gate.free (C : Codec P E) (g : Gate P E) : List Name := sortDedup (g.params.flatMap C.free)

/-- the `name` property of every gate kind -/
def Gate.name (env : Env) (C : Codec P E) : Gate P E → Name
  | .builtin n _ => n
  | .custom d _ => d.gateName
  | .controlled _ _ => env.control
  | .dagger g => g.name env C ++ '_' :: env.dagger
  | .exponential _ => env.exponential
  | .power g e => g.name env C ++ env.power ++ C.expoText e

/-- `_innermost_gate` -/
def Gate.innermost : Gate P E → Gate P E
  | .controlled g _ => g.innermost
  | .dagger g => g.innermost
  | .exponential g => g.innermost
  | .power g _ => g.innermost
  | g => g

/-! ### dictionaries -/

/-- a gate dictionary: keys `name`, `params`, `free_symbols`, `wrapped_gate`, `num_control_qubits`,
    `exponent`; `leaf` has no `wrapped_gate` key -/
inductive GDict (E : Type)
  | leaf (name : Option Name) (params free : List Name) (numControl : Option Int) (exponent : Option E)
  | wrap (name : Option Name) (params free : List Name) (inner : GDict E)
         (numControl : Option Int) (exponent : Option E)
  deriving DecidableEq, Repr

structure OpDict (E : Type) where
  gate : GDict E
  qubits : List Int
  deriving DecidableEq, Repr

structure DefDict where
  gateName : Name
  matrix : List (List Name)
  ordering : List Name
  deriving DecidableEq, Repr

structure CDict (E : Type) where
  nQubits : Option Int
  ops : List (OpDict E)        -- key `operations`, absent when empty
  defs : List DefDict          -- key `custom_gate_definitions`, absent when empty
  deriving DecidableEq, Repr

/-! ### serialisation (`to_dict`, single dispatch on the gate kind) -/

def gateToDict (env : Env) (C : Codec P E) : Gate P E → GDict E
  | .builtin n ps => .leaf (some n) (ps.map C.ser) (Gate.free C (.builtin n ps)) none none
  | .custom d ps => .leaf (some d.gateName) (ps.map C.ser) (Gate.free C (.custom d ps)) none none
  | .controlled g k => .wrap (some env.control) [] [] (gateToDict env C g) (some k) none
  | .dagger g => .wrap (some (Gate.name env C (.dagger g))) [] [] (gateToDict env C g) none none
  | .exponential g => .wrap (some env.exponential) [] [] (gateToDict env C g) none none
  | .power g e => .wrap (some (Gate.name env C (.power g e))) [] [] (gateToDict env C g) none (some e)

def opToDict (env : Env) (C : Codec P E) (o : Op P E) : OpDict E := ⟨gateToDict env C o.gate, o.qubits⟩

def defToDict (C : Codec P E) (d : CustomDef P) : DefDict :=
  ⟨d.gateName, d.matrix.map (fun row => row.map C.ser), d.ordering⟩

def customDefOf (o : Op P E) : Option (CustomDef P) :=
  match o.gate.innermost with
  | .custom d _ => some d
  | _ => none

def nameEq (n : Name) (d : CustomDef P) : Bool := d.gateName == n

/-- the `unique_operation_dict` loop body -/
def addDef (C : Codec P E) (acc : List (CustomDef P)) (d : CustomDef P) : Except Err (List (CustomDef P)) :=
  match acc.find? (nameEq d.gateName) with
  | none => .ok (acc ++ [d])
  | some d0 => if C.defNe d0 d then .error .value else .ok acc

def addDefs (C : Codec P E) : List (CustomDef P) → List (CustomDef P) → Except Err (List (CustomDef P))
  | acc, [] => .ok acc
  | acc, d :: ds => match addDef C acc d with
    | .ok acc' => addDefs C acc' ds
    | .error e => .error e

def insertDef (d : CustomDef P) : List (CustomDef P) → List (CustomDef P)
  | [] => [d]
  | y :: ys => if nameLt y.gateName d.gateName then y :: insertDef d ys else d :: y :: ys

/-- `sorted(values, key=attrgetter("gate_name"))` (stable insertion sort) -/
def sortDefs (l : List (CustomDef P)) : List (CustomDef P) := l.foldr insertDef []

/-- `Circuit.collect_custom_gate_definitions` -/
def collectDefs (C : Codec P E) (ops : List (Op P E)) : Except Err (List (CustomDef P)) :=
  match addDefs C [] (ops.filterMap customDefOf) with
  | .ok u => .ok (sortDefs u)
  | .error e => .error e

/-- `to_dict(circuit)`; the only failure is the ValueError of conflicting definitions -/
def circuitToDict (env : Env) (C : Codec P E) (c : Circuit P E) : Except Err (CDict E) :=
  match collectDefs C c.ops with
  | .ok defs => .ok ⟨some c.nQubits, c.ops.map (opToDict env C), defs.map (defToDict C)⟩
  | .error e => .error e

/-! ### deserialisation -/

/-- constructor checks (`__post_init__`) -/
def mkControlled (g : Gate P E) (k : Int) : Except Err (Gate P E) :=
  if k < 1 then .error .value else .ok (.controlled g k)

def mkExponential (C : Codec P E) (g : Gate P E) : Except Err (Gate P E) :=
  if (Gate.free C g).isEmpty then .ok (.exponential g) else .error .value

def mkPower (C : Codec P E) (g : Gate P E) (e : E) : Except Err (Gate P E) :=
  if (Gate.free C g).isEmpty then .ok (.power g e) else .error .value

def optKey {α : Type} : Option α → Except Err α
  | some a => .ok a
  | none => .error .key

/-- `_builtin_gate_from_dict` -/
def builtinFromDict (env : Env) (C : Codec P E) (name : Option Name) (params free : List Name) :
    Except Err (Gate P E) :=
  match name with
  | none => .error .key
  | some n =>
    match lookupGlobal env n with
    | .missing => .error .key
    | .other =>
      if params.isEmpty then .error .junk
      else match params.mapM (deserializeExpr C free) with
        | .ok _ => .error .junk
        | .error e => .error e
    | .gate gi =>
      if params.isEmpty then (if gi.prototype then .error .junk else .ok (.builtin gi.gateName []))
      else match params.mapM (deserializeExpr C free) with
        | .ok ps => if gi.prototype then .ok (.builtin gi.gateName ps) else .error .junk
        | .error e => .error e

/-- `_special_gate_from_dict`, given the (already computed) result for the `wrapped_gate` entry -/
def specialFromDict (env : Env) (C : Codec P E) (name : Option Name)
    (inner : Option (Except Err (Gate P E))) (numControl : Option Int) (exponent : Option E) :
    Except Err (Gate P E) :=
  match name with
  | none => .error .key
  | some n =>
    if n = env.control then
      match inner with
      | none => .error .key
      | some (.error e) => .error e
      | some (.ok g) => match numControl with
        | none => .error .key
        | some k => mkControlled g k
    else if env.dagger.isSuffixOf n then
      match inner with
      | none => .error .key
      | some (.error e) => .error e
      | some (.ok g) => .ok (.dagger g)
    else if n = env.exponential then
      match inner with
      | none => .error .key
      | some (.error e) => .error e
      | some (.ok g) => mkExponential C g
    else if containsSub n env.power then
      match inner with
      | none => .error .key
      | some (.error e) => .error e
      | some (.ok g) => match exponent with
        | none => .error .key
        | some e => mkPower C g e
    else .error .key

/-- `_custom_gate_instance_from_dict`: the arguments are read against the dictionary's own
    `free_symbols` (a list, used for every argument), the definition's formal names being only the
    fallback for a dictionary without that key -/
def customFromDict (C : Codec P E) (defs : List (CustomDef P)) (name : Option Name) (params free : List Name) :
    Except Err (Gate P E) :=
  match name with
  | none => .error .key
  | some n =>
    match defs.find? (nameEq n) with
    | none => .error .value
    | some d => match params.mapM (deserializeExpr C (if free.isEmpty then d.ordering else free)) with
      | .ok ps => .ok (.custom d ps)
      | .error e => .error e

/-- the cascade of `_gate_from_dict`: built-in, on KeyError special, on KeyError custom -/
def cascade (env : Env) (C : Codec P E) (defs : List (CustomDef P)) (name : Option Name)
    (params free : List Name) (inner : Option (Except Err (Gate P E)))
    (numControl : Option Int) (exponent : Option E) : Except Err (Gate P E) :=
  match builtinFromDict env C name params free with
  | .ok g => .ok g
  | .error .key =>
    match specialFromDict env C name inner numControl exponent with
    | .ok g => .ok g
    | .error .key => customFromDict C defs name params free
    | .error e => .error e
  | .error e => .error e

/-- `_gate_from_dict` -/
def gateFromDict (env : Env) (C : Codec P E) (defs : List (CustomDef P)) : GDict E → Except Err (Gate P E)
  | .leaf name ps fs nc ex => cascade env C defs name ps fs none nc ex
  | .wrap name ps fs inner nc ex =>
    cascade env C defs name ps fs (some (gateFromDict env C defs inner)) nc ex

def opFromDict (env : Env) (C : Codec P E) (defs : List (CustomDef P)) (o : OpDict E) : Except Err (Op P E) :=
  match gateFromDict env C defs o.gate with
  | .ok g => .ok ⟨g, o.qubits⟩
  | .error e => .error e

/-- `_n_qubits(matrix)` succeeds: square of dimension a positive power of two … `2^0` included -/
def shapeOk {α : Type} (rows : List (List α)) : Bool :=
  rows.length != 0 && rows.all (fun r => r.length == rows.length) && 2 ^ (Nat.log2 rows.length) == rows.length

/-- `custom_gate_def_from_dict` -/
def defFromDict (C : Codec P E) (d : DefDict) : Except Err (CustomDef P) :=
  match d.matrix.mapM (fun row => row.mapM (deserializeExpr C d.ordering)) with
  | .error e => .error e
  | .ok m => if shapeOk m then .ok ⟨d.gateName, m, d.ordering⟩ else .error .value

/-- `_circuit_size_by_operations`; `max()` of nothing is a ValueError -/
def sizeByOps (ops : List (Op P E)) : Except Err Int :=
  if ops.isEmpty then .ok 0
  else match ops.flatMap (fun o => o.qubits) with
    | [] => .error .value
    | x :: xs => .ok (xs.foldl max x + 1)

/-- `Circuit.__init__(operations, n_qubits)` for an integer `n_qubits` -/
def mkCircuit (ops : List (Op P E)) (n : Int) : Except Err (Circuit P E) :=
  if n = 0 then
    match sizeByOps ops with
    | .ok k => .ok ⟨k, ops⟩
    | .error e => .error e
  else if n ≤ 0 then .error .value
  else .ok ⟨n, ops⟩

/-- `circuit_from_dict` -/
def circuitFromDict (env : Env) (C : Codec P E) (d : CDict E) : Except Err (Circuit P E) :=
  match d.defs.mapM (defFromDict C) with
  | .error e => .error e
  | .ok defs =>
    match d.ops.mapM (opFromDict env C defs) with
    | .error e => .error e
    | .ok ops => match d.nQubits with
      | none => .error .key
      | some n => mkCircuit ops n

/-- `to_dict(list of circuits)` / `circuitset_from_dict` -/
def circuitsetToDict (env : Env) (C : Codec P E) (cs : List (Circuit P E)) : Except Err (List (CDict E)) :=
  cs.mapM (circuitToDict env C)

def circuitsetFromDict (env : Env) (C : Codec P E) (ds : List (CDict E)) : Except Err (List (Circuit P E)) :=
  ds.mapM (circuitFromDict env C)

/-! ### maps over the parameters (what a round trip does to them) -/

def CustomDef.map {Q : Type} (f : P → Q) (d : CustomDef P) : CustomDef Q :=
  ⟨d.gateName, d.matrix.map (fun row => row.map f), d.ordering⟩

def Gate.map {Q : Type} (f : P → Q) : Gate P E → Gate Q E
  | .builtin n ps => .builtin n (ps.map f)
  | .custom d ps => .custom (d.map f) (ps.map f)
  | .controlled g k => .controlled (g.map f) k
  | .dagger g => .dagger (g.map f)
  | .exponential g => .exponential (g.map f)
  | .power g e => .power (g.map f) e

def Op.map {Q : Type} (f : P → Q) (o : Op P E) : Op Q E := ⟨o.gate.map f, o.qubits⟩

def Circuit.map {Q : Type} (f : P → Q) (c : Circuit P E) : Circuit Q E := ⟨c.nQubits, c.ops.map (Op.map f)⟩

/-- `Circuit.free_symbols`: first-appearance order over the operations -/
def Circuit.freeSymbols (C : Codec P E) (c : Circuit P E) : List Name :=
  (c.ops.flatMap (fun o => Gate.free C o.gate)).eraseDups

/-! ### the executable stand-in for `str` / `sympify` used by the driver

A parameter is its printed text plus the names of its free symbols.  `sympify` scans the
identifiers of the text: a name bound in the table is that symbol; an unbound name that sympy's own
namespace defines (supplied per request by the harness: `gamma`, `beta`, `S`, `pi`, …) is
*not* a symbol; any other plain unbound name becomes a fresh symbol; indexing something that is not
an index dictionary is a TypeError, a missing index a KeyError. -/

structure PExpr where
  text : Name
  syms : List Name
  deriving DecidableEq, Repr

structure Expo where
  isInt : Bool
  num : Int
  den : Nat
  text : Name
  deriving DecidableEq, Repr

def isIdStart (c : Char) : Bool := c.isAlpha || c == '_'
def isIdChar (c : Char) : Bool := c.isAlphanum || c == '_'

/-- the imaginary suffix of a Python complex literal (`1e-07j`) -/
def dropJ : List Char → List Char
  | 'j' :: rest => rest
  | s => s

/-- skip a numeric literal (`12`, `1.5`, `1e-05`, `2.5E+3`, `1j`, `1e-07j`) -/
def skipNumber (s : List Char) : List Char :=
  let s1 := s.dropWhile (fun c => isDigit c || c == '.')
  match s1 with
  | c :: rest =>
    if c == 'e' || c == 'E' then
      match rest with
      | d :: rest' =>
        if isDigit d then dropJ (rest'.dropWhile isDigit)
        else if (d == '+' || d == '-') then dropJ (rest'.dropWhile isDigit)
        else s1
      | [] => s1
    else if c == 'j' then rest
    else s1
  | [] => []

/-- an identifier of a text: its name, its `[digits]` suffix if one follows directly, and whether it is
    applied (`name(`) -/
structure Tok where
  ident : Name
  idx : Option (List Char)
  called : Bool
  deriving DecidableEq, Repr

def scanIdents : Nat → List Char → List Tok
  | 0, _ => []
  | _, [] => []
  | fuel + 1, c :: rest =>
    if isIdStart c then
      let ident := c :: rest.takeWhile isIdChar
      let after := rest.dropWhile isIdChar
      match after with
      | '[' :: r2 =>
        let ds := r2.takeWhile isDigit
        match r2.dropWhile isDigit with
        | ']' :: r3 => if ds.isEmpty then ⟨ident, none, false⟩ :: scanIdents fuel after
                       else ⟨ident, some ds, false⟩ :: scanIdents fuel r3
        | _ => ⟨ident, none, false⟩ :: scanIdents fuel after
      | '(' :: _ => ⟨ident, none, true⟩ :: scanIdents fuel after
      | _ => ⟨ident, none, false⟩ :: scanIdents fuel after
    else if isDigit c || (c == '.' && (rest.head?.map isDigit).getD false) then
      scanIdents fuel (skipNumber (c :: rest))
    else scanIdents fuel rest

/-- `consts`: names sympy's namespace binds to a constant usable in arithmetic (`pi`, `E`, `I`);
    `callables`: names it binds to a class / function / registry (`gamma`, `beta`, `S`, `N`, `Q`, `sin`):
    fine when applied, returned as such when they are the whole text, a TypeError inside arithmetic -/
def resolveTokens (consts callables : List Name) (m : SymMap) (bare : Bool) :
    List Tok → Except Err (List Name)
  | [] => .ok []
  | tk :: rest =>
    let here : Except Err (List Name) :=
      match tk.idx with
      | none =>
        match alookup m tk.ident with
        | some (.sym n) => .ok [n]
        | some (.dict _) => .error .type
        | none =>
          if consts.contains tk.ident then .ok []
          else if callables.contains tk.ident then
            (if tk.called || bare then .ok [] else .error .type)
          else .ok [tk.ident]
      | some ds =>
        match alookup m tk.ident with
        | some (.dict d) => match alookup d (digitsToNat ds) with
          | some n => .ok [n]
          | none => .error .key
        | _ => .error .type
    match here with
    | .error e => .error e
    | .ok a => match resolveTokens consts callables m bare rest with
      | .ok b => .ok (a ++ b)
      | .error e => .error e

def execSympify (consts callables : List Name) (m : SymMap) (t : Name) : Except Err PExpr :=
  let toks := scanIdents (t.length + 1) t
  let bare := match toks with
    | [tk] => tk.ident == t
    | _ => false
  match resolveTokens consts callables m bare toks with
  | .ok syms => .ok ⟨t, sortDedup syms⟩
  | .error e => .error e

def execCodec (consts callables : List Name) : Codec PExpr Expo where
  ser := fun p => p.text
  sympify := execSympify consts callables
  free := fun p => p.syms
  expoText := fun e => e.text
  defNe := fun a b => a != b

end OQ.C05
