/-
  C07 — driver-side realisation of the external `minv` (sympy `Matrix.inv`) over the exact field ℚ(ζ₈):
  Gauss–Jordan elimination.  Not used by any theorem (theorems take `Ext` with its laws as hypotheses);
  the correspondence check compares it with sympy's inverse on every negative integer power.
-/
import OQ.Model.C07
namespace OQ.C07

/-! exact inverse over the field ℚ(ζ₈) -/
def rowScale (x : Cyc8) (r : List Cyc8) : List Cyc8 := r.map (fun y => x * y)
def rowSub (r s : List Cyc8) (x : Cyc8) : List Cyc8 := List.zipWith (fun a b => a - x * b) r s

/-- Gauss–Jordan on the augmented rows; `none` when singular -/
def gaussJordan (d : Nat) (rows : List (List Cyc8)) : Option (List (List Cyc8)) := Id.run do
  let mut a := rows.toArray
  for col in [0:d] do
    let mut piv : Option Nat := none
    for r in [col:d] do
      if piv.isNone && (a[r]!).getD col 0 != 0 then piv := some r
    match piv with
    | none => return none
    | some p =>
      let rp := a[p]!
      a := a.set! p a[col]!
      let rp := rowScale (Cyc8.inv (rp.getD col 0)) rp
      a := a.set! col rp
      for r in [0:d] do
        if r != col then
          let f := (a[r]!).getD col 0
          if f != 0 then a := a.set! r (rowSub a[r]! rp f)
  return some a.toList

def exactInv (M : Mat Cyc8) : Except Err (Mat Cyc8) :=
  let d := M.r
  let aug := (List.range d).map (fun i =>
    (List.range d).map (fun j => M.get i j) ++ (List.range d).map (fun j => if i = j then (1 : Cyc8) else 0))
  match gaussJordan d aug with
  | none => .error .noninv
  | some rows => .ok (Mat.ofLists (rows.map (fun r => r.drop d)))

end OQ.C07
