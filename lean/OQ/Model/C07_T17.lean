/- C07 — work package T17 (Mathlib-free): the INSTANTIATION of the sympy operations `MExt` (the parameter record of the regenerated
   `Gate.matrix`, harness/translate_t17.py → OQ/Generated/TranslatedGatesMatrix.lean) by the model's matrix operations.  It is the
   instantiation under which Props/C07_TranslatedMatrix.lean proves `Gate.matrix = gateMatrix`, and the one the compiled driver runs
   at ℚ(ζ₈) in the differential self-check (harness/translated_check_t17.py). -/
import OQ.Model.C07
import OQ.Generated.TranslatedGatesMatrix
namespace OQ.C07
open OQ.Generated
namespace TG
variable {P R : Type}

/-- `sympy.Matrix.diag(A, B)`: the block-diagonal matrix of two blocks -/
def diagBlocks [Zero R] (A B : Mat R) : Mat R :=
  Mat.ofFn (A.r + B.r) (A.c + B.c) (fun i j =>
    if i < A.r ∧ j < A.c then A.get i j
    else if A.r ≤ i ∧ A.c ≤ j then B.get (i - A.r) (j - A.c)
    else 0)

/-- the type of the two embedding routines `_lift_matrix_sympy` / `_lift_matrix_numpy` (property C01; opaque here) -/
abbrev LiftFn (R : Type) := Mat R → List Int → Int → Except Err (Mat R)

/-- INSTANTIATION of the sympy operations by the model's matrix operations: `matrix_factory(*params)` is application of the model's
    factory, `sympy.eye(n)` the identity, `Matrix.diag` the block-diagonal matrix, `.adjoint()` the conjugate transpose (with the
    conjugation `cj`), `**` the model's `mpow` (integer powers by repeated product / the external inverse, fractional powers the
    external `mfrac`), `.exp()` the external `mexp`; the exceptions are the model's `Err`. -/
def mext [Zero R] [One R] [Add R] [Mul R] (cj : R → R) (x : Ext R) (ls ln : LiftFn R) :
    TranslatedGates.MExt P (List P → Except Err (Mat R)) Rat (Mat R) Err where
  ext_factory f ps := f ps
  ext_eye n := .ok (Mat.identity n.toNat)
  ext_diag A B := .ok (diagBlocks A B)
  ext_adjoint A := .ok (adjointWith cj A)
  ext_matexp A := x.mexp A
  ext_matpow A e := mpow x A e
  ext_lift_sympy := ls
  ext_lift_numpy := ln

end TG
end OQ.C07
