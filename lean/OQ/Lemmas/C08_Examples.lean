/- C08: concrete data for the non-vacuity examples of OQ/Props/C08.lean (exact scalars ℤ[i], an external satisfying
   the assumed laws, regular gates, an example circuit).  Not property theorems. -/
import OQ.Lemmas.C08
import Mathlib.NumberTheory.Zsqrtd.GaussianInt
set_option linter.unusedSectionVars false
namespace OQ.C08
open Matrix OQ.Spec

deriving instance DecidableEq for OQ.Mat

/-- exact scalars for the examples: the Gaussian integers with their conjugation -/
def kG : Scal GaussianInt := ⟨⟨0, 1⟩, 0, 0, 0, star⟩
/-- a (partial) external satisfying the laws: only the first power is available -/
def x1 : Ext GaussianInt := ⟨fun _ => none, fun m e => if e = 1 then some m else none⟩

theorem x1_laws : Gate.ExtLaws kG x1 := by
  refine ⟨?_, ?_, ?_, ?_, ?_⟩
  · intro A B _ h; simp [x1] at h
  · intro A e B hA h
    simp only [x1] at h
    split at h
    · simp only [Option.some.injEq] at h; subst h; exact ⟨hA, rfl, rfl⟩
    · simp at h
  · intro A _ _; rfl
  · intro A e _ _ _; simp only [x1]; split <;> rfl
  · intro A d e _ _ _; simp only [x1]; split <;> rfl

def gS : Gate GaussianInt := .base "S" (Gates.s kG) 1 false
def gX : Gate GaussianInt := .base "X" Gates.x 1 true
def gCN : Gate GaussianInt := .base "CNOT" Gates.cnot 2 true

theorem gS_regular : Gate.Regular kG gS :=
  Gate.Regular.base _ _ _ _ (canon_ofFn _ _ _) (by decide) (by decide) (by intro h; cases h)
theorem gX_regular : Gate.Regular kG gX :=
  Gate.Regular.base _ _ _ _ (canon_ofFn _ _ _) (by decide) (by decide) (by intro _; decide +kernel)

theorem gCN_regular : Gate.Regular kG gCN :=
  Gate.Regular.base _ _ _ _ (by unfold Canon; decide +kernel) (by decide +kernel) (by decide +kernel)
    (by intro _; decide +kernel)

/-- a circuit of regular gates with a self-adjoint gate, a wrapped (controlled dagger) gate, an exponential and an
    integer power, on unordered / gapped qubits: the hypotheses of the `_partial` theorems are satisfiable -/
def cEx : Circ (Gate GaussianInt) :=
  mkCirc [⟨gX, [2]⟩, ⟨.ctrl (.dag gS) 1, [3, 0]⟩, ⟨.pow gCN 1, [1, 3]⟩, ⟨.exp gS, [0]⟩] 0

/-- the `_partial` theorems apply to the example circuit (every width, every control position) -/
theorem cEx_regular : ∀ o ∈ cEx.ops, Gate.Regular kG o.gate := by
  intro o ho
  simp only [cEx, mkCirc_ops, List.mem_cons, List.not_mem_nil, or_false] at ho
  rcases ho with rfl | rfl | rfl | rfl
  · exact gX_regular
  · exact Gate.Regular.ctrl _ _ (Gate.Regular.dag _ gS_regular)
  · exact Gate.Regular.pow _ _ gCN_regular (by decide)
  · exact Gate.Regular.exp _ gS_regular

end OQ.C08
